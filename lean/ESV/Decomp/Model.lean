import ESV.Gen.Tables
import ESV.Beh.Machine
/-
Front phases of the ExplorerScript decompiler (the engine DESIGN §0 calls "not modellable at code fidelity"
as a whole): the phases *before* the heuristic graph rewriting are ordinary list/dict code and are modelled
here statement by statement:

* `OpsLabelJumpToResolver` + `process_op_for_jump` (decompiler/label_jump_to_resolver.py,
  ssb_special_ops.py): jump parameters become label objects, labels are interleaved with the ops;
* `SsbGraphMinimizer.__init__` + `_get_edges*` (graph_building/graph_minimizer.py) with `is_loop` /
  `has_path_not_using_any_loop_edges` (graph_utils.py): the base control-flow graph per routine.

igraph is modelled as two lists (vertex attributes by vertex id, edges by edge id); the order in which
`Vertex.out_edges()` delivers edges (ascending target id, then *descending* edge id) is part of the
environment model and is re-measured against the installed igraph on every run (harness/impl_decomp.py).
Where Python raises, the model returns `Except.error` with the exception class.
-/
namespace ESV.Decomp
open ESV.Beh

/-- an `SsbLabel` as `known_labels` holds it: key (memory offset), id, routine, referenced_from_other_routine -/
structure Lbl where
  off : Int
  id : Nat
  rtn : Nat
  foreign : Bool
deriving DecidableEq, Repr

/-- what the resolver yields per routine: plain ops, `SsbLabel`s and `SsbLabelJump`s (root op without the
jump parameter, label id, CallJump marker) -/
inductive Item where
  | op (o : MOp)
  | label (id : Nat)
  | ljump (root : MOp) (lbl : Nat) (call : Bool)
deriving DecidableEq, Repr

def jumpIndex (name : String) : Option Nat :=
  (ESV.Gen.opsWithJump.find? fun kv => kv.1 == name).map (·.2)

/-- `_build_end_offsets` -/
def endOffsets : List (List MOp) → Int → List Int
  | [], _ => []
  | r :: rs, prev =>
    let p := match r.getLast? with
      | some o => o.off
      | none => prev
    p :: endOffsets rs p

/-- `while routine_id > 0 and old_offset < routine_end_offsets[routine_id - 1]: routine_id -= 1` -/
def walkDown (ends : List Int) (target : Int) : Nat → Nat
  | 0 => 0
  | r+1 =>
    match ends[r]? with
    | some e => if target < e then walkDown ends target r else r+1
    | none => r+1      -- unreachable: r < len(ends)

/-- `while old_offset > routine_end_offsets[routine_id]: routine_id += 1; if routine_id >= len: raise` -/
def walkUp (ends : List Int) (target : Int) : Nat → Nat → Except String Nat
  | 0, _ => .error "ValueError"
  | fuel+1, r =>
    match ends[r]? with
    | none => .error "IndexError"
    | some e =>
      if target > e then
        if r + 1 ≥ ends.length then .error "ValueError" else walkUp ends target fuel (r+1)
      else .ok r

def nextLabelId (known : List Lbl) : Nat :=
  match known with
  | [] => 0
  | _ => (known.foldl (fun m l => max m l.id) 0) + 1

def markForeign (known : List Lbl) (off : Int) : List Lbl :=
  known.map fun l => if l.off == off then { l with foreign := true } else l

/-- `process_op_for_jump` for one op of routine `rid`; returns the new label table and the item -/
def processOp (ends : List Int) (known : List Lbl) (rid : Nat) (o : MOp) : Except String (List Lbl × Item) :=
  match jumpIndex o.name with
  | none => .ok (known, .op o)
  | some idx =>
    if o.params.length < idx then .error "ValueError"
    else
      match o.params[idx]? with
      | none => .error "IndexError"
      | some (.int target) =>
        let root : MOp := ⟨o.off, o.name, o.params.eraseIdx idx⟩
        let call := o.name == ESV.Gen.op_call
        match known.find? fun l => l.off == target with
        | some l =>
          let known' := if rid != l.rtn then markForeign known target else known
          .ok (known', .ljump root l.id call)
        | none =>
          let id := nextLabelId known
          let r0 := walkDown ends target rid
          match walkUp ends target (ends.length + 1) r0 with
          | .error e => .error e
          | .ok r =>
            .ok (known ++ [⟨target, id, r, r != rid⟩], .ljump root id call)
      | some _ => .error "AssertionError"

def processRoutine (ends : List Int) (rid : Nat) : List Lbl → List MOp → Except String (List Lbl × List Item)
  | known, [] => .ok (known, [])
  | known, o :: os =>
    match processOp ends known rid o with
    | .error e => .error e
    | .ok (known', it) =>
      match processRoutine ends rid known' os with
      | .error e => .error e
      | .ok (known'', its) => .ok (known'', it :: its)

def processAll (ends : List Int) : Nat → List Lbl → List (List MOp) → Except String (List Lbl × List (List Item))
  | _, known, [] => .ok (known, [])
  | rid, known, r :: rs =>
    match processRoutine ends rid known r with
    | .error e => .error e
    | .ok (known', its) =>
      match processAll ends (rid+1) known' rs with
      | .error e => .error e
      | .ok (known'', rest) => .ok (known'', its :: rest)

def itemOff : Item → Int
  | .op o => o.off
  | .label _ => -1
  | .ljump r _ _ => r.off

/-- `_iter_routine`: a label is yielded before every item whose offset is a key of the label table -/
def interleave (known : List Lbl) : List Item → List Item
  | [] => []
  | it :: its =>
    match known.find? fun l => l.off == itemOff it with
    | some l => .label l.id :: it :: interleave known its
    | none => it :: interleave known its

structure Resolved where
  labels : List Lbl
  rtns : List (List Item)
deriving Repr

/-- `list(OpsLabelJumpToResolver(routine_ops))` -/
def resolve (rs : List (List MOp)) : Except String Resolved :=
  match processAll (endOffsets rs 0) 0 [] rs with
  | .error e => .error e
  | .ok (known, rtns) => .ok ⟨known, rtns.map (interleave known)⟩

/-- `has_any_calls` of `convert()` -/
def hasAnyCalls (r : Resolved) : Bool :=
  r.rtns.any fun rt => rt.any fun
    | .ljump _ _ c => c
    | _ => false

/-! ## base graph -/

inductive VOp where
  | item (it : Item)
  | foreign (lbl : Nat)
deriving DecidableEq, Repr

structure Edge where
  src : Nat
  dst : Nat
  level : Nat
  loop : Bool
deriving DecidableEq, Repr

structure Graph where
  vs : List VOp
  es : List Edge
deriving Repr

def insertBy {α} (lt : α → α → Bool) (x : α) : List α → List α
  | [] => [x]
  | y :: ys => if lt x y then x :: y :: ys else y :: insertBy lt x ys

def sortBy {α} (lt : α → α → Bool) (l : List α) : List α := l.foldr (insertBy lt) []

/-- `Vertex.out_edges()` of igraph: (edge id, edge) in ascending target id, then descending edge id -/
def outEdges (g : Graph) (v : Nat) : List (Nat × Edge) :=
  let own := (g.es.zipIdx.filter fun p => p.1.src == v).map fun p => (p.2, p.1)
  sortBy (fun a b => a.2.dst < b.2.dst || (a.2.dst == b.2.dst && a.1 > b.1)) own

/-- `has_path_not_using_any_loop_edges(v1, v2)`; the Python list `edges` is popped from its end, here the
top of the stack is the head -/
def hasPathGo (g : Graph) (v2 : Nat) : Nat → List Edge → List Nat → Bool
  | 0, _, _ => false
  | _, [], _ => false
  | fuel+1, e :: stack, seen =>
    if seen.contains e.dst then hasPathGo g v2 fuel stack seen
    else if e.dst == v2 then true
    else
      let seen' := e.dst :: seen
      if !e.loop then hasPathGo g v2 fuel (((outEdges g e.dst).map (·.2)).reverse ++ stack) seen'
      else hasPathGo g v2 fuel stack seen'

def hasPath (g : Graph) (v1 v2 : Nat) : Bool :=
  hasPathGo g v2 (2 * g.es.length + 2) ((outEdges g v1).map (·.2)).reverse [v1]

/-- `is_loop(g, v, e)` for the edge with id `ei` (deleted and re-added at the end, as the code does) -/
def isLoop (g : Graph) (v : Nat) (ei : Nat) : Bool :=
  match g.es[ei]? with
  | none => false
  | some e =>
    if !hasPath g e.dst v then false
    else
      let g' : Graph := { g with es := g.es.eraseIdx ei }
      let any := (outEdges g' v).any fun p => hasPath g' p.2.dst v
      !any

def itemName : Item → String
  | .op o => o.name
  | .label id => "ES_LABEL<" ++ toString id ++ ">"
  | .ljump r _ _ => "ES_JUMP<" ++ r.name ++ ">"

/-- name of the op the flow analysis looks at: the root of a label jump, the item itself otherwise -/
def realName : Item → String
  | .op o => o.name
  | .label id => "ES_LABEL<" ++ toString id ++ ">"
  | .ljump r _ _ => r.name

def labelIndex (items : List Item) (id : Nat) : Option Nat :=
  items.findIdx? fun
    | .label i => i == id
    | _ => false

/-- `rtn[op_i - 1]` with Python's negative index for `op_i = 0` -/
def prevItem (items : List Item) (i : Nat) : Option Item :=
  match i with
  | 0 => items.getLast?
  | j+1 => items[j]?

/-- `_get_edges__get_next_for`; returns the successors (level, vertex) and the graph (a foreign label vertex
may have been added) -/
def nextFor (labels : List Lbl) (optimizeEnding : Bool) (rid : Nat) (items : List Item) (g : Graph)
    (level i : Nat) : Except String (List (Nat × Nat) × Graph) :=
  match prevItem items i, items[i]? with
  | some prev, some it =>
    let flowCanNotEnd := ESV.Gen.opsCtx.contains (itemName prev) || !optimizeEnding
    let real := realName it
    let guaranteed := ESV.Gen.opsJumpGuaranteed.contains real
    let n1 : List (Nat × Nat) :=
      if !guaranteed && items.length > i + 1 && (flowCanNotEnd || !ESV.Gen.opsEndFlow.contains real)
      then [(level, i+1)] else []
    let holdExtra : List (Nat × Nat) :=
      if real == ESV.Gen.op_hold && items.length > i + 1 && !n1.contains (level, i+1) then
        match items[i+1]? with
        | some nx => if ESV.Gen.opsEndFlow.contains (itemName nx) then [(level, i+1)] else []
        | none => []
      else []
    match it with
    | .ljump _ lid _ =>
      match labels.find? fun l => l.id == lid with
      | none => .error "KeyError"
      | some l =>
        if l.rtn == rid then
          match labelIndex items lid with
          | some li => .ok (n1 ++ [(level + 1, li)] ++ holdExtra, g)
          | none => .error "KeyError"
        else
          let v := g.vs.length
          .ok (n1 ++ [(level + 1, v)] ++ holdExtra, { g with vs := g.vs ++ [.foreign lid] })
    | _ => .ok (n1 ++ holdExtra, g)
  | _, _ => .error "IndexError"

/-- the `for flow_level, nxt in …` loop body of `_get_edges__add_edge`: add the edges of one op, push them -/
def addEdges (src : Nat) : List (Nat × Nat) → Graph → List (Nat × Nat) → Graph × List (Nat × Nat)
  | [], g, q => (g, q)
  | (lv, nxt) :: rest, g, q =>
    let ei := g.es.length
    let g1 : Graph := { g with es := g.es ++ [⟨src, nxt, lv, false⟩] }
    let g2 : Graph := if isLoop g1 src ei then { g1 with es := g1.es.set ei ⟨src, nxt, lv, true⟩ } else g1
    addEdges src rest g2 (q ++ [(lv, nxt)])

def isForeignV (g : Graph) (v : Nat) : Bool :=
  match g.vs[v]? with
  | some (.foreign _) => true
  | _ => false

/-- `_get_edges__add_edge`: `nxt_stack.insert(0, …)` / `nxt_stack.pop()` is a FIFO queue (head = next) -/
def explore (labels : List Lbl) (optimizeEnding : Bool) (rid : Nat) (items : List Item) :
    Nat → List (Nat × Nat) → List Nat → Graph → Except String Graph
  | _, [], _, g => .ok g
  | 0, _ :: _, _, _ => .error "fuel"
  | fuel+1, (lv, i) :: q, visited, g =>
    if visited.contains i then explore labels optimizeEnding rid items fuel q visited g
    else if isForeignV g i then explore labels optimizeEnding rid items fuel q visited g
    else
      match nextFor labels optimizeEnding rid items g lv i with
      | .error e => .error e
      | .ok (nexts, g1) =>
        let (g2, q2) := addEdges i nexts g1 q
        explore labels optimizeEnding rid items fuel q2 (i :: visited) g2

/-- `SsbGraphMinimizer.__init__` for one routine -/
def baseGraph (labels : List Lbl) (optimizeEnding : Bool) (rid : Nat) (items : List Item) : Except String Graph :=
  if items.length < 1 then .ok ⟨[], []⟩
  else explore labels optimizeEnding rid items (4 * items.length + 4) [(0, 0)] [] ⟨items.map .item, []⟩

def baseGraphsGo (labels : List Lbl) (optimizeEnding : Bool) : Nat → List (List Item) → Except String (List Graph)
  | _, [] => .ok []
  | rid, r :: rs =>
    match baseGraph labels optimizeEnding rid r with
    | .error e => .error e
    | .ok g =>
      match baseGraphsGo labels optimizeEnding (rid+1) rs with
      | .error e => .error e
      | .ok gs => .ok (g :: gs)

def baseGraphs (r : Resolved) : Except String (List Graph) :=
  baseGraphsGo r.labels (!hasAnyCalls r) 0 r.rtns

end ESV.Decomp
