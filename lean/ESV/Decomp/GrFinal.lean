import ESV.Decomp.GrBridge
import ESV.Decomp.GrInvert
import ESV.Decomp.GrLoop
import ESV.Decomp.GrDelete
/-
The three theorems about the phases with their hypotheses in Prop form, and how the hypotheses chain: what
`build_branches` leaves behind (`bridgeOk`) gives the structure `group_branches` needs, and
`group_branches` leaves the structure `invert_branches` needs.
-/
namespace ESV.Decomp.Gr
open ESV.Beh ESV.Decomp ESV.Decomp.Opt ESV.Decomp.Br

/-- `group_branches`: behaviour kept, and the structure `invert_branches` relies on is still there -/
theorem group_equiv (g g' : BGraph) (hinv : GInv g) (hd : groupDelOk g = true) (h : groupBranches g = .ok g') :
    Equivalent g.ltsB g'.ltsB (0 : Nat) (0 : Nat) ∧ FU g' ∧ NN g' := by
  unfold groupBranches at h
  unfold groupDelOk groupBranchesRaw at hd
  split at h
  · cases h
  · rename_i g1 del hgo
    cases h
    rw [hgo] at hd
    simp only [Bool.and_eq_true, Bool.not_eq_true', List.all_eq_true, Bool.or_eq_true] at hd
    obtain ⟨h0, hclosed⟩ := hd
    obtain ⟨k, hifs⟩ := groupGo_keeps _ g [] g1 del hinv (by simp) hgo
    have hcl : ∀ e ∈ g1.es, e.src ∉ del → e.dst ∉ del := by
      intro e he hsrc
      rcases hclosed e he with h1 | h1
      · exact absurd (List.contains_iff_mem.mp h1) hsrc
      · intro hd'; rw [List.contains_iff_mem.mpr hd'] at h1; cases h1
    have bd : BDel g1 del := ⟨k.inv, hcl, hifs⟩
    have h0' : (0 : Nat) ∉ del := fun hm => by rw [List.contains_iff_mem.mpr hm] at h0; cases h0
    have e2 := bd.equiv 0 h0'
    have hr : renumber del 0 = 0 := by unfold renumber; simp
    rw [hr] at e2
    refine ⟨ltsB_of_ltsP g (g1.deleteVs del) 0 0 (Nat.zero_le _) (Nat.zero_le _) (Equivalent.trans (k.equiv 0) e2),
      bd.fu_del, ?_⟩
    -- a vertex of the graph after the deletion is a vertex of the graph before
    intro u x hu hx
    have hmem : x ∈ (g1.deleteVs del).vs := List.mem_of_getElem? hx
    unfold BGraph.deleteVs at hmem
    simp only [List.mem_map, List.mem_filter] at hmem
    obtain ⟨p, ⟨hp, _⟩, rfl⟩ := hmem
    have hp' : g1.vs[p.2]? = some p.1 := List.mem_zipIdx_iff_getElem?.mp hp
    have hiu : g1.isIfV p.2 = true := by
      unfold BGraph.isIfV at hu ⊢; rw [hx] at hu; rw [hp']; exact hu
    exact k.inv.nn p.2 p.1 hiu hp'

theorem iinv_of (g : BGraph) (hfu : FU g) (hnn : NN g) : IInv g (List.range g.vs.length) :=
  ⟨hfu, fun u _ hv x hx => hnn u x hv hx⟩

/-- `invert_branches`: the step function is unchanged -/
theorem invert_stepB (g g' : BGraph) (hfu : FU g) (hnn : NN g) (h : invertBranches g = .ok g') : g'.stepB = g.stepB := by
  obtain ⟨hP, hlen⟩ := invertGo_steps _ g g' (iinv_of g hfu hnn) List.nodup_range h
  have hP' : g'.stepP = g.stepP := funext hP
  funext s
  unfold BGraph.stepB BGraph.dec
  rw [hlen, hP']
  congr 1
  funext p
  unfold BGraph.enc; rw [hlen]

/-- what passes `bridgeOk` has at most one out-edge per flag at its ifs, and no inverted if -/
theorem struct_of_bridgeOk (g : BGraph) (h : bridgeOk g = true) : FU g ∧ NN g := by
  have hv : ∀ v, g.isIfV v = true → bridgeVertexOk g v = true := by
    intro v hv
    unfold bridgeOk at h
    rw [List.all_eq_true] at h
    have := h v (List.mem_range.mpr (isIfV_lt g v hv))
    simpa [hv] using this
  constructor
  · intro i j e e' hi hj hs hif hfl
    have hb := hv e.src hif
    unfold bridgeVertexOk at hb
    split at hb
    · simp only [Bool.and_eq_true] at hb
      obtain ⟨_, hedges⟩ := hb
      split at hedges
      · rename_i ia a ib b hout
        have m1 : (i, e) ∈ g.outEs e.src := (mem_outEs g e.src i e).mpr ⟨hi, rfl⟩
        have m2 : (j, e') ∈ g.outEs e.src := (mem_outEs g e.src j e').mpr ⟨hj, hs.symm⟩
        rw [hout] at m1 m2
        simp only [List.mem_cons, Prod.mk.injEq, List.not_mem_nil, or_false] at m1 m2
        simp only [Bool.or_eq_true, Bool.and_eq_true, decide_eq_true_eq, Bool.not_eq_true'] at hedges
        rcases m1 with ⟨rfl, rfl⟩ | ⟨rfl, rfl⟩ <;> rcases m2 with ⟨rfl, rfl⟩ | ⟨rfl, rfl⟩
        · rfl
        · rcases hedges with ⟨⟨_, h1⟩, h2⟩ | ⟨⟨_, h1⟩, h2⟩ <;> (rw [h1, h2] at hfl; cases hfl)
        · rcases hedges with ⟨⟨_, h1⟩, h2⟩ | ⟨⟨_, h1⟩, h2⟩ <;> (rw [h1, h2] at hfl; cases hfl)
        · rfl
      · cases hedges
    · cases hb
  · intro u x hif hx
    have hb := hv u hif
    unfold bridgeVertexOk at hb
    rw [hx] at hb
    split at hb
    · rename_i heq
      cases heq
      simp only [Bool.and_eq_true, Bool.not_eq_true'] at hb
      exact hb.1.1.2
    · cases hb

end ESV.Decomp.Gr

namespace ESV.Decomp.Gr
open ESV.Beh ESV.Decomp

/-! back to the decidable forms the harness evaluates -/

theorem flagsUnique_of_fu (g : BGraph) (h : FU g) : flagsUnique g = true := by
  unfold flagsUnique
  rw [List.all_eq_true]
  intro p hp
  rw [List.all_eq_true]
  intro q hq
  have hp' := List.mem_zipIdx_iff_getElem?.mp hp
  have hq' := List.mem_zipIdx_iff_getElem?.mp hq
  by_cases hc : (p.1.src == q.1.src && g.isIfV p.1.src && p.1.isElse == q.1.isElse) = true
  · simp only [Bool.and_eq_true, beq_iff_eq] at hc
    have := h p.2 q.2 p.1 q.1 hp' hq' hc.1.1 hc.1.2 hc.2
    simp [this]
  · simp only [Bool.not_eq_true] at hc
    simp [hc]

theorem noNot_of_nn (g : BGraph) (h : NN g) : noNot g = true := by
  unfold noNot
  rw [List.all_eq_true]
  intro v _
  cases hv : g.isIfV v with
  | false => simp
  | true =>
    cases hx : g.vs[v]? with
    | none => simp
    | some x => simp [h v x hv hx]

end ESV.Decomp.Gr
