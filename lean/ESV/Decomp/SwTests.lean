import ESV.Decomp.SwRead
/-
The readings of a switch vertex - the next case test (`nextTest`) and the else target (`switchElse`) - are functions of the
SET of its out-edges under `Det`, and commute with a renaming of the targets (`EdgeCorr`).
-/
namespace ESV.Decomp.Sw
open ESV.Beh ESV.Decomp ESV.Decomp.Opt ESV.Decomp.Gr

theorem mem_caseTriples (g : BGraph) (v : Nat) (t : CaseT) :
    t ∈ g.caseTriples v ↔ ∃ e ∈ g.es, e.src = v ∧ t.2.2 = e.dst ∧ ∃ si, (si, t.1, t.2.1) ∈ e.switchOps := by
  unfold BGraph.caseTriples
  simp only [List.mem_flatMap, List.mem_map]
  constructor
  · rintro ⟨⟨i, e⟩, hp, ⟨si, ix, o⟩, hs, rfl⟩
    obtain ⟨h1, h2⟩ := (mem_outEs g v i e).mp hp
    exact ⟨e, List.mem_of_getElem? h1, h2, rfl, si, hs⟩
  · rintro ⟨e, he, hs, hd, si, hm⟩
    obtain ⟨i, hi⟩ := List.getElem?_of_mem he
    refine ⟨(i, e), (mem_outEs g v i e).mpr ⟨hi, hs⟩, (si, t.1, t.2.1), hm, ?_⟩
    obtain ⟨a, b, c⟩ := t
    simp only at hd ⊢
    rw [hd]

/-- what the fold has found after the elements of `pre` -/
def Best (i : Nat) (pre : List CaseT) (r : Option CaseT) : Prop :=
  (r = none ∧ ∀ t ∈ pre, t.1 < i) ∨
  ∃ t, r = some t ∧ t ∈ pre ∧ i ≤ t.1 ∧ ∀ t' ∈ pre, i ≤ t'.1 → t.1 ≤ t'.1

theorem best_step (i : Nat) (pre : List CaseT) (r : Option CaseT) (x : CaseT) (h : Best i pre r) :
    Best i (pre ++ [x]) (BGraph.pickTest i r x) := by
  unfold BGraph.pickTest
  by_cases hx : x.1 < i
  · rw [if_pos hx]
    rcases h with ⟨h1, h2⟩ | ⟨t, h1, h2, h3, h4⟩
    · left
      refine ⟨h1, ?_⟩
      intro t ht
      rcases List.mem_append.mp ht with ht | ht
      · exact h2 t ht
      · simp at ht; subst ht; exact hx
    · right
      refine ⟨t, h1, List.mem_append_left _ h2, h3, ?_⟩
      intro t' ht' hi
      rcases List.mem_append.mp ht' with ht' | ht'
      · exact h4 t' ht' hi
      · simp at ht'; subst ht'; omega
  · rw [if_neg hx]
    rcases h with ⟨h1, h2⟩ | ⟨t, h1, h2, h3, h4⟩
    · right
      subst h1
      refine ⟨x, rfl, by simp, by omega, ?_⟩
      intro t' ht' hi
      rcases List.mem_append.mp ht' with ht' | ht'
      · have := h2 t' ht'; omega
      · simp at ht'; subst ht'; exact Nat.le_refl _
    · right
      subst h1
      simp only
      by_cases hle : x.1 ≤ t.1
      · rw [if_pos hle]
        refine ⟨x, rfl, by simp, by omega, ?_⟩
        intro t' ht' hi
        rcases List.mem_append.mp ht' with ht' | ht'
        · have := h4 t' ht' hi; omega
        · simp at ht'; subst ht'; exact Nat.le_refl _
      · rw [if_neg hle]
        refine ⟨t, rfl, List.mem_append_left _ h2, h3, ?_⟩
        intro t' ht' hi
        rcases List.mem_append.mp ht' with ht' | ht'
        · exact h4 t' ht' hi
        · simp at ht'; subst ht'; omega

theorem best_fold (i : Nat) : ∀ (l pre : List CaseT) (r : Option CaseT), Best i pre r →
    Best i (pre ++ l) (l.foldl (BGraph.pickTest i) r)
  | [], pre, r, h => by simpa using h
  | x :: xs, pre, r, h => by
    have := best_fold i xs (pre ++ [x]) _ (best_step i pre r x h)
    simpa using this

/-- `nextTest`: none exactly when every test has an index below `i`, otherwise a test of minimal index ≥ `i` -/
theorem nextTest_spec (g : BGraph) (v i : Nat) : Best i (g.caseTriples v) (g.nextTest v i) := by
  have := best_fold i (g.caseTriples v) [] none (Or.inl ⟨rfl, by simp⟩)
  simpa [BGraph.nextTest] using this

variable {g g' : BGraph} {τ : Nat → Nat} {a : Nat}

def mapT (τ : Nat → Nat) (t : CaseT) : CaseT := (t.1, t.2.1, τ t.2.2)

theorem triple_up (hc : EdgeCorr g g' τ a) (t' : CaseT) (h : t' ∈ g'.caseTriples (τ a)) :
    ∃ t ∈ g.caseTriples a, t' = mapT τ t := by
  obtain ⟨e', he', hs', hd', si, hm⟩ := (mem_caseTriples g' (τ a) t').mp h
  obtain ⟨e, he, hs, rfl⟩ := hc.up e' he' hs'
  refine ⟨(t'.1, t'.2.1, e.dst), (mem_caseTriples g a _).mpr ⟨e, he, hs, rfl, si, hm⟩, ?_⟩
  obtain ⟨x, y, z⟩ := t'
  simp only [mapT, img] at hd' ⊢
  rw [hd']

theorem triple_low (hc : EdgeCorr g g' τ a) (t : CaseT) (h : t ∈ g.caseTriples a) :
    mapT τ t ∈ g'.caseTriples (τ a) := by
  obtain ⟨e, he, hs, hd, si, hm⟩ := (mem_caseTriples g a t).mp h
  have hne : g.ignoredE e = false := by
    unfold BGraph.ignoredE
    have : e.switchOps.isEmpty = false := by
      cases hl : e.switchOps with
      | nil => rw [hl] at hm; cases hm
      | cons _ _ => rfl
    simp [this]
  refine (mem_caseTriples g' (τ a) _).mpr ⟨img τ e, hc.low e he hs hne, by simp [img, hs], by simp [mapT, img, hd], si, hm⟩

theorem nextTest_congr (hdet : Det g) (hsw : g.isSwitchV a = true) (hc : EdgeCorr g g' τ a) (i : Nat) :
    g'.nextTest (τ a) i = (g.nextTest a i).map (mapT τ) := by
  rcases nextTest_spec g' (τ a) i with ⟨h1, h2⟩ | ⟨t', h1, h2, h3, h4⟩
  · rcases nextTest_spec g a i with ⟨h5, _⟩ | ⟨t, _, h6, h7, _⟩
    · rw [h1, h5]; rfl
    · have := h2 _ (triple_low hc t h6)
      simp only [mapT] at this; omega
  · obtain ⟨t0, ht0, rfl⟩ := triple_up hc t' h2
    rcases nextTest_spec g a i with ⟨_, h6⟩ | ⟨t, h5, h6, h7, h8⟩
    · have := h6 t0 ht0; simp only [mapT] at h3; omega
    · rw [h1, h5]
      simp only [Option.map_some, Option.some.injEq]
      have l1 : t.1 ≤ t0.1 := h8 t0 ht0 (by simpa [mapT] using h3)
      have l2 : t0.1 ≤ t.1 := by
        have := h4 _ (triple_low hc t h6) (by simpa [mapT] using h7)
        simpa [mapT] using this
      obtain ⟨e, he, hs, hd, si, hm⟩ := (mem_caseTriples g a t).mp h6
      obtain ⟨e0, he0, hs0, hd0, si0, hm0⟩ := (mem_caseTriples g a t0).mp ht0
      obtain ⟨ho, hdd⟩ := hdet.idx e he e0 he0 (by rw [hs, hs0]) (by rw [hs]; exact hsw) _ hm _ hm0 (by simp; omega)
      obtain ⟨x, y, z⟩ := t
      obtain ⟨x0, y0, z0⟩ := t0
      simp only at l1 l2 hd hd0 ho
      have hx : x0 = x := by omega
      show (x0, y0, τ z0) = (x, y, τ z)
      rw [hx, hd, hd0, ho, hdd]

theorem switchElse_congr (hdet : Det g) (hsw : g.isSwitchV a = true) (hc : EdgeCorr g g' τ a)
    (hfell : τ g.vs.length = g'.vs.length) : g'.switchElse (τ a) = τ (g.switchElse a) := by
  unfold BGraph.switchElse
  cases h' : g'.firstElse (τ a) with
  | none =>
    cases h : g.firstElse a with
    | none => simp only; rw [toGraph_fellOff, toGraph_fellOff, hfell]
    | some p =>
      obtain ⟨i, e⟩ := p
      obtain ⟨h1, h2, h3⟩ := firstElse_some g a i e h
      have hne : g.ignoredE e = false := by unfold BGraph.ignoredE; simp [h3]
      have hm := hc.low e (List.mem_of_getElem? h1) h2 hne
      obtain ⟨k, hk⟩ := List.getElem?_of_mem hm
      have := firstElse_none g' (τ a) h' k _ hk (by simp [img, h2])
      simp [img, h3] at this
  | some p' =>
    obtain ⟨i', e'⟩ := p'
    obtain ⟨h1, h2, h3⟩ := firstElse_some g' (τ a) i' e' h'
    obtain ⟨e0, he0, hs0, rfl⟩ := hc.up e' (List.mem_of_getElem? h1) h2
    cases h : g.firstElse a with
    | none =>
      obtain ⟨k, hk⟩ := List.getElem?_of_mem he0
      have := firstElse_none g a h k e0 hk hs0
      simp [img, this] at h3
    | some p =>
      obtain ⟨i, e⟩ := p
      obtain ⟨h4, h5, h6⟩ := firstElse_some g a i e h
      have hd : e.dst = e0.dst := hdet.els e (List.mem_of_getElem? h4) e0 he0 (by rw [h5, hs0]) (by rw [h5]; exact hsw) h6
        (by simpa [img] using h3)
      simp [img, hd]

theorem switchNext_congr (hdet : Det g) (hsw : g.isSwitchV a = true) (hc : EdgeCorr g g' τ a)
    (hfell : τ g.vs.length = g'.vs.length) (i : Nat) :
    g'.switchNext (τ a) i = ((fun p : Nat × Nat => (τ p.1, p.2)) (g.switchNext a i)) := by
  unfold BGraph.switchNext
  rw [nextTest_congr hdet hsw hc i]
  cases g.nextTest a i with
  | none => simp [switchElse_congr hdet hsw hc hfell]
  | some t => simp

end ESV.Decomp.Sw
