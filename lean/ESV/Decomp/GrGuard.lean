import ESV.Decomp.SemB
/-
Decidable hypotheses of the theorems about `group_branches` / `invert_branches` and about the bridge between the
level-based and the flag-based reading of an if (lean/ESV/Props/DecompGroup.lean).  Core Lean only: the driver
evaluates them on the REAL graphs on every run (`decomp.validate_group`), so that it is measured how often the
theorems apply.
-/
namespace ESV.Decomp
open ESV.Beh

/-- an if vertex has at most one out-edge with `is_else` and at most one without (real graphs: exactly one of
each): "the first else-edge in igraph's order" is then THE else-edge, whatever the edge ids -/
def flagsUnique (g : BGraph) : Bool :=
  g.es.zipIdx.all fun p => g.es.zipIdx.all fun q =>
    !(p.1.src == q.1.src && g.isIfV p.1.src && p.1.isElse == q.1.isElse) || p.2 == q.2

/-- no if is inverted yet (`invert_branches` runs after `group_branches`, once) -/
def noNot (g : BGraph) : Bool :=
  (List.range g.vs.length).all fun v => !g.isIfV v ||
    match g.vs[v]? with
    | some x => !x.isNot
    | none => true

/-- structure of the graph entering `group_branches` -/
def groupStructOk (g : BGraph) : Bool := flagsUnique g && noNot g

/-- the vertices `group_branches` merges away can be deleted: none of them is vertex 0 (where the routine starts),
and when the loop ends no edge leads from a vertex that stays to one that goes -/
def groupDelOk (g : BGraph) : Bool :=
  match groupBranchesRaw g with
  | .ok (g1, del) => !del.contains 0 && g1.es.all fun e => del.contains e.src || !del.contains e.dst
  | .error _ => true

/-- structure of the graph entering `invert_branches` -/
def invertStructOk (g : BGraph) : Bool := flagsUnique g && noNot g

/-- **bridge** between the two readings of an if, on the graph that leaves `build_branches`: every marked vertex is a
plain, not inverted if whose root is not Jump and has exactly two out-edges, of different flow levels, the lower one
flagged else and the higher one not -/
def bridgeVertexOk (g : BGraph) (v : Nat) : Bool :=
  match g.vs[v]? with
  | some ⟨_, .item (.ljump r _ _), _, _, ifOps, isNot, _, _, _, _, _, _, _, _, _⟩ =>
    ifOps.isEmpty && !isNot && !isJump r.name &&
    match g.outEs v with
    | [(_, a), (_, b)] =>
      (decide (a.level < b.level) && a.isElse && !b.isElse) || (decide (b.level < a.level) && b.isElse && !a.isElse)
    | _ => false
  | _ => false

def bridgeOk (g : BGraph) : Bool := (List.range g.vs.length).all fun v => !g.isIfV v || bridgeVertexOk g v

end ESV.Decomp
