import ESV.Decomp.WrJnBlock
import ESV.Decomp.WriterWitness
import ESV.Decomp.GraphCounter
/-
Witnesses for the writer theorems (lean/ESV/Props/DecompWriter.lean): a non-trivial graph of the label-free fragment, and for the
clauses of the hypothesis graphs on which the writers answer with a statement list that does NOT behave like the graph.
-/
namespace ESV.Decomp.Wr
open ESV.Beh ESV.Decomp

deriving instance DecidableEq for ESV.Src.Stmt, ESV.Src.Stmts, ESV.Src.Branches, ESV.Src.Cases

instance (ss : Src.Stmts) : DecidableEq (astLts ss).σ := inferInstanceAs (DecidableEq Nat)
instance (g : BGraph) : DecidableEq g.ltsL.σ := inferInstanceAs (DecidableEq Nat)

theorem astLts_step (ss : Src.Stmts) (i : Nat) (n : Src.Node) (h : (routineProgram ss).graph.nodes.toList[i]? = some n) :
    (astLts ss).step i = n := by
  simp only [astLts, Src.Graph.lts, Src.Graph.step]
  rw [Array.getElem?_toList] at h
  simp [h]

theorem run_of_halt {L : LTS Ev} {a : L.σ} {e : Ev} (h : L.step a = .halt e) (ω : Nat → Bool) (n k : Nat) :
    run L ω (n + 1) k a = ([.stop e], none) := by simp [run, h]

theorem run_of_test {L : LTS Ev} {a y no : L.σ} {e : Ev} (h : L.step a = .test e y no) (ω : Nat → Bool) (n k : Nat) :
    run L ω (n + 1) k a = (.tst e (ω k) :: (run L ω n (k + 1) (if ω k then y else no)).1,
      (run L ω n (k + 1) (if ω k then y else no)).2) := by simp [run, h]

theorem wr_cex (g : BGraph) (ss : Src.Stmts) (ω : Nat → Bool) (t₁ t₂ : List (Obs Ev))
    (h₁ : run (astLts ss) ω 12 0 (astEntry ss) = (t₁, none)) (h₂ : run g.ltsL ω 12 0 (0 : Nat) = (t₂, none)) (hne : t₁ ≠ t₂) :
    ¬ Equivalent (astLts ss) g.ltsL (astEntry ss) (0 : Nat) :=
  fun h => not_sim_of_traces (astLts ss) g.ltsL (astEntry ss) (0 : Nat) ω 12 12 t₁ t₂ h₁ h₂ hne h.1

theorem cexParams_run : run (astLts cexParamsAst) (fun _ => true) 12 0 (astEntry cexParamsAst) = ([.stop ⟨"Return", []⟩], none) := by
  obtain ⟨labs, e, he, hS, _⟩ := graph_spec cexParamsAst (by decide) (by decide)
  rw [he]
  cases hS with
  | cons h1 _ =>
    cases h1 with
    | ret hN => exact run_of_halt (astLts_step _ _ _ hN) _ _ _

theorem cexLowering_run : run (astLts cexLoweringAst) (fun _ => true) 12 0 (astEntry cexLoweringAst) =
    ([.tst ⟨"Branch", [.const "$X", .int 1]⟩ true, .stop ⟨"End", []⟩], none) := by
  obtain ⟨labs, e, he, hS, _⟩ := graph_spec cexLoweringAst (by decide) (by decide)
  rw [he]
  cases hS with
  | cons h1 _ =>
    cases h1 with
    | iteElse _ hB =>
      cases hB with
      | consPos _ hBody hT =>
        cases hT with
        | cons hN _ =>
          cases hBody with
          | cons hE _ =>
            cases hE with
            | end_ hNe =>
              have h2 := run_of_halt (astLts_step _ _ _ hNe) (fun _ => true) 10 (0 + 1)
              rw [run_of_test (astLts_step _ _ _ hN) (fun _ => true) 11 0]
              simp only [↓reduceIte]
              rw [h2]; rfl

theorem cexCtxShared_run : run (astLts cexCtxSharedAst) (fun _ => true) 12 0 (astEntry cexCtxSharedAst) =
    ([.tst ⟨"Branch", [.const "$X", .int 1]⟩ true, .stop ⟨"Destroy", []⟩], none) := by
  obtain ⟨labs, e, he, hS, _⟩ := graph_spec cexCtxSharedAst (by decide) (by decide)
  rw [he]
  cases hS with
  | cons h1 _ =>
    cases h1 with
    | iteElse _ hB =>
      cases hB with
      | consPos _ hBody hT =>
        cases hT with
        | cons hN _ =>
          cases hBody with
          | cons hE _ =>
            cases hE with
            | opHalt _ hNe =>
              have h2 := run_of_halt (astLts_step _ _ _ hNe) (fun _ => true) 10 (0 + 1)
              rw [run_of_test (astLts_step _ _ _ hN) (fun _ => true) 11 0]
              simp only [↓reduceIte]
              rw [h2]
            | opEmit hf _ => exact absurd hf (by decide)

theorem cexElseIf_run : run (astLts cexElseIfAst) (fun _ => false) 12 0 (astEntry cexElseIfAst) =
    ([.tst ⟨"Branch", [.const "$X", .int 1]⟩ false, .tst ⟨"Branch", [.const "$Y", .int 2]⟩ false, .stop evReturn], none) := by
  obtain ⟨labs, e, he, hS, h0⟩ := graph_spec cexElseIfAst (by decide) (by decide)
  rw [he]
  cases hS with
  | cons h1 hrest =>
    cases hrest
    cases h1 with
    | iteNoElse hB =>
      cases hB with
      | consPos hR _ hT =>
        cases hT with
        | cons hN hT' =>
          cases hT'
          cases hR with
          | consPos hR2 _ hT2 =>
            cases hT2 with
            | cons hN2 hT2' =>
              cases hT2'
              cases hR2
              have h2 := run_of_halt (astLts_step _ _ _ h0) (fun _ => false) 9 (0 + 1 + 1)
              have h1' := run_of_test (astLts_step _ _ _ hN2) (fun _ => false) 10 (0 + 1)
              rw [run_of_test (astLts_step _ _ _ hN) (fun _ => false) 11 0]
              simp only [Bool.false_eq_true, ↓reduceIte]
              rw [h1']
              simp only [Bool.false_eq_true, ↓reduceIte]
              rw [h2]

end ESV.Decomp.Wr
