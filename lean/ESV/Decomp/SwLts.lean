import ESV.Decomp.SwGuard
import ESV.Decomp.GrEnc
/-
LTS-level lemmas for the switch phases:
* `equiv_of_skipMap`: a renaming `ρ` of states that commutes with `step` on a set of states closed under steps, except
  that some states only take a silent step to a state with the same image (the by-passed Jumps), gives behavioural
  equality;
* `stepPS` (pairs) and `stepS` (encoded states) are the same system; `stepS` is literally `stepB` on graphs without switch
  markers.
-/
namespace ESV.Decomp.Sw
open ESV.Beh ESV.Decomp ESV.Decomp.Bisim ESV.Decomp.Opt ESV.Decomp.Gr

variable {ε : Type}

/-- state `a` is matched step by step by its image -/
def Strong (L₁ L₂ : LTS ε) (ρ : L₁.σ → L₂.σ) (P : L₁.σ → Prop) (a : L₁.σ) : Prop :=
  L₂.step (ρ a) = mapStep ρ (L₁.step a) ∧ allSucc P (L₁.step a)

theorem equiv_of_skipMap (L₁ L₂ : LTS ε) (ρ : L₁.σ → L₂.σ) (P : L₁.σ → Prop)
    (h : ∀ a, P a → Strong L₁ L₂ ρ P a ∨
      ∃ a', L₁.step a = .silent a' ∧ ρ a' = ρ a ∧ P a' ∧ Strong L₁ L₂ ρ P a') :
    ∀ a, P a → Equivalent L₁ L₂ a (ρ a) := by
  intro a ha
  refine equivalent_of_stepMatch L₁ L₂ (fun a b => P a ∧ b = ρ a) (fun b a => P a ∧ b = ρ a) ?_ ?_ a (ρ a)
    ⟨ha, rfl⟩ ⟨ha, rfl⟩
  · rintro a b ⟨hp, rfl⟩
    rcases h a hp with ⟨h1, h2⟩ | ⟨a', hs, hρ, hp', _⟩
    · cases hs : L₁.step a with
      | silent s =>
        rw [hs] at h1 h2
        exact stepMatch_silent hs ⟨1, ρ s, ⟨ρ s, h1, rfl⟩, h2, rfl⟩
      | emit e s =>
        rw [hs] at h1 h2
        exact stepMatch_emit hs ⟨1, ρ s, settle_emit 0 h1, h2, rfl⟩
      | test e y n =>
        rw [hs] at h1 h2
        exact stepMatch_test hs ⟨1, ρ y, ρ n, settle_test 0 h1, ⟨h2.1, rfl⟩, ⟨h2.2, rfl⟩⟩
      | halt e =>
        rw [hs] at h1
        exact stepMatch_halt hs ⟨1, settle_halt 0 h1⟩
    · exact stepMatch_silent hs ⟨0, ρ a, rfl, hp', hρ.symm⟩
  · rintro b a ⟨hp, rfl⟩
    rcases h a hp with ⟨h1, h2⟩ | ⟨a', hsa, hρ, _, h1, h2⟩
    · cases hs : L₁.step a with
      | silent s =>
        rw [hs] at h1 h2
        exact stepMatch_silent h1 ⟨1, s, ⟨s, hs, rfl⟩, h2, rfl⟩
      | emit e s =>
        rw [hs] at h1 h2
        exact stepMatch_emit h1 ⟨1, s, settle_emit 0 hs, h2, rfl⟩
      | test e y n =>
        rw [hs] at h1 h2
        exact stepMatch_test h1 ⟨1, y, n, settle_test 0 hs, ⟨h2.1, rfl⟩, ⟨h2.2, rfl⟩⟩
      | halt e =>
        rw [hs] at h1
        exact stepMatch_halt h1 ⟨1, settle_halt 0 hs⟩
    · rw [← hρ]
      cases hs : L₁.step a' with
      | silent s =>
        rw [hs] at h1 h2
        exact stepMatch_silent h1 ⟨2, s, ⟨a', hsa, s, hs, rfl⟩, h2, rfl⟩
      | emit e s =>
        rw [hs] at h1 h2
        refine stepMatch_emit h1 ⟨2, s, ?_, h2, rfl⟩
        rw [settle_silent 1 hsa]; exact settle_emit 0 hs
      | test e y n =>
        rw [hs] at h1 h2
        refine stepMatch_test h1 ⟨2, y, n, ?_, ⟨h2.1, rfl⟩, ⟨h2.2, rfl⟩⟩
        rw [settle_silent 1 hsa]; exact settle_test 0 hs
      | halt e =>
        rw [hs] at h1
        refine stepMatch_halt h1 ⟨2, ?_⟩
        rw [settle_silent 1 hsa]; exact settle_halt 0 hs

/-! ## pairs and encoded states -/

theorem isSwitchV_lt (g : BGraph) (v : Nat) (h : g.isSwitchV v = true) : v < g.vs.length := by
  unfold BGraph.isSwitchV at h
  split at h
  · rename_i x hx
    exact (List.getElem?_eq_some_iff.mp hx).1
  · cases h

theorem isSwitchV_ge (g : BGraph) (v : Nat) (h : g.vs.length ≤ v) : g.isSwitchV v = false := by
  cases hv : g.isSwitchV v with
  | false => rfl
  | true => have := isSwitchV_lt g v hv; omega

theorem stepPS_of_not_switch (g : BGraph) (s : Nat × Nat) (h : g.isSwitchV s.1 = false) : g.stepPS s = g.stepP s := by
  unfold BGraph.stepPS; simp [h]

/-- beyond `n + 1` every vertex number is "stuck" -/
theorem stepPS_clip (g : BGraph) (v j : Nat) : g.stepPS (min v (g.vs.length + 1), j) = g.stepPS (v, j) := by
  by_cases h : v ≤ g.vs.length + 1
  · rw [Nat.min_eq_left h]
  · have hm : min v (g.vs.length + 1) = g.vs.length + 1 := Nat.min_eq_right (by omega)
    rw [stepPS_of_not_switch g _ (by rw [hm]; exact isSwitchV_ge g _ (by omega)),
      stepPS_of_not_switch g _ (isSwitchV_ge g _ (by show g.vs.length ≤ v; omega))]
    exact stepP_clip g v j

theorem stepS_enc (g : BGraph) (p : Nat × Nat) : g.stepS (g.enc p) = mapStep g.enc (g.stepPS p) := by
  unfold BGraph.stepS
  rw [dec_enc, stepPS_clip]

/-- pairs and encoded states: the same behaviour -/
theorem ltsPS_equiv_ltsS (g : BGraph) (p : Nat × Nat) : Equivalent g.ltsPS g.ltsS p (g.enc p) := by
  apply equiv_of_stepMap g.ltsPS g.ltsS g.enc (fun _ => True) ?_ p trivial
  intro a _
  refine ⟨stepS_enc g a, ?_⟩
  show allSucc (fun _ => True) (g.stepPS a)
  cases g.stepPS a <;> simp [allSucc]

/-- a pair-level equivalence between vertices is an equivalence of the encoded systems -/
theorem ltsS_of_ltsPS (g g' : BGraph) (v v' : Nat) (hv : v ≤ g.vs.length + 1) (hv' : v' ≤ g'.vs.length + 1)
    (h : Equivalent g.ltsPS g'.ltsPS (v, 0) (v', 0)) : Equivalent g.ltsS g'.ltsS v v' := by
  have h1 := ltsPS_equiv_ltsS g (v, 0)
  have h2 := ltsPS_equiv_ltsS g' (v', 0)
  rw [enc_vertex g v hv] at h1
  rw [enc_vertex g' v' hv'] at h2
  exact Equivalent.trans (Equivalent.trans h1.symm h) h2

/-! ## the bridge: without switch markers `stepS` is `stepB` -/

theorem noSwitch_of_marks (g : BGraph) (h : noSwitchMarks g = true) (v : Nat) : g.isSwitchV v = false := by
  unfold noSwitchMarks at h
  simp only [Bool.and_eq_true, List.all_eq_true] at h
  unfold BGraph.isSwitchV
  cases hx : g.vs[v]? with
  | none => rfl
  | some x =>
    have hm := h.1 x (List.mem_of_getElem? hx)
    simp only
    unfold BGraph.isSwitchVertex
    split
    · rename_i hs; rw [hs] at hm; cases hm
    · rfl

theorem stepS_eq_stepB (g : BGraph) (h : ∀ v, g.isSwitchV v = false) : g.stepS = g.stepB := by
  funext s
  unfold BGraph.stepS BGraph.stepB
  rw [stepPS_of_not_switch g _ (h _)]

end ESV.Decomp.Sw
