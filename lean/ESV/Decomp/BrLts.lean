import ESV.Decomp.OptLts
/-
LTS-level lemma for `build_branches`: by-passing a silent state `J` whose successor is `e` (every successor `J`
becomes `e`) gives behavioural equality on all states but `J`.  No hypothesis about silent cycles is needed: `e` stays.
-/
namespace ESV.Decomp.Br
open ESV.Beh ESV.Decomp.Bisim ESV.Decomp.Opt

variable {ε : Type}

/-- what by-passing the silent state `J → e` is, at the level of the two step functions -/
structure Bypass (s₁ s₂ : Nat → Step Nat ε) (J e : Nat) : Prop where
  map : ∀ b, b ≠ J → s₂ b = mapStep (tgt J e) (s₁ b)
  stepJ : s₁ J = .silent e
  ne : e ≠ J

theorem equiv_of_bypass (s₁ s₂ : Nat → Step Nat ε) (J e : Nat) (c : Bypass s₁ s₂ J e) :
    ∀ a : Nat, a ≠ J → Equivalent (⟨Nat, s₁⟩ : LTS ε) ⟨Nat, s₂⟩ a a := by
  intro a haJ
  have rel : ∀ s : Nat, (s ≠ J ∧ tgt J e s = s) ∨ (s = J ∧ tgt J e s = e) := by
    intro s
    by_cases h : s = J
    · subst h; exact Or.inr ⟨rfl, tgt_self _ _⟩
    · exact Or.inl ⟨h, tgt_ne _ _ _ h⟩
  have rel' : ∀ s : Nat, tgt J e s ≠ J ∧ (s = tgt J e s ∨ (s = J ∧ tgt J e s = e)) := by
    intro s
    by_cases h : s = J
    · subst h; rw [tgt_self]; exact ⟨c.ne, Or.inr ⟨rfl, rfl⟩⟩
    · rw [tgt_ne _ _ _ h]; exact ⟨h, Or.inl rfl⟩
  refine equivalent_of_stepMatch (⟨Nat, s₁⟩ : LTS ε) ⟨Nat, s₂⟩
    (fun a b => (a ≠ J ∧ b = a) ∨ (a = J ∧ b = e))
    (fun b a => b ≠ J ∧ (a = b ∨ (a = J ∧ b = e))) ?_ ?_ a a (Or.inl ⟨haJ, rfl⟩) ⟨haJ, Or.inl rfl⟩
  · rintro a b (⟨h1, rfl⟩ | ⟨ha, hb⟩)
    · have hm := c.map b h1
      cases hs : s₁ b with
      | silent s =>
        rw [hs] at hm
        exact stepMatch_silent (L₁ := (⟨Nat, s₁⟩ : LTS ε)) hs ⟨1, tgt J e s, ⟨_, hm, rfl⟩, rel s⟩
      | emit ev s =>
        rw [hs] at hm
        exact stepMatch_emit (L₁ := (⟨Nat, s₁⟩ : LTS ε)) hs
          ⟨1, tgt J e s, settle_emit (L := (⟨Nat, s₂⟩ : LTS ε)) 0 hm, rel s⟩
      | test ev y n =>
        rw [hs] at hm
        exact stepMatch_test (L₁ := (⟨Nat, s₁⟩ : LTS ε)) hs
          ⟨1, tgt J e y, tgt J e n, settle_test (L := (⟨Nat, s₂⟩ : LTS ε)) 0 hm, rel y, rel n⟩
      | halt ev =>
        rw [hs] at hm
        exact stepMatch_halt (L₁ := (⟨Nat, s₁⟩ : LTS ε)) hs ⟨1, settle_halt (L := (⟨Nat, s₂⟩ : LTS ε)) 0 hm⟩
    · rw [ha, hb]
      exact stepMatch_silent (L₁ := (⟨Nat, s₁⟩ : LTS ε)) c.stepJ ⟨0, e, rfl, Or.inl ⟨c.ne, rfl⟩⟩
  · rintro b a ⟨h1, (rfl | ⟨ha, hb⟩)⟩
    · have hm := c.map a h1
      cases hs : s₁ a with
      | silent s =>
        rw [hs] at hm
        exact stepMatch_silent (L₁ := (⟨Nat, s₂⟩ : LTS ε)) hm ⟨1, s, ⟨s, hs, rfl⟩, rel' s⟩
      | emit ev s =>
        rw [hs] at hm
        exact stepMatch_emit (L₁ := (⟨Nat, s₂⟩ : LTS ε)) hm
          ⟨1, s, settle_emit (L := (⟨Nat, s₁⟩ : LTS ε)) 0 hs, rel' s⟩
      | test ev y n =>
        rw [hs] at hm
        exact stepMatch_test (L₁ := (⟨Nat, s₂⟩ : LTS ε)) hm
          ⟨1, y, n, settle_test (L := (⟨Nat, s₁⟩ : LTS ε)) 0 hs, rel' y, rel' n⟩
      | halt ev =>
        rw [hs] at hm
        exact stepMatch_halt (L₁ := (⟨Nat, s₂⟩ : LTS ε)) hm ⟨1, settle_halt (L := (⟨Nat, s₁⟩ : LTS ε)) 0 hs⟩
    · rw [ha, hb]
      have hm := c.map e c.ne
      cases hs : s₁ e with
      | silent s =>
        rw [hs] at hm
        exact stepMatch_silent (L₁ := (⟨Nat, s₂⟩ : LTS ε)) hm ⟨2, s, ⟨_, c.stepJ, _, hs, rfl⟩, rel' s⟩
      | emit ev s =>
        rw [hs] at hm
        refine stepMatch_emit (L₁ := (⟨Nat, s₂⟩ : LTS ε)) hm ⟨2, s, ?_, rel' s⟩
        rw [settle_silent (L := (⟨Nat, s₁⟩ : LTS ε)) 1 c.stepJ]
        exact settle_emit (L := (⟨Nat, s₁⟩ : LTS ε)) 0 hs
      | test ev y n =>
        rw [hs] at hm
        refine stepMatch_test (L₁ := (⟨Nat, s₂⟩ : LTS ε)) hm ⟨2, y, n, ?_, rel' y, rel' n⟩
        rw [settle_silent (L := (⟨Nat, s₁⟩ : LTS ε)) 1 c.stepJ]
        exact settle_test (L := (⟨Nat, s₁⟩ : LTS ε)) 0 hs
      | halt ev =>
        rw [hs] at hm
        refine stepMatch_halt (L₁ := (⟨Nat, s₂⟩ : LTS ε)) hm ⟨2, ?_⟩
        rw [settle_silent (L := (⟨Nat, s₁⟩ : LTS ε)) 1 c.stepJ]
        exact settle_halt (L := (⟨Nat, s₁⟩ : LTS ε)) 0 hs

end ESV.Decomp.Br
