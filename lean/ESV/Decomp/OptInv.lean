import ESV.Decomp.OptStep
import ESV.Decomp.OptDelete
/-
(b) the invariant of the `optimize_paths` loop: structure facts kept by every rule application, and what the final
`delete_vertices` needs (no edge from a kept vertex into a recorded one, vertex 0 never recorded).
-/
namespace ESV.Decomp.Opt
open ESV.Beh ESV.Decomp

structure Inv (g : Graph) (del todo : List Nat) : Prop where
  ld : LD g
  ls : LS g
  /-- an edge from a label vertex to something that is not a label leads to the next vertex -/
  ln : ∀ e ∈ g.es, isLabelVertex g e.src = true → isLabelVertex g e.dst = false → e.dst = e.src + 1
  settles : Settles g.ltsE
  closed : ∀ e ∈ g.es, e.src ∉ del → e.dst ∉ del
  zero : 0 ∉ del
  nonop : ∀ d ∈ del, nonOpV g d = true
  fresh : ∀ x ∈ todo, isJumpVertex g x = true → x ∉ del
  nodup : todo.Nodup

theorem Inv.tail {g : Graph} {del : List Nat} {v : Nat} {rest : List Nat} (h : Inv g del (v :: rest)) :
    Inv g del rest :=
  { h with
    fresh := fun x hx => h.fresh x (by simp [hx])
    nodup := (List.nodup_cons.mp h.nodup).2 }

theorem Inv.delOk {g : Graph} {del todo : List Nat} (h : Inv g del todo) : DelOk g del :=
  ⟨h.ld, h.closed, h.nonop⟩

theorem isLabelVertex_step (g : Graph) (L ov a : Nat) :
    isLabelVertex (stepGraph g L ov) a = isLabelVertex g a := by
  unfold isLabelVertex; rw [stepGraph_vs]

theorem isJumpVertex_step (g : Graph) (L ov a : Nat) :
    isJumpVertex (stepGraph g L ov) a = isJumpVertex g a := by
  unfold isJumpVertex; rw [stepGraph_vs]

theorem nonOpV_step (g : Graph) (L ov a : Nat) : nonOpV (stepGraph g L ov) a = nonOpV g a := by
  unfold nonOpV; rw [stepGraph_vs]

theorem nonOpV_of_label (g : Graph) (a : Nat) (h : isLabelVertex g a = true) : nonOpV g a = true := by
  unfold isLabelVertex at h; unfold nonOpV
  split at h <;> simp_all

theorem nonOpV_of_jump (g : Graph) (a : Nat) (h : isJumpVertex g a = true) : nonOpV g a = true := by
  unfold isJumpVertex at h; unfold nonOpV
  split at h <;> simp_all

/-- the invariant survives a rule application; the behaviour from vertex 0 is the same -/
theorem Inv.step {g : Graph} {del rest : List Nat} {L v ov : Nat} (h : Inv g del (v :: rest))
    (c : RuleCtx g L v ov) (hL0 : L ≠ 0) :
    Inv (stepGraph g L ov) (del ++ [v, L]) rest ∧ Equivalent g.ltsE (stepGraph g L ov).ltsE (0 : Nat) (0 : Nat) := by
  have hovL := c.ov_ne_L h.ls h.settles
  have hovV := c.ov_ne_v
  -- `v` directly follows `L`
  have hvL : v = L + 1 := by
    obtain ⟨e, he, hs, hd⟩ := c.edgeLv
    have := h.ln e he (by rw [hs]; exact c.hL) (by
      rw [hd]
      cases hx : isLabelVertex g v with
      | false => rfl
      | true => have := label_not_jump g v hx; rw [c.hv] at this; exact absurd this (by simp))
    rw [hd, hs] at this; exact this
  have hvdel : v ∉ del := h.fresh v (by simp) c.hv
  have hovdel : ov ∉ del := by
    obtain ⟨e, he, hs, hd, _⟩ := c.outV
    have := h.closed e he (by rw [hs]; exact hvdel)
    rw [hd] at this; exact this
  refine ⟨?_, c.equiv h.ld h.ls h.settles 0 (fun x => hL0 x.symm) (by omega)⟩
  constructor
  · -- ld
    intro e1 h1 e2 h2 hs hl
    obtain ⟨x1, hx1, rfl⟩ := (mem_stepGraph_es g L ov e1).mp h1
    obtain ⟨x2, hx2, rfl⟩ := (mem_stepGraph_es g L ov e2).mp h2
    simp only at hs hl ⊢
    rw [h.ld x1 hx1 x2 hx2 hs hl]
  · -- ls
    intro e1 h1 e2 h2 hlab hs
    obtain ⟨x1, hx1, rfl⟩ := (mem_stepGraph_es g L ov e1).mp h1
    obtain ⟨x2, hx2, rfl⟩ := (mem_stepGraph_es g L ov e2).mp h2
    rw [isLabelVertex_step] at hlab
    simp only at hs hlab ⊢
    rw [h.ls x1 hx1 x2 hx2 hlab hs]
  · -- ln
    intro e1 h1 hlab hnl
    obtain ⟨x1, hx1, rfl⟩ := (mem_stepGraph_es g L ov e1).mp h1
    rw [isLabelVertex_step] at hlab hnl
    simp only at hlab hnl ⊢
    by_cases hd : x1.dst = L
    · rw [hd, tgt_self, c.hov] at hnl; exact absurd hnl (by simp)
    · rw [tgt_ne _ _ _ hd] at hnl ⊢
      exact h.ln x1 hx1 hlab hnl
  · exact c.settles h.ld h.ls h.settles
  · -- closed
    intro e1 h1 hsrc
    obtain ⟨x1, hx1, rfl⟩ := (mem_stepGraph_es g L ov e1).mp h1
    simp only [List.mem_append, List.mem_cons, List.not_mem_nil, or_false, not_or] at hsrc ⊢
    obtain ⟨hs1, hs2, hs3⟩ := hsrc
    have hd := h.closed x1 hx1 hs1
    by_cases hdL : x1.dst = L
    · rw [hdL, tgt_self]; exact ⟨hovdel, hovV, hovL⟩
    · rw [tgt_ne _ _ _ hdL]
      refine ⟨hd, ?_, hdL⟩
      intro hdv
      exact hs3 (c.inV x1 hx1 hdv)
  · -- zero
    simp only [List.mem_append, List.mem_cons, List.not_mem_nil, or_false, not_or]
    exact ⟨h.zero, by omega, fun x => hL0 x.symm⟩
  · -- nonop
    intro d hd
    rw [nonOpV_step]
    simp only [List.mem_append, List.mem_cons, List.not_mem_nil, or_false] at hd
    rcases hd with hd | rfl | rfl
    · exact h.nonop d hd
    · exact nonOpV_of_jump g _ c.hv
    · exact nonOpV_of_label g _ c.hL
  · -- fresh
    intro x hx hj
    rw [isJumpVertex_step] at hj
    simp only [List.mem_append, List.mem_cons, List.not_mem_nil, or_false, not_or]
    refine ⟨h.fresh x (by simp [hx]) hj, ?_, ?_⟩
    · intro hxv; subst hxv
      exact (List.nodup_cons.mp h.nodup).1 hx
    · intro hxL; subst hxL
      have := label_not_jump g _ c.hL
      rw [hj] at this; exact absurd this (by simp)
  · exact (List.nodup_cons.mp h.nodup).2

/-- every graph with the structure of a base graph and without a silent cycle satisfies the invariant -/
theorem Inv.init (g : Graph) (hok : graphOk g = true) (hns : noSilentCycle g = true) :
    Inv g [] (List.range g.vs.length) := by
  unfold graphOk at hok
  simp only [Bool.and_eq_true] at hok
  obtain ⟨⟨⟨_, hnext⟩, hlev⟩, _⟩ := hok
  unfold labelNext at hnext
  unfold levelsDetermine at hlev
  rw [List.all_eq_true] at hnext hlev
  have hn : ∀ e ∈ g.es, isLabelVertex g e.src = true → e.dst = e.src + 1 := by
    intro e he hl
    have := hnext e he
    simp [hl] at this
    exact this
  constructor
  · intro e he e' he' hs hl
    have := hlev e he
    rw [List.all_eq_true] at this
    have := this e' he'
    simp [hs, hl] at this
    exact this
  · intro e he e' he' hlab hs
    rw [hn e he hlab, hn e' he' (by rw [← hs]; exact hlab), hs]
  · intro e he hlab _
    exact hn e he hlab
  · intro (a : Nat)
    unfold noSilentCycle at hns
    rw [List.all_eq_true] at hns
    by_cases ha : a < g.vs.length
    · exact ⟨_, hns a (List.mem_range.mpr ha)⟩
    · refine ⟨1, ?_⟩
      have hv : g.vs[a]? = none := List.getElem?_eq_none (by omega)
      have : ∃ e, g.ltsE.step a = .halt e := by
        show ∃ e, g.stepE a = .halt e
        unfold Graph.stepE; rw [hv]; simp only
        split
        · exact ⟨_, rfl⟩
        · exact ⟨_, rfl⟩
      obtain ⟨e, he⟩ := this
      rw [Bisim.settle_halt 0 he]; rfl
  · intro e _ _; simp
  · simp
  · intro d hd; simp at hd
  · intro x _ _; simp
  · exact List.nodup_range

end ESV.Decomp.Opt
