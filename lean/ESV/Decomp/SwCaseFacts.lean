import ESV.Decomp.SwCasePart
/-
Everything that is known when the first part of `build_and_group_switch_cases` has finished for one switch op (`CaseCtx`),
and what follows for the graph afterwards: the attributes of its vertices, which edges leave the switch, its case tests, its
else target.
-/
namespace ESV.Decomp.Sw
open ESV.Beh ESV.Decomp ESV.Decomp.Opt ESV.Decomp.Gr

structure CaseCtx (g : BGraph) (v n : Nat) (del : List Nat) (cases : List String) (o : MOp) (e0 : BEdge) (g2 : BGraph)
    (ch : List CElem) (next : Option Nat) : Prop where
  inv : SInv g del
  vf : VFacts g v del o
  notCtx : isCtx o.name = false
  e0m : e0 ∈ g.es
  e0s : e0.src = v
  fall : g.toGraph.fall v = e0.dst
  plain : ∀ e ∈ g.es, e.src = v → e.isElse = false ∧ e.switchOps = []
  ce : CaseEnd g v n g2 ch next
  chn : Chain g v n del cases e0.dst ch next
  nc : ∀ x, next = some x → (g.setSwitchStart v n).isCaseV x cases = false

variable {g g2 : BGraph} {v n : Nat} {del : List Nat} {cases : List String} {o : MOp} {e0 : BEdge} {ch : List CElem}
  {next : Option Nat}

namespace CaseCtx

theorem vs_ne (k : CaseCtx g v n del cases o e0 g2 ch next) (u : Nat) (hu : u ≠ v) : g2.vs[u]? = g.vs[u]? := by
  rw [k.ce.vs]; exact setSwitchStart_vs_ne g v n u hu

theorem vs_v (k : CaseCtx g v n del cases o e0 g2 ch next) :
    ∃ x, g.vs[v]? = some x ∧ x.op = .item (.op o) ∧ x.switchStart = none ∧
      g2.vs[v]? = some (BGraph.setSwitchStartV n x) := by
  obtain ⟨x, h1, h2, h3⟩ := k.vf.vx
  exact ⟨x, h1, h2, h3, by rw [k.ce.vs, setSwitchStart_vs_self, h1]; rfl⟩

theorem vs_length (k : CaseCtx g v n del cases o e0 g2 ch next) : g2.vs.length = g.vs.length := by
  rw [k.ce.vs]; simp

theorem op_same (k : CaseCtx g v n del cases o e0 g2 ch next) (u : Nat) :
    (g2.vs[u]?).map (·.op) = (g.vs[u]?).map (·.op) := by
  by_cases hu : u = v
  · subst hu
    obtain ⟨x, h1, _, _, h4⟩ := k.vs_v
    rw [h1, h4]; rfl
  · rw [k.vs_ne u hu]

theorem sameV_ne (k : CaseCtx g v n del cases o e0 g2 ch next) (u : Nat) (hu : u ≠ v) : SameV g g2 u u :=
  SameV.of_eq (k.vs_ne u hu)

theorem switch_v (k : CaseCtx g v n del cases o e0 g2 ch next) : g2.isSwitchV v = true ∧ g.isSwitchV v = false ∧ g.isIfV v = false := by
  obtain ⟨x, h1, h2, h3, h4⟩ := k.vs_v
  refine ⟨?_, ?_, ?_⟩
  · unfold BGraph.isSwitchV BGraph.isSwitchVertex; rw [h4]; simp [BGraph.setSwitchStartV, h2]
  · unfold BGraph.isSwitchV BGraph.isSwitchVertex; rw [h1]; simp [h2, h3]
  · unfold BGraph.isIfV BGraph.isIfVertex; rw [h1]; simp [h2]

theorem v_lt (k : CaseCtx g v n del cases o e0 g2 ch next) : v < g.vs.length := by
  obtain ⟨x, h1, _⟩ := k.vf.vx
  exact (List.getElem?_eq_some_iff.mp h1).1

theorem isCtxVertex_same (k : CaseCtx g v n del cases o e0 g2 ch next) (u : Nat) :
    g2.toGraph.isCtxVertex u = g.toGraph.isCtxVertex u := by
  rw [isCtxVertex_eq, isCtxVertex_eq, k.op_same u]

theorem v_not_ctx (k : CaseCtx g v n del cases o e0 g2 ch next) : g.toGraph.isCtxVertex v = false := by
  obtain ⟨x, h1, h2, _⟩ := k.vf.vx
  rw [isCtxVertex_eq, h1]; simp [h2, k.notCtx]

/-- a vertex of the chain -/
theorem chain_w (k : CaseCtx g v n del cases o e0 g2 ch next) (c : CElem) (hc : c ∈ ch) :
    c.w ∉ del ∧ c.w ≠ v ∧ c.w ≠ 0 ∧ g.isIfV c.w = false ∧ g.isSwitchV c.w = false ∧ g.toGraph.isCtxVertex c.w = false ∧
      c.w < g.vs.length ∧ g.isLabelV c.w = false := by
  have e := k.chn.elem c hc
  obtain ⟨h1, h2, _⟩ := testV_kind g c.w c.r e.test
  obtain ⟨x, l, cc, hx, hop, _⟩ := e.test
  refine ⟨e.alive, e.nev, e.nz, h1, h2, ?_, (List.getElem?_eq_some_iff.mp hx).1, ?_⟩
  · rw [isCtxVertex_eq, hx]; simp [hop]
  · unfold BGraph.isLabelV BGraph.opAt; rw [hx]; simp [hop]

theorem chain_isCase (k : CaseCtx g v n del cases o e0 g2 ch next) (c : CElem) (hc : c ∈ ch) :
    (g.setSwitchStart v n).isCaseV c.w cases = true := by
  have e := k.chn.elem c hc
  unfold BGraph.isCaseV
  rw [setSwitchStart_vs_ne g v n c.w e.nev, testV_root g c.w c.r e.test]
  exact e.isCase

/-- the end of the chain is not in the chain and stays -/
theorem next_ok (k : CaseCtx g v n del cases o e0 g2 ch next) (x : Nat) (hx : next = some x) :
    x ∉ ch.map (·.w) ∧ x ∉ del := by
  constructor
  · intro hm
    obtain ⟨c, hc, rfl⟩ := List.mem_map.mp hm
    have := k.chain_isCase c hc
    rw [k.nc c.w hx] at this; cases this
  · have hlast := k.chn.last
    cases hl : ch.getLast? with
    | none =>
      rw [hl, hx] at hlast
      have : x = e0.dst := by simpa using hlast
      rw [this]
      exact k.inv.read_alive e0 k.e0m (by rw [k.e0s]; exact k.vf.alive)
        (ignoredE_of_not_switch g e0 (by rw [k.e0s]; exact k.switch_v.2.1))
    | some c =>
      rw [hl, hx] at hlast
      have hc : c ∈ ch := List.mem_of_getLast? hl
      obtain ⟨el, hel, hs, hd⟩ := (k.chn.elem c hc).nxEdge x hlast.symm
      rw [← hd]
      exact k.inv.read_alive el hel (by rw [hs]; exact (k.chain_w c hc).1)
        (ignoredE_of_not_switch g el (by rw [hs]; exact (k.chain_w c hc).2.2.2.2.1))

/-- the target of a case edge is not in the chain and stays -/
theorem tgt_ok (k : CaseCtx g v n del cases o e0 g2 ch next) (c : CElem) (hc : c ∈ ch) :
    c.eh.dst ∉ ch.map (·.w) ∧ c.eh.dst ∉ del := by
  have e := k.chn.elem c hc
  constructor
  · intro hm
    obtain ⟨c', hc', heq⟩ := List.mem_map.mp hm
    exact k.chn.tgt c hc c' hc' heq.symm
  · exact k.inv.read_alive c.eh e.ehMem (by rw [e.ehSrc]; exact e.alive)
      (ignoredE_of_not_switch g c.eh (by rw [e.ehSrc]; exact (k.chain_w c hc).2.2.2.2.1))

/-- an edge that a vertex outside the chain reads does not lead into the chain -/
theorem no_entry (k : CaseCtx g v n del cases o e0 g2 ch next) (a : Nat) (ha : a ∉ del) (hw : a ∉ ch.map (·.w))
    (hv : a ≠ v) (e : BEdge) (he : e ∈ g.es) (hs : e.src = a) (hi : g.ignoredE e = false) : e.dst ∉ ch.map (·.w) := by
  intro hm
  obtain ⟨c, hc, heq⟩ := List.mem_map.mp hm
  rcases k.chn.inn c hc e he heq.symm with h1 | h1 | h1
  · rw [hs] at h1; exact ha h1
  · rw [hs] at h1; exact hw h1
  · have : (g.setSwitchStart v n).ignoredE e = g.ignoredE e := by
      unfold BGraph.ignoredE
      rw [isSwitchV_same (SameV.of_eq (setSwitchStart_vs_ne g v n e.src (by rw [hs]; exact hv)))]
    rw [this, hi] at h1; cases h1

/-- the else edges of the switch afterwards -/
theorem v_else (k : CaseCtx g v n del cases o e0 g2 ch next) (y : BEdge) (hy : y ∈ g2.es) (hs : y.src = v)
    (he : y.isElse = true) : ∃ x, next = some x ∧ y.dst = x := by
  rcases k.ce.up y hy with h1 | ⟨j, c, hj, rfl⟩ | ⟨x, hx, _, hd, _, _⟩
  · rw [(k.plain y h1 hs).1] at he; cases he
  · rw [caseEdge_isElse, (k.chn.elem c (List.mem_of_getElem? hj)).ehElse] at he; cases he
  · exact ⟨x, hx, hd⟩

theorem switchElse_eq (k : CaseCtx g v n del cases o e0 g2 ch next) : g2.switchElse v = nxTarget g next := by
  unfold BGraph.switchElse
  cases hf : g2.firstElse v with
  | none =>
    cases hn : next with
    | none => simp only [nxTarget]; rw [toGraph_fellOff, k.vs_length]
    | some x =>
      obtain ⟨y, hy, hs, _, he⟩ := k.ce.els x hn
      obtain ⟨i, hi⟩ := List.getElem?_of_mem hy
      have := firstElse_none g2 v hf i y hi hs
      rw [he] at this; cases this
  | some p =>
    obtain ⟨i, y⟩ := p
    obtain ⟨h1, h2, h3⟩ := firstElse_some g2 v i y hf
    obtain ⟨x, hx, hd⟩ := k.v_else y (List.mem_of_getElem? h1) h2 h3
    rw [hx]; exact hd

/-- the case tests of the switch afterwards: one per merged case vertex, numbered in chain order -/
theorem mem_triples (k : CaseCtx g v n del cases o e0 g2 ch next) (t : CaseT) :
    t ∈ g2.caseTriples v ↔ ∃ j c, ch[j]? = some c ∧ t = (j, c.r, c.eh.dst) := by
  rw [mem_caseTriples]
  constructor
  · rintro ⟨y, hy, hs, hd, si, hm⟩
    rcases k.ce.up y hy with h1 | ⟨j, c, hj, rfl⟩ | ⟨x, _, _, _, _, hops⟩
    · rw [(k.plain y h1 hs).2] at hm; cases hm
    · rw [caseEdge_ops] at hm
      simp only [List.mem_singleton, Prod.mk.injEq] at hm
      refine ⟨j, c, hj, ?_⟩
      obtain ⟨a, b, d⟩ := t
      simp only at hm hd
      rw [hm.2.1, hm.2.2, hd]; rfl
    · rw [hops] at hm; cases hm
  · rintro ⟨j, c, hj, rfl⟩
    exact ⟨_, k.ce.copies j c hj, rfl, rfl, 0, by rw [caseEdge_ops]; simp⟩

theorem nextTest_lt (k : CaseCtx g v n del cases o e0 g2 ch next) (j : Nat) (c : CElem) (hj : ch[j]? = some c) :
    g2.nextTest v j = some (j, c.r, c.eh.dst) := by
  rcases nextTest_spec g2 v j with ⟨_, h2⟩ | ⟨t, h1, h2, h3, h4⟩
  · have := h2 _ ((k.mem_triples _).mpr ⟨j, c, hj, rfl⟩)
    simp at this
  · rw [h1]
    obtain ⟨j', c', hj', rfl⟩ := (k.mem_triples t).mp h2
    have := h4 _ ((k.mem_triples _).mpr ⟨j, c, hj, rfl⟩) (Nat.le_refl _)
    simp only at h3 this
    have hjj : j' = j := by omega
    subst hjj
    rw [hj] at hj'
    have : c' = c := by simpa using hj'.symm
    rw [this]

theorem nextTest_ge (k : CaseCtx g v n del cases o e0 g2 ch next) (j : Nat) (hj : ch.length ≤ j) :
    g2.nextTest v j = none := by
  rcases nextTest_spec g2 v j with ⟨h1, _⟩ | ⟨t, _, h2, h3, _⟩
  · exact h1
  · obtain ⟨j', c', hj', rfl⟩ := (k.mem_triples t).mp h2
    have := (List.getElem?_eq_some_iff.mp hj').1
    simp only at h3
    omega

end CaseCtx

end ESV.Decomp.Sw
