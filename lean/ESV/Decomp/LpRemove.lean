import ESV.Decomp.LpRemInv
import ESV.Decomp.LpRaise
import ESV.Decomp.SwGroupFinal
/-
`remove_label_markers`: from the loop invariant (`JInv`) and the decidable hypotheses (`bypOk`, `raiseOk`, `detOk`, `synPlainOk`)
to the abstract situation of `BypCtx.equiv`, for both loops; the first loop goes through the graph with the raised flow levels
(`raisedG`, same step function by `stepPL_raised`).
-/
namespace ESV.Decomp.Lp
open ESV.Beh ESV.Decomp ESV.Decomp.Opt ESV.Decomp.Gr ESV.Decomp.Sw

theorem bypOk_spec {g : BGraph} {del : List Nat} {bs : List Byp} (h : bypOk g del bs = true) :
    0 ∉ del ∧ (∀ d ∈ del, ∃ x, g.vs[d]? = some x ∧ silentX x = true) ∧
    (∀ b ∈ bs, b.a ∉ del ∧ (∃ e ∈ g.es, e.src = b.d) ∧ (∀ e ∈ g.es, e.src = b.d → e.dst = b.a) ∧
      (g.toGraph.isCtxVertex b.ein.src = true → ∀ y, g.vs[b.a]? = some y → readsCtxX y = false)) ∧
    (∀ e ∈ g.es, e.dst ∈ del → e.src ∈ del ∨ ∃ b ∈ bs, b.d = e.dst ∧ b.ein = e) := by
  unfold bypOk at h
  simp only [Bool.and_eq_true, Bool.not_eq_true', List.all_eq_true, List.any_eq_true, Bool.or_eq_true, beq_iff_eq,
    List.contains_eq_mem, decide_eq_true_eq, decide_eq_false_iff_not, Bool.and_eq_false_iff, beq_eq_false_iff_ne] at h
  obtain ⟨⟨⟨h0, hsil⟩, hb⟩, hdead⟩ := h
  refine ⟨h0, ?_, ?_, ?_⟩
  · intro d hd
    have := hsil d hd
    cases hx : g.vs[d]? with
    | none => rw [hx] at this; cases this
    | some x => rw [hx] at this; exact ⟨x, rfl, this⟩
  · intro b hbm
    obtain ⟨⟨⟨h1, ⟨e, he, hs⟩⟩, h3⟩, h4⟩ := hb b hbm
    refine ⟨h1, ⟨e, he, hs⟩, ?_, ?_⟩
    · intro e he hs
      rcases h3 e he with h | h
      · exact absurd hs h
      · exact h
    · intro hc y hy
      rcases h4 with h | h
      · rw [hc] at h; cases h
      · rw [hy] at h; exact h
  · intro e he hd
    rcases hdead e he with (h | h) | ⟨b, hb, h1, h2⟩
    · exact absurd hd h
    · exact Or.inl h
    · exact Or.inr ⟨b, hb, h1, h2⟩

theorem silentX_coreL (x y : BVertex) (h : coreL x = coreL y) : silentX x = silentX y := by
  simp only [coreL, Prod.mk.injEq] at h
  obtain ⟨h1, h2, h3, _, h5, h6⟩ := h
  unfold silentX BGraph.isLabelX plainJumpX
  rw [h1, h2, h3, h5, h6]

theorem readsCtxX_coreL (x y : BVertex) (h : coreL x = coreL y) : readsCtxX x = readsCtxX y := by
  simp only [coreL, Prod.mk.injEq] at h
  obtain ⟨h1, _, _, _, _, h6⟩ := h
  unfold readsCtxX
  rw [h1, h6]

theorem sameVL_get {g g' : BGraph} {u : Nat} (h : SameVL g g' u u) (y : BVertex) (hy : g'.vs[u]? = some y) :
    ∃ x, g.vs[u]? = some x ∧ coreL x = coreL y := by
  unfold SameVL at h
  rw [hy] at h
  cases hx : g.vs[u]? with
  | none => rw [hx] at h; simp at h
  | some x => rw [hx] at h; exact ⟨x, rfl, by simpa using h.symm⟩

theorem synPlain_kind (g : BGraph) (h : synPlainOk g = true) (a : Nat) (hs : g.isSynV a = true) :
    g.isIfV a = false ∧ g.isSwitchV a = false := by
  unfold synPlainOk at h
  rw [List.all_eq_true] at h
  unfold BGraph.isSynV at hs
  cases hx : g.vs[a]? with
  | none => rw [hx] at hs; cases hs
  | some x =>
    rw [hx] at hs
    have := h x (List.mem_of_getElem? hx)
    simp only at hs
    simp only [hs, Bool.not_true, Bool.false_or, Bool.and_eq_true, Option.isNone_iff_eq_none] at this
    unfold BGraph.isIfV BGraph.isSwitchV BGraph.isIfVertex BGraph.isSwitchVertex
    rw [hx]
    simp only [this.1, this.2]
    constructor
    · split <;> simp_all
    · split <;> simp_all

theorem det_of_detOk (g : BGraph) (h : detOk g = true) : Det g := by
  unfold detOk at h
  simp only [Bool.and_eq_true] at h
  exact det_of_bools g h.1.1.1 h.1.1.2 h.1.2 h.2

/-! ## the adjusted graph: flow levels of the by-passed edges raised (first loop) or kept (second loop) -/

def adj (raise : Bool) (bs : List Byp) (e : BEdge) : BEdge := if raise = true then raiseF bs e else e
def adjG (raise : Bool) (g : BGraph) (bs : List Byp) : BGraph := { g with es := g.es.map (adj raise bs) }
def adjB (raise : Bool) (bs : List Byp) (b : Byp) : Byp := { b with ein := adj raise bs b.ein }
def adjRaw (raise : Bool) (g graw : BGraph) (bs : List Byp) : BGraph :=
  { vs := graw.vs, es := (adjG raise g bs).es ++ (bs.map (adjB raise bs)).map fun b => BGraph.bypEdge b.ein b.a false }

theorem adj_src (raise : Bool) (bs : List Byp) (e : BEdge) : (adj raise bs e).src = e.src := by
  unfold adj; split <;> rfl

theorem adj_dst (raise : Bool) (bs : List Byp) (e : BEdge) : (adj raise bs e).dst = e.dst := by
  unfold adj; split <;> rfl

theorem copy_adj (raise : Bool) (bs : List Byp) (b : Byp) (hb : b ∈ bs) :
    BGraph.bypEdge (adj raise bs b.ein) b.a false = BGraph.bypEdge b.ein b.a raise := by
  cases raise with
  | false => rfl
  | true =>
    have : raisedLevel bs b.ein = b.ein.level + 1 := by
      unfold raisedLevel
      rw [if_pos]
      rw [List.any_eq_true]
      exact ⟨b, hb, by simp⟩
    simp only [adj, if_true, raiseF, relF, BGraph.bypEdge, this]
    rfl

theorem adj_of_not_rec (raise : Bool) (bs : List Byp) (e : BEdge) (h : ∀ b ∈ bs, b.ein ≠ e) : adj raise bs e = e := by
  cases raise with
  | false => rfl
  | true =>
    have : raisedLevel bs e = e.level := by
      unfold raisedLevel
      rw [if_neg]
      rw [List.any_eq_true]
      rintro ⟨b, hb, heq⟩
      exact h b hb (by simpa using heq)
    simp only [adj, if_true, raiseF, relF, this]

variable {g graw : BGraph} {del : List Nat} {bs : List Byp} {raise : Bool}

/-- the recorded in-edge of a by-pass is an edge of the graph before the loop -/
theorem ein_orig (hinv : JInv g graw del bs raise) (hkeep : ∀ b ∈ bs, b.a ∉ del) (b : Byp) (hb : b ∈ bs) : b.ein ∈ g.es := by
  obtain ⟨h1, h2, h3⟩ := hinv.ein b hb
  rw [hinv.es] at h1
  rcases List.mem_append.mp h1 with h | h
  · exact h
  · obtain ⟨b2, hb2, heq⟩ := List.mem_map.mp h
    exfalso
    have : b.ein.dst = b2.a := by rw [← heq]; rfl
    exact hkeep b2 hb2 (by rw [← this, h2]; exact h3)

theorem filter_map_fix {α : Type} (f : α → α) (p : α → Bool) (l : List α) (h1 : ∀ e ∈ l, p (f e) = p e)
    (h2 : ∀ e ∈ l, p e = true → f e = e) : (l.map f).filter p = l.filter p := by
  induction l with
  | nil => rfl
  | cons x xs ih =>
    have hx := h1 x (List.mem_cons_self ..)
    have ih' := ih (fun e he => h1 e (List.mem_cons_of_mem _ he)) (fun e he => h2 e (List.mem_cons_of_mem _ he))
    simp only [List.map_cons, List.filter_cons, hx]
    cases hp : p x with
    | true => simp only [if_true]; rw [ih', h2 x (List.mem_cons_self ..) hp]
    | false => simp only [Bool.false_eq_true, if_false]; exact ih'

/-- the `delete_vertices` does not see the adjustment: the adjusted edges lead to vertices that go -/
theorem deleteVs_adjRaw (hinv : JInv g graw del bs raise) :
    (adjRaw raise g graw bs).deleteVs del = graw.deleteVs del := by
  unfold BGraph.deleteVs adjRaw adjG
  simp only
  congr 1
  rw [hinv.es, List.filter_append, List.filter_append, List.map_append, List.map_append]
  congr 2
  · apply filter_map_fix
    · intro e _; rw [adj_src, adj_dst]
    · intro e _ hp
      apply adj_of_not_rec
      intro b hb heq
      obtain ⟨_, h2, h3⟩ := hinv.ein b hb
      simp only [Bool.and_eq_true, Bool.not_eq_true', List.contains_eq_mem, decide_eq_false_iff_not] at hp
      exact hp.2 (by rw [← heq, h2]; exact h3)
  · congr 1
    rw [List.map_map]
    apply List.map_congr_left
    intro b hb
    exact copy_adj raise bs b hb

theorem ctx_of_inv (hinv : JInv g graw del bs raise) (hdet : Det (adjG raise g bs)) (hsyn : synPlainOk g = true)
    (hok : bypOk graw del bs = true) :
    BypCtx (adjG raise g bs) (adjRaw raise g graw bs) del (bs.map (adjB raise bs)) := by
  obtain ⟨h0, hsil, hb, hdead⟩ := bypOk_spec hok
  have horig : ∀ b ∈ bs, b.ein ∈ g.es := ein_orig hinv (fun b hbm => (hb b hbm).1)
  have hsub : ∀ e ∈ g.es, e ∈ graw.es := fun e he => by rw [hinv.es]; exact List.mem_append_left _ he
  have hGes : ∀ e', e' ∈ (adjG raise g bs).es ↔ ∃ e ∈ g.es, e' = adj raise bs e := by
    intro e'
    unfold adjG
    simp only [List.mem_map]
    constructor
    · rintro ⟨e, he, rfl⟩; exact ⟨e, he, rfl⟩
    · rintro ⟨e, he, rfl⟩; exact ⟨e, he, rfl⟩
  refine ⟨hdet, synPlain_kind g hsyn, hinv.same, hinv.len, ?_, ?_, h0, ?_, ?_, ?_, ?_, ?_, ?_⟩
  · intro x
    unfold adjRaw
    simp only [List.mem_append, List.mem_map]
    constructor
    · rintro (h | ⟨b', hb', rfl⟩)
      · exact Or.inl h
      · exact Or.inr ⟨b', hb', rfl⟩
    · rintro (h | ⟨b', hb', rfl⟩)
      · exact Or.inl h
      · exact Or.inr ⟨b', hb', rfl⟩
  · intro b' hb'
    obtain ⟨b, hbm, rfl⟩ := List.mem_map.mp hb'
    obtain ⟨_, h2, h3⟩ := hinv.ein b hbm
    refine ⟨(hGes _).mpr ⟨b.ein, horig b hbm, rfl⟩, ?_, h3⟩
    show (adj raise bs b.ein).dst = b.d
    rw [adj_dst]; exact h2
  · intro d hd
    obtain ⟨x, hx, _⟩ := hsil d hd
    have := (List.getElem?_eq_some_iff.mp hx).1
    show d < g.vs.length
    rw [← hinv.len]; exact this
  · intro d hd
    obtain ⟨y, hy, hys⟩ := hsil d hd
    obtain ⟨x, hx, hc⟩ := sameVL_get (hinv.same d) y hy
    exact ⟨x, hx, by rw [silentX_coreL x y hc]; exact hys⟩
  · intro b' hb'
    obtain ⟨b, hbm, rfl⟩ := List.mem_map.mp hb'
    exact (hb b hbm).1
  · intro b' hb'
    obtain ⟨b, hbm, rfl⟩ := List.mem_map.mp hb'
    obtain ⟨_, ⟨e, he, hs⟩, hall, _⟩ := hb b hbm
    constructor
    · rw [hinv.es] at he
      rcases List.mem_append.mp he with h | h
      · exact ⟨adj raise bs e, (hGes _).mpr ⟨e, h, rfl⟩, by rw [adj_src]; exact hs⟩
      · obtain ⟨b2, hb2, rfl⟩ := List.mem_map.mp h
        refine ⟨adj raise bs b2.ein, (hGes _).mpr ⟨b2.ein, horig b2 hb2, rfl⟩, ?_⟩
        rw [adj_src]; exact hs
    · intro e' he' hs'
      obtain ⟨e, he, rfl⟩ := (hGes e').mp he'
      rw [adj_src] at hs'
      rw [adj_dst]
      exact hall e (hsub e he) hs'
  · intro e' he' hd'
    obtain ⟨e, he, rfl⟩ := (hGes e').mp he'
    rw [adj_dst] at hd'
    rw [adj_src, adj_dst]
    rcases hdead e (hsub e he) hd' with h | ⟨b, hbm, h1, h2⟩
    · exact Or.inl h
    · exact Or.inr ⟨adjB raise bs b, List.mem_map.mpr ⟨b, hbm, rfl⟩, h1, by show adj raise bs b.ein = _; rw [h2]⟩
  · intro b' hb' hc y hy
    obtain ⟨b, hbm, rfl⟩ := List.mem_map.mp hb'
    obtain ⟨_, _, _, hctx⟩ := hb b hbm
    have hc' : g.toGraph.isCtxVertex b.ein.src = true := by
      have : (adjB raise bs b).ein.src = b.ein.src := adj_src raise bs b.ein
      rw [this] at hc
      rw [isCtxVertex_eq] at hc ⊢
      exact hc
    have hy' : g.vs[b.a]? = some y := hy
    have hcr : graw.toGraph.isCtxVertex b.ein.src = true := by rw [isCtxVertex_sameL (hinv.same _)]; exact hc'
    have hs := hinv.same b.a
    unfold SameVL at hs
    rw [hy'] at hs
    cases hyr : graw.vs[b.a]? with
    | none => rw [hyr] at hs; simp at hs
    | some yr =>
      rw [hyr] at hs
      have : coreL yr = coreL y := by simpa using hs
      rw [← readsCtxX_coreL yr y this]
      exact hctx hcr yr hyr

/-- **one loop of `remove_label_markers`**, from its invariant and the decidable hypotheses -/
theorem loop_equiv (hinv : JInv g graw del bs raise) (hdet : Det (adjG raise g bs))
    (hstep : (adjG raise g bs).stepPL = g.stepPL) (hsyn : synPlainOk g = true) (hok : bypOk graw del bs = true) :
    Equivalent g.ltsPL (graw.deleteVs del).ltsPL (0, 0) (0, 0) := by
  have h := (ctx_of_inv hinv hdet hsyn hok).equiv
  rw [deleteVs_adjRaw hinv] at h
  have h0 : Equivalent g.ltsPL (adjG raise g bs).ltsPL ((0, 0) : Nat × Nat) ((0, 0) : Nat × Nat) :=
    equiv_of_step_eq g.stepPL (adjG raise g bs).stepPL hstep.symm (0, 0)
  exact Equivalent.trans h0 h

theorem adjG_false (g : BGraph) (bs : List Byp) : adjG false g bs = g := by
  unfold adjG
  have : (adj false bs) = id := by funext e; rfl
  rw [this, List.map_id]

theorem adjG_true (g : BGraph) (bs : List Byp) : adjG true g bs = raisedG g bs := by
  unfold adjG raisedG relG
  have : (adj true bs) = relF (raisedLevel bs) (fun e => e.loop) := by funext e; simp [adj, raiseF]
  rw [this]

/-- raising the levels keeps the determinacy of the readings -/
theorem det_raised (g : BGraph) (bs : List Byp) (hdet : Det g) (hr : raiseOk g bs = true) : Det (raisedG g bs) :=
  det_rel hdet (lvOk_of_raiseOk hr)

theorem syn_levelRead_of (g : BGraph) (h : synPlainOk g = true) (a : Nat) (hs : g.isSynV a = true) : g.levelRead a = true := by
  obtain ⟨h1, h2⟩ := synPlain_kind g h a hs
  exact levelRead_of h1 h2

end ESV.Decomp.Lp
