import ESV.Decomp.GraphSort
/-
The fuel arguments of `walkUp` and `hasPathGo` (ESV/Decomp/Model.lean) are never the reason for an answer:
with at least the fuel the model supplies, more fuel does not change the result, i.e. the Python `while`
loops they mirror terminate within these bounds.
-/
namespace ESV.Decomp.Fuel
open ESV.Beh

/-! ## `walkUp` -/

/-- any two fuels of at least `ends.length + 1 - r` give the same answer (`r ≤ ends.length`) -/
theorem walkUp_fuel_eq (ends : List Int) (target : Int) :
    ∀ (f1 f2 r : Nat), r ≤ ends.length → ends.length + 1 - r ≤ f1 → ends.length + 1 - r ≤ f2 →
      walkUp ends target f1 r = walkUp ends target f2 r := by
  intro f1
  induction f1 with
  | zero => intro f2 r hr h1 _; omega
  | succ f1 ih =>
    intro f2 r hr h1 h2
    cases f2 with
    | zero => omega
    | succ f2 =>
      simp only [walkUp]
      cases he : ends[r]? with
      | none => rfl
      | some e =>
        have hlt : r < ends.length := by
          rcases Nat.lt_or_ge r ends.length with h | h
          · exact h
          · rw [List.getElem?_eq_none h] at he; simp at he
        simp only
        split
        · split
          · rfl
          · exact ih f2 (r+1) (by omega) (by omega) (by omega)
        · rfl

theorem walkDown_le (ends : List Int) (target : Int) : ∀ r, walkDown ends target r ≤ r := by
  intro r
  induction r with
  | zero => simp [walkDown]
  | succ r ih =>
    simp only [walkDown]
    split
    · split
      · omega
      · omega
    · omega

/-! ## `hasPathGo` -/

theorem length_insertBy {α} (lt : α → α → Bool) (x : α) (l : List α) :
    (insertBy lt x l).length = l.length + 1 := by
  induction l with
  | nil => simp [insertBy]
  | cons y ys ih =>
    unfold insertBy
    split
    · simp
    · simp [ih]

theorem length_sortBy {α} (lt : α → α → Bool) (l : List α) : (sortBy lt l).length = l.length := by
  induction l with
  | nil => simp [sortBy]
  | cons z zs ih =>
    have : sortBy lt (z :: zs) = insertBy lt z (sortBy lt zs) := rfl
    rw [this, length_insertBy, ih]; simp

theorem length_filter_zipIdx {α} (f : α → Bool) (l : List α) (k : Nat) :
    ((l.zipIdx k).filter fun p => f p.1).length = (l.filter f).length := by
  induction l generalizing k with
  | nil => simp
  | cons x xs ih =>
    simp only [List.zipIdx_cons, List.filter_cons]
    split
    · simp [ih]
    · simp [ih]

/-- `outEdges g v` lists every edge with source `v` exactly once -/
theorem length_outEdges (g : Graph) (v : Nat) :
    (outEdges g v).length = (g.es.filter fun e => e.src == v).length := by
  unfold outEdges
  simp only [length_sortBy, List.length_map]
  exact length_filter_zipIdx (fun e => e.src == v) g.es 0

/-- the out-edges of the vertices that were not seen yet -/
def unseenOut (g : Graph) (seen : List Nat) : List Edge := g.es.filter fun e => !seen.contains e.src

/-- an upper bound of the iterations `has_path_not_using_any_loop_edges` still makes: every entry of the
stack is popped once, the out-edges of a vertex are pushed only when it enters `seen` -/
def budget (g : Graph) (stack : List Edge) (seen : List Nat) : Nat :=
  stack.length + (unseenOut g seen).length + 1

theorem filter_split_length {α} (p q : α → Bool) (l : List α) :
    (l.filter p).length = (l.filter fun x => p x && q x).length + (l.filter fun x => p x && !q x).length := by
  induction l with
  | nil => simp
  | cons x xs ih =>
    simp only [List.filter_cons]
    cases p x <;> cases q x <;> simp [ih] <;> omega

theorem unseenOut_cons (g : Graph) (seen : List Nat) (d : Nat) (hd : seen.contains d = false) :
    (unseenOut g seen).length = (g.es.filter fun e => e.src == d).length + (unseenOut g (d :: seen)).length := by
  unfold unseenOut
  rw [filter_split_length (fun e : Edge => !seen.contains e.src) (fun e => e.src == d) g.es]
  congr 1
  · congr 1
    apply List.filter_congr
    intro e _
    by_cases h : e.src = d
    · simp [h]; simpa using hd
    · simp [h]
  · congr 1
    apply List.filter_congr
    intro e _
    by_cases h : e.src = d
    · simp [h]
    · simp [h]

/-- **`hasPathGo` does not depend on its fuel** once the fuel covers the budget -/
theorem hasPathGo_fuel_stable (g : Graph) (v2 : Nat) :
    ∀ (fuel extra : Nat) (stack : List Edge) (seen : List Nat), budget g stack seen ≤ fuel →
      hasPathGo g v2 (fuel + extra) stack seen = hasPathGo g v2 fuel stack seen := by
  intro fuel
  induction fuel with
  | zero => intro extra stack seen h; unfold budget at h; omega
  | succ fuel ih =>
    intro extra stack seen h
    have hf : fuel + 1 + extra = (fuel + extra) + 1 := by omega
    rw [hf]
    cases stack with
    | nil => simp [hasPathGo]
    | cons e stack =>
      simp only [hasPathGo]
      unfold budget at h
      simp only [List.length_cons] at h
      split
      · exact ih extra stack seen (by unfold budget; omega)
      · rename_i hs
        have hs' : seen.contains e.dst = false := by simpa using hs
        have hc := unseenOut_cons g seen e.dst hs'
        split
        · rfl
        · split
          · apply ih
            unfold budget
            simp only [List.length_append, List.length_reverse, List.length_map, length_outEdges]
            omega
          · apply ih
            unfold budget
            omega

theorem budget_init (g : Graph) (v1 : Nat) :
    budget g ((outEdges g v1).map (·.2)).reverse [v1] ≤ 2 * g.es.length + 2 := by
  unfold budget unseenOut
  simp only [List.length_reverse, List.length_map, length_outEdges]
  have h1 := List.length_filter_le (fun e : Edge => e.src == v1) g.es
  have h2 := List.length_filter_le (fun e : Edge => !([v1] : List Nat).contains e.src) g.es
  omega

end ESV.Decomp.Fuel
