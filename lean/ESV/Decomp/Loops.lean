import ESV.Decomp.Switch
/-
`SsbGraphMinimizer.build_switch_fallthroughs`, `build_loops` and `remove_label_markers` (graph_building/graph_minimizer.py): the
last three rewriting phases of the decompiler; `convert()` runs them right after `group_switch_cases` and hands the graphs to the
writers.

* `build_switch_fallthroughs` only ADDS `SwitchFalltrough` markers to label vertices.  Which labels is decided by
  `reverse_find_edge` / `has_unclosed_blocks(g.get_shortest_paths(...))` and is NOT modelled: the list of vertex indices that get
  the marker is an ORACLE INPUT (read off the real graphs before / after the pass).
* `build_loops`: WHERE a loop is built and with which break / continue edges (`g.bfsiter`, `_build_loops__try_loop`,
  `is_reachable_when_removing`: Python sets of igraph Edge objects, a heuristic join search, shortest paths) is NOT modelled: the
  sequence of SUCCESSFUL loop constructions `(v, break_points, continue_points)` - edge ids in the order the code uses them - is an
  ORACLE INPUT, plus the class of an exception that left the decision part, if any.  The REWRITING of each construction is modelled
  statement by statement (`applyLoop`).
* `remove_label_markers` is deterministic and modelled in full (`removeLabelMarkers`); the label attribute
  `referenced_from_other_routine` comes from the resolver's label table.

Python objects that are `SsbLabelJump`s: the label jumps of the resolver (`.item (.ljump …)`), the switch ops wrapped by
`build_and_group_switch_cases` (`.item (.op …)` with `switchStart`) and the vertices `build_loops` inserts (`synthetic`).
-/
namespace ESV.Decomp
open ESV.Beh

/-- one successful loop construction of `build_loops`: the vertex at which `can_build` was finally true and the ids of the break /
continue edges, in the order the code iterates them -/
structure LoopRec where
  v : Nat
  breaks : List Nat
  continues : List Nat
deriving DecidableEq, Repr

/-- a by-pass of `remove_label_markers` (ghost output for the theorems): the deleted vertex, the edge into it that was copied,
the vertex the copy leads to -/
structure Byp where
  d : Nat
  ein : BEdge
  a : Nat
deriving DecidableEq, Repr

namespace BGraph

/-- `isinstance(x["op"], SsbLabelJump)` -/
def isJumpObj (x : BVertex) : Bool :=
  x.synthetic ||
  match x.op, x.switchStart with
  | .item (.ljump _ _ _), _ => true
  | .item (.op _), some _ => true
  | _, _ => false

def callFlag (x : BVertex) : Bool :=
  match x.op with
  | .item (.ljump _ _ c) => c
  | _ => false

/-- `len(x["op"].markers) > 0` for an `SsbLabelJump` (`get_marker()` is not None) -/
def jumpMarked (x : BVertex) : Bool :=
  callFlag x || x.ifStart.isSome || x.switchStart.isSome || x.foreverBreak.isSome || x.foreverContinue.isSome ||
    x.foreverStart.isSome || !x.foreverEnds.isEmpty

/-- `len(x["op"].markers) > 0` for an `SsbLabel` -/
def labelMarked (x : BVertex) : Bool :=
  !x.ifEnds.isEmpty || !x.switchEnds.isEmpty || x.fallthrough || x.foreverStart.isSome || !x.foreverEnds.isEmpty

def isLabelX (x : BVertex) : Bool :=
  !x.synthetic &&
  match x.op with
  | .item (.label _) => true
  | _ => false

/-- `isinstance(v["op"], SsbLabel)` (a synthetic vertex whose root is a label is an `SsbLabelJump`) -/
def isLabelL (g : BGraph) (v : Nat) : Bool :=
  match g.vs[v]? with
  | some x => isLabelX x
  | none => false

/-! ## `build_switch_fallthroughs` -/

def setFallthroughV (x : BVertex) : BVertex := { x with fallthrough := true }

/-- the markers the pass adds, given the vertices it adds them to (the code only marks `SsbLabel`s) -/
def markFallthroughs : List Nat → BGraph → Except String BGraph
  | [], g => .ok g
  | v :: rest, g =>
    if g.isLabelL v then markFallthroughs rest { g with vs := g.vs.modify v setFallthroughV }
    else .error "OracleNotLabel"

/-! ## `build_loops`: the rewriting of one loop construction -/

/-- `x["op"].add_marker(ForeverEnd(id))` / `add_marker(ForeverStart(id))`: a label appends, an `SsbLabelJump` refuses a second
marker (ValueError), any other op has no `add_marker` (AttributeError) -/
def addLoopMark (start : Bool) (id : Nat) (x : BVertex) : Except String BVertex :=
  if isLabelX x then
    if start then (if x.foreverStart.isSome then .error "OracleStartMarked" else .ok { x with foreverStart := some id })
    else .ok { x with foreverEnds := x.foreverEnds ++ [id] }
  else if isJumpObj x then
    if jumpMarked x then .error "ValueError"
    else if start then .ok { x with foreverStart := some id }
    else .ok { x with foreverEnds := [id] }
  else .error "AttributeError"

def markVertex (g : BGraph) (v : Nat) (f : BVertex → Except String BVertex) : Except String BGraph :=
  match g.vs[v]? with
  | none => .error "OracleVertexMissing"
  | some x =>
    match f x with
    | .error e => .error e
    | .ok x' => .ok { g with vs := g.vs.set v x' }

/-- the op of `SsbLabelJump(x["op"], None)`: an `SsbLabelJump` is "copied" (`root = root.root`, an AssertionError for a multi-if,
whose root is unset), any other op becomes the root as it is -/
def copyRoot (x : BVertex) : Except String VOp :=
  if x.synthetic then .ok x.op
  else
    match x.op with
    | .item (.ljump r _ _) => if x.ifOps.isEmpty then .ok (.item (.op r)) else .error "AssertionError"
    | o => .ok o

/-- the vertex `g.add_vertex(label=None, op=SsbLabelJump(source op, None), …)` with its `ForeverBreak` / `ForeverContinue`
marker; the igraph attribute "name" is None -/
def synVertex (root : VOp) (id : Nat) (isBreak : Bool) : BVertex :=
  { name := none, op := root, synthetic := true,
    foreverBreak := if isBreak then some id else none, foreverContinue := if isBreak then none else some id }

def setBreakV (id : Nat) (x : BVertex) : BVertex := { x with foreverBreak := some id }
def setContinueV (id : Nat) (x : BVertex) : BVertex := { x with foreverContinue := some id }

/-- the body of `for loop_edge in break_points` (`isBreak`) / `for loop_edge in continue_points` for the edge with id `i`;
`v` = the loop's start vertex, `toDel` = `es_to_delete` -/
def splitEdge (g : BGraph) (v id : Nat) (isBreak : Bool) (i : Nat) (toDel : List Nat) : Except String (BGraph × List Nat) :=
  match g.es[i]? with
  | none => .error "OracleEdgeMissing"
  | some e =>
    match g.vs[e.src]? with
    | none => .error "Unreachable"
    | some x =>
      if !isJumpObj x || jumpMarked x then
        -- already has a marker or is not a jump: a new vertex in between
        match copyRoot x with
        | .error err => .error err
        | .ok root =>
          let n := g.vs.length
          -- `_reconnect(g, source, loop_edge, new vertex, True)`: a copy of the edge, appended; a continue copy gets `loop = False`
          let copy : BEdge := if isBreak then { e with dst := n } else { e with dst := n, loop := false }
          let out : BEdge := if isBreak then ⟨n, e.dst, e.level, copy.loop, false, []⟩ else ⟨n, v, e.level, true, false, []⟩
          .ok ({ vs := g.vs ++ [synVertex root id isBreak], es := g.es ++ [copy, out] }, toDel ++ [i])
      else
        -- doesn't have a marker yet: mark as break / continue
        .ok ({ g with vs := g.vs.modify e.src (if isBreak then setBreakV id else setContinueV id) }, toDel)

def splitEdges (v id : Nat) (isBreak : Bool) : List Nat → BGraph → List Nat → Except String (BGraph × List Nat)
  | [], g, toDel => .ok (g, toDel)
  | i :: rest, g, toDel =>
    match g.splitEdge v id isBreak i toDel with
    | .error e => .error e
    | .ok (g', toDel') => splitEdges v id isBreak rest g' toDel'

/-- the state in front of `g.delete_edges(es_to_delete)` -/
def applyLoopRaw (g : BGraph) (id : Nat) (r : LoopRec) : Except String (BGraph × List Nat) :=
  -- if len(break_points) > 1: break_points[0].target_vertex["op"].add_marker(ForeverEnd(loop_id))
  let g1 : Except String BGraph :=
    match r.breaks with
    | b0 :: _ :: _ =>
      match g.es[b0]? with
      | none => .error "OracleEdgeMissing"
      | some e => g.markVertex e.dst (addLoopMark false id)
    | _ => .ok g
  match g1 with
  | .error e => .error e
  | .ok g1 =>
    -- v["op"].add_marker(ForeverStart(loop_id))
    match g1.markVertex r.v (addLoopMark true id) with
    | .error e => .error e
    | .ok g2 =>
      match splitEdges r.v id true r.breaks g2 [] with
      | .error e => .error e
      | .ok (g3, toDel) => splitEdges r.v id false r.continues g3 toDel

/-- the rewriting part of `build_loops` for one construction, `id` = `loop_id` -/
def applyLoop (g : BGraph) (id : Nat) (r : LoopRec) : Except String BGraph :=
  match g.applyLoopRaw id r with
  | .error e => .error e
  | .ok (g', toDel) => .ok (g'.delEdges toDel)          -- `g.delete_vertices(vs_to_delete)`: the set is always empty

def applyLoops : List LoopRec → Nat → BGraph → Except String BGraph
  | [], _, g => .ok g
  | r :: rest, id, g =>
    match g.applyLoop id r with
    | .error e => .error e
    | .ok g' => applyLoops rest (id + 1) g'

/-! ## `remove_label_markers` -/

/-- `isinstance(op, SsbLabelJump) and op.maybe_root is not None and op.root.op_code.name == OP_JUMP and op.get_marker() is None` -/
def isPlainJumpX (x : BVertex) : Bool :=
  !x.synthetic && x.ifOps.isEmpty && !jumpMarked x &&
  match x.op with
  | .item (.ljump r _ _) => r.name == ESV.Gen.op_jump
  | _ => false

def labelIdX (x : BVertex) : Option Nat :=
  if x.synthetic then none
  else match x.op with
    | .item (.label id) => some id
    | _ => none

def isForeignX (x : BVertex) : Bool :=
  !x.synthetic &&
  match x.op with
  | .foreign _ => true
  | _ => false

def setForceWriteV (x : BVertex) : BVertex := { x with forceWrite := true }

/-- `e = _reconnect(g, v_before, in_edge, v_after, True)`; `raise` = `e["flow_level"] = e["flow_level"] + 1` -/
def bypEdge (e : BEdge) (a : Nat) (raise : Bool) : BEdge :=
  { e with dst := a, level := if raise then e.level + 1 else e.level }

/-- the first loop `for v in g.vs` of `remove_label_markers`: redundant Jumps; `del` = `vs_to_delete`, `bs` = the by-passes -/
def jumpsGo : List Nat → BGraph → List Nat → List Byp → Except String (BGraph × List Nat × List Byp)
  | [], g, del, bs => .ok (g, del, bs)
  | v :: rest, g, del, bs =>
    match g.vs[v]? with
    | none => jumpsGo rest g del bs
    | some x =>
      if !isPlainJumpX x then jumpsGo rest g del bs
      else
        let ins := g.inIds v
        let outs := g.outIds v
        if ins.isEmpty && v == 0 then jumpsGo rest g del bs      -- the routine starts with this jump
        else if ins.isEmpty then jumpsGo rest g (del ++ [v]) bs
        else
          -- assert len(in_edges) == 1 and len(out_edges) == 1
          match ins, outs with
          | [i], [o] =>
            match g.es[i]?, g.es[o]? with
            | some ein, some eout =>
              let a := eout.dst
              match g.vs[a]? with
              | none => .error "Unreachable"
              | some y =>
                -- if isinstance(v_after["op"], SsbLabel): v_after["op"].force_write = True
                let g1 : BGraph := if isLabelX y then { g with vs := g.vs.modify a setForceWriteV } else g
                if (g1.inIds a).length > 1 then jumpsGo rest g1 del bs
                else if isForeignX y then jumpsGo rest g1 del bs
                else
                  match labelIdX y with
                  | none => .error "AttributeError"            -- `v_after["op"].id` of an op that is neither kind of label
                  | some lid =>
                    if lid == 0 || eout.loop || labelMarked y then jumpsGo rest g1 del bs
                    else jumpsGo rest { g1 with es := g1.es ++ [bypEdge ein a true] } (del ++ [v]) (bs ++ [⟨v, ein, a⟩])
            | _, _ => .error "Unreachable"
          | _, _ => .error "AssertionError"

/-- `SsbLabel.referenced_from_other_routine` of the label with id `lid` (resolver's label table) -/
def refd (labels : List Lbl) (lid : Nat) : Bool :=
  match labels.find? fun l => l.id == lid with
  | some l => l.foreign
  | none => false

/-- the second loop: redundant labels -/
def labelsGo (labels : List Lbl) : List Nat → BGraph → List Nat → List Byp → Except String (BGraph × List Nat × List Byp)
  | [], g, del, bs => .ok (g, del, bs)
  | v :: rest, g, del, bs =>
    match g.vs[v]? with
    | none => labelsGo labels rest g del bs
    | some x =>
      match labelIdX x with
      | none => labelsGo labels rest g del bs
      | some lid =>
        match g.inIds v with
        | [] =>
          if !refd labels lid && v != 0 then labelsGo labels rest g (del ++ [v]) bs
          else labelsGo labels rest g del bs
        | [i] =>
          -- assert len(out_edges) == 1
          match g.outIds v with
          | [o] =>
            match g.es[i]?, g.es[o]? with
            | some ein, some eout =>
              if lid == 0 || v == 0 || ein.loop || x.forceWrite || refd labels lid || labelMarked x then
                labelsGo labels rest g del bs
              else
                labelsGo labels rest { g with es := g.es ++ [bypEdge ein eout.dst false] } (del ++ [v]) (bs ++ [⟨v, ein, eout.dst⟩])
            | _, _ => .error "Unreachable"
          | _ => .error "AssertionError"
        | _ => labelsGo labels rest g del bs

end BGraph

/-- `build_switch_fallthroughs` for one routine graph, given the label vertices it marks -/
def buildSwitchFallthroughs (marked : List Nat) (g : BGraph) : Except String BGraph := BGraph.markFallthroughs marked g

/-- `build_loops` for one routine graph, given the successful loop constructions of the decision part and the class of the
exception that left the decision part after them, if any -/
def buildLoops (records : List LoopRec) (g : BGraph) (raised : Option String := none) : Except String BGraph :=
  match BGraph.applyLoops records 0 g with
  | .error e => .error e
  | .ok g' =>
    match raised with
    | some cls => .error cls
    | none => .ok g'

/-- state of `remove_label_markers` in front of its first `delete_vertices` -/
def removeJumpsRaw (g : BGraph) : Except String (BGraph × List Nat × List Byp) :=
  BGraph.jumpsGo (List.range g.vs.length) g [] []

def removeJumps (g : BGraph) : Except String BGraph :=
  match removeJumpsRaw g with
  | .error e => .error e
  | .ok (g', del, _) => .ok (g'.deleteVs del)

/-- state in front of the second `delete_vertices` -/
def removeLabelsRaw (labels : List Lbl) (g : BGraph) : Except String (BGraph × List Nat × List Byp) :=
  BGraph.labelsGo labels (List.range g.vs.length) g [] []

def removeLabels (labels : List Lbl) (g : BGraph) : Except String BGraph :=
  match removeLabelsRaw labels g with
  | .error e => .error e
  | .ok (g', del, _) => .ok (g'.deleteVs del)

/-- `remove_label_markers` for one routine graph -/
def removeLabelMarkers (labels : List Lbl) (g : BGraph) : Except String BGraph :=
  match removeJumps g with
  | .error e => .error e
  | .ok g1 => removeLabels labels g1

end ESV.Decomp
