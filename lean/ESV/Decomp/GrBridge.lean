import ESV.Decomp.GrEnc
/-
The bridge between the two readings of an if: on a graph whose marked vertices are plain ifs with exactly two
out-edges, the lower one flagged else (`bridgeOk` - what `build_branches` leaves behind), the flag-based `stepP` at
`(v, 0)` is the level-based `stepE` at `v`.
-/
namespace ESV.Decomp.Gr
open ESV.Beh ESV.Decomp ESV.Decomp.Opt

theorem insertBy_map {α β : Type} (lt : α → α → Bool) (lt' : β → β → Bool) (f : α → β)
    (h : ∀ x y, lt' (f x) (f y) = lt x y) (x : α) (l : List α) :
    insertBy lt' (f x) (l.map f) = (insertBy lt x l).map f := by
  induction l with
  | nil => rfl
  | cons y ys ih =>
    simp only [List.map_cons, insertBy, h]
    split
    · rfl
    · rw [List.map_cons, ih]

theorem sortBy_map {α β : Type} (lt : α → α → Bool) (lt' : β → β → Bool) (f : α → β)
    (h : ∀ x y, lt' (f x) (f y) = lt x y) (l : List α) : sortBy lt' (l.map f) = (sortBy lt l).map f := by
  induction l with
  | nil => rfl
  | cons y ys ih =>
    have e1 : sortBy lt' ((y :: ys).map f) = insertBy lt' (f y) (sortBy lt' (ys.map f)) := rfl
    have e2 : sortBy lt (y :: ys) = insertBy lt y (sortBy lt ys) := rfl
    rw [e1, e2, ih, insertBy_map lt lt' f h]

/-- igraph's incident order does not see the flags -/
theorem outEdges_toGraph (g : BGraph) (v : Nat) :
    outEdges g.toGraph v = (g.outEs v).map fun p => (p.1, p.2.toEdge) := by
  unfold outEdges BGraph.outEs
  rw [← sortBy_map (fun a b => a.2.dst < b.2.dst || (a.2.dst == b.2.dst && a.1 > b.1))
    (fun a b => a.2.dst < b.2.dst || (a.2.dst == b.2.dst && a.1 > b.1)) (fun p : Nat × BEdge => (p.1, p.2.toEdge))
    (fun x y => rfl)]
  congr 1
  unfold BGraph.toGraph
  simp only [List.zipIdx_map, List.filter_map, List.map_map]
  rfl

theorem lowest_two (g : Graph) (v : Nat) (ia ib : Nat) (a b : Edge) (h : outEdges g v = [(ia, a), (ib, b)]) :
    g.lowest v = some (if b.level < a.level then b else a) := by
  unfold Graph.lowest; rw [h]; simp only [List.map_cons, List.map_nil, List.foldl_cons, List.foldl_nil]
  split <;> rfl

theorem highest_two (g : Graph) (v : Nat) (ia ib : Nat) (a b : Edge) (h : outEdges g v = [(ia, a), (ib, b)]) :
    g.highest v = some (if b.level > a.level then b else a) := by
  unfold Graph.highest; rw [h]; simp only [List.map_cons, List.map_nil, List.foldl_cons, List.foldl_nil]
  split <;> rfl

theorem stepP_plain (g : BGraph) (v : Nat) (h : g.isIfV v = false) :
    g.stepP (v, 0) = mapStep (fun w => (w, 0)) (g.toGraph.stepE v) := by
  unfold BGraph.stepP; simp [h]

theorem toGraph_vs_get' (g : BGraph) (v : Nat) : g.toGraph.vs[v]? = (g.vs[v]?).map (·.op) := by
  unfold BGraph.toGraph; simp

/-- the two readings agree at a vertex that passes `bridgeVertexOk` -/
theorem stepP_bridge_vertex (g : BGraph) (v : Nat) (hv : g.isIfV v = true) (h : bridgeVertexOk g v = true) :
    g.stepP (v, 0) = mapStep (fun w => (w, 0)) (g.toGraph.stepE v) := by
  unfold bridgeVertexOk at h
  split at h
  · rename_i nm r l call ifs ends ifOps isNot sws swe b1 b2 b3 b4 b5 b6 b7 heq
    simp only [Bool.and_eq_true, Bool.not_eq_true', List.isEmpty_iff] at h
    obtain ⟨⟨⟨hops, hnot⟩, hjump⟩, hedges⟩ := h
    subst hops; subst hnot
    split at hedges
    · rename_i ia a ib b hout
      have hoe : outEdges g.toGraph v = [(ia, a.toEdge), (ib, b.toEdge)] := by rw [outEdges_toGraph, hout]; rfl
      have hE : g.toGraph.stepE v = .test ⟨r.name, r.params⟩ (g.toGraph.jumpTarget v) (g.toGraph.fallOfJump v) := by
        unfold Graph.stepE; rw [toGraph_vs_get', heq]; simp [hjump]
      have hP : g.stepP (v, 0) = .test ⟨r.name, r.params⟩ (g.ifTarget v, 0) (g.elseTarget v, 0) := by
        unfold BGraph.stepP; simp [hv, heq, BGraph.ifStep, BGraph.testsOf, BGraph.takenOf, BGraph.notTakenOf]
      rw [hE, hP]
      simp only [mapStep]
      have hlo := lowest_two g.toGraph v ia ib _ _ hoe
      have hhi := highest_two g.toGraph v ia ib _ _ hoe
      simp only [Bool.or_eq_true, Bool.and_eq_true, decide_eq_true_eq, Bool.not_eq_true'] at hedges
      have la : a.toEdge.level = a.level := rfl
      have lb : b.toEdge.level = b.level := rfl
      rcases hedges with ⟨⟨hl, hae⟩, hbe⟩ | ⟨⟨hl, hbe⟩, hae⟩
      · have h1 : g.ifTarget v = b.dst := by
          unfold BGraph.ifTarget BGraph.firstIf; rw [hout]; simp [List.find?, hae, hbe]
        have h2 : g.elseTarget v = a.dst := by
          unfold BGraph.elseTarget BGraph.firstElse; rw [hout]; simp [List.find?, hae]
        have h3 : g.toGraph.jumpTarget v = b.dst := by
          unfold Graph.jumpTarget; rw [hhi, la, lb, if_pos hl]; rfl
        have h4 : g.toGraph.fallOfJump v = a.dst := by
          unfold Graph.fallOfJump; rw [hlo, hhi, la, lb, if_neg (by omega), if_pos hl]
          simp only [la, lb, if_pos hl]; rfl
        rw [h1, h2, h3, h4]
      · have h1 : g.ifTarget v = a.dst := by
          unfold BGraph.ifTarget BGraph.firstIf; rw [hout]; simp [List.find?, hae]
        have h2 : g.elseTarget v = b.dst := by
          unfold BGraph.elseTarget BGraph.firstElse; rw [hout]; simp [List.find?, hae, hbe]
        have h3 : g.toGraph.jumpTarget v = a.dst := by
          unfold Graph.jumpTarget; rw [hhi, la, lb, if_neg (by omega)]; rfl
        have h4 : g.toGraph.fallOfJump v = b.dst := by
          unfold Graph.fallOfJump; rw [hlo, hhi, la, lb, if_pos hl, if_neg (by omega)]
          simp only [la, lb, if_pos hl]; rfl
        rw [h1, h2, h3, h4]
    · cases hedges
  · cases h

theorem stepP_bridge (g : BGraph) (h : bridgeOk g = true) (v : Nat) :
    g.stepP (v, 0) = mapStep (fun w => (w, 0)) (g.toGraph.stepE v) := by
  cases hv : g.isIfV v with
  | false => exact stepP_plain g v hv
  | true =>
    apply stepP_bridge_vertex g v hv
    unfold bridgeOk at h
    rw [List.all_eq_true] at h
    have := h v (List.mem_range.mpr (isIfV_lt g v hv))
    simpa [hv] using this

/-- **bridge**: level-based and flag-based reading of a graph that passes `bridgeOk` behave alike, from every vertex -/
theorem bridge_equiv (g : BGraph) (h : bridgeOk g = true) (v : Nat) :
    Equivalent g.toGraph.ltsE g.ltsP v (v, 0) := by
  apply equiv_of_stepMap g.toGraph.ltsE g.ltsP (fun w => (w, 0)) (fun _ => True) ?_ v trivial
  intro a _
  refine ⟨stepP_bridge g h a, ?_⟩
  show allSucc (fun _ => True) (g.toGraph.stepE a)
  cases g.toGraph.stepE a <;> simp [allSucc]

end ESV.Decomp.Gr
