import ESV.Decomp.WrLfStep
/-
Label-free fragment: `IfWriteHandler.write_content` and `_build_else_if_chain` (`if_step`, `chain_step`).
-/
namespace ESV.Decomp.Wr
open ESV ESV.Beh ESV.Decomp ESV.Decomp.BGraph ESV.Decomp.Opt ESV.Comp

def evOfOp (t : MOp) : Ev := ⟨t.name, t.params⟩

/-- the test chain of one branch against the tests of an if vertex -/
theorem tests_eq (g : BGraph) (v : Nat) (x : BVertex) (hx : g.vs[v]? = some x) (hs : x.synthetic = false) (hsw : x.switchStart = none)
    (hi : isIfVertex x = true) (N : List Src.Node) (onT onN : Nat) (hT : EQ g N onT (g.takenOf v x, 0))
    (hN : EQ g N onN (g.notTakenOf v x, 0)) :
    ∀ (ts : List MOp) (j e : Nat), (testsOf x).drop j = ts → ts ≠ [] → SpecT N (ts.map evOfOp) e onT onN → EQ g N e (v, j) := by
  intro ts
  induction ts with
  | nil => intro j e _ hne; exact absurd rfl hne
  | cons t rest ih =>
    intro j e hd _ hS
    have hlen : (testsOf x).length = j + 1 + rest.length := by
      have := congrArg List.length hd
      simp only [List.length_drop, List.length_cons] at this
      omega
    have hget : (testsOf x)[j]? = some t := by
      have := congrArg List.head? hd
      simpa [List.head?_drop] using this
    have hd' : (testsOf x).drop (j + 1) = rest := by
      have := congrArg List.tail hd
      simpa [List.tail_drop] using this
    have hstep := stepPL_if g v j x hx hs (isSwitchVertex_none hsw) hi
    simp only [BGraph.ifStep, hget] at hstep
    simp only [List.map_cons] at hS
    cases hS with
    | cons hNode hRest =>
      cases rest with
      | nil =>
        simp only [List.map_nil] at hRest
        cases hRest
        have : ¬ (j + 1 < (testsOf x).length) := by simp at hlen; omega
        simp only [this, if_false] at hstep
        exact Equivalent.of_test (nodeStep_of hNode) hstep hT hN
      | cons t' rest' =>
        have : j + 1 < (testsOf x).length := by simp at hlen; omega
        simp only [this, if_true] at hstep
        exact Equivalent.of_test (nodeStep_of hNode) hstep hT (ih (j + 1) _ hd' (by simp) hRest)

theorem mapM_tests (perf : String) : ∀ (l : List MOp) (ts : List (Ev × Option String)), l.mapM (lowerTest perf) = .ok ts →
    l.all (testIdOk perf) = true → ts.map (·.1) = l.map evOfOp
  | [], ts, h, _ => by simp [List.mapM_nil] at h; cases h; rfl
  | t :: rest, ts, h, hall => by
    simp only [List.all_cons, Bool.and_eq_true] at hall
    rw [List.mapM_cons] at h
    cases h1 : lowerTest perf t with
    | error e => simp [h1] at h; cases h
    | ok a =>
      cases h2 : rest.mapM (lowerTest perf) with
      | error e => simp [h1, h2] at h; cases h
      | ok as =>
        simp only [h1, h2] at h
        cases h
        have ha : a.1 = evOfOp t := by
          have := hall.1
          simp only [testIdOk, h1, beq_iff_eq] at this
          exact this
        simp [ha, mapM_tests perf rest as h2 hall.2]

/-- what `_write_if_header` delivers at an if vertex of the fragment -/
theorem ifHeader_lf (perf : String) (g : BGraph) (v : Nat) (x : BVertex) (r0 : MOp) (lbl id : Nat) (hf : LfIf perf x r0 lbl id)
    (ifE elseE : Nat × BEdge) (tests : List Ev) (b : Option String) (h : ifHeader g perf v x = .ok (ifE, elseE, tests, b)) :
    tests = (testsOf x).map evOfOp ∧ g.ifTarget v = ifE.2.dst ∧ g.elseTarget v = elseE.2.dst := by
  unfold ifHeader at h
  simp only [hf.op] at h
  cases hm : (r0 :: x.ifOps).mapM (lowerTest perf) with
  | error e => simp [hm] at h
  | ok ts =>
    simp only [hm] at h
    cases he : g.firstElse v with
    | none => simp [he] at h
    | some el =>
      simp only [he] at h
      cases hi : g.firstIf v with
      | none => simp [hi] at h
      | some ie =>
        simp only [hi, Except.ok.injEq, Prod.mk.injEq] at h
        obtain ⟨rfl, rfl, rfl, _⟩ := h
        refine ⟨?_, by simp [BGraph.ifTarget, hi], by simp [BGraph.elseTarget, he]⟩
        rw [mapM_tests perf _ ts hm hf.tests]
        simp [testsOf, hf.op]

theorem isIfVertex_lf {perf : String} {x : BVertex} {r0 : MOp} {lbl id : Nat} (hf : LfIf perf x r0 lbl id) : isIfVertex x = true := by
  simp [isIfVertex, hf.op, hf.ifs]

theorem testsOf_ne {perf : String} {x : BVertex} {r0 : MOp} {lbl id : Nat} (hf : LfIf perf x r0 lbl id) : testsOf x ≠ [] := by
  simp [testsOf, hf.op]

/-- one branch of an if / elseif: its test chain behaves like the if vertex when the body behaves like the if-target and the rest
like the else-target -/
theorem branch_eq (perf : String) (g : BGraph) (v : Nat) (x : BVertex) (r0 : MOp) (lbl id : Nat) (hx : g.vs[v]? = some x)
    (hf : LfIf perf x r0 lbl id) (ifE elseE : Nat × BEdge) (hit : g.ifTarget v = ifE.2.dst) (het : g.elseTarget v = elseE.2.dst)
    (N : List Src.Node) (e be re : Nat)
    (hT : if x.isNot then SpecT N ((testsOf x).map evOfOp) e re be else SpecT N ((testsOf x).map evOfOp) e be re)
    (hbe : EQ g N be (ifE.2.dst, 0)) (hre : EQ g N re (elseE.2.dst, 0)) : EQ g N e (v, 0) := by
  have hi := isIfVertex_lf hf
  cases hn : x.isNot with
  | true =>
    simp only [hn, if_true] at hT
    exact tests_eq g v x hx hf.syn hf.sw hi N re be (by simp [BGraph.takenOf, hn, het]; exact hre)
      (by simp [BGraph.notTakenOf, hn, hit]; exact hbe) (testsOf x) 0 e (by simp) (testsOf_ne hf) hT
  | false =>
    simp only [hn, Bool.false_eq_true, if_false] at hT
    exact tests_eq g v x hx hf.syn hf.sw hi N be re (by simp [BGraph.takenOf, hn, hit]; exact hbe)
      (by simp [BGraph.notTakenOf, hn, het]; exact hre) (testsOf x) 0 e (by simp) (testsOf_ne hf) hT

theorem isLabelWithIfEnd_lf {perf : String} {g : BGraph} (hg : lfGraph perf g = true) (t id : Nat) : isLabelWithIfEnd g t id = false := by
  unfold isLabelWithIfEnd
  cases ht : g.vs[t]? with
  | none => rfl
  | some tx => simp [lf_not_label (lfGraph_vertex hg ht)]

end ESV.Decomp.Wr

namespace ESV.Decomp.Wr
open ESV ESV.Beh ESV.Decomp ESV.Decomp.BGraph ESV.Decomp.Opt ESV.Comp

theorem chain_step (perf : String) (g : BGraph) (hg : lfGraph perf g = true) (fuel : Nat) (hB : PBlock perf g fuel)
    (hC : PChain perf g fuel) : PChain perf g (fuel + 1) := by
  intro ind v id inEdge branches ae conts σ c hw
  rw [wChain.eq_def] at hw
  simp only at hw
  cases htx : g.vs[inEdge.2.dst]? with
  | none => simp [htx] at hw
  | some tx =>
    simp only [htx] at hw
    have hv := lfGraph_vertex hg htx
    by_cases hj : isJumpObj tx = true
    · obtain ⟨r0, lbl, mid, hf⟩ := lfIf_of hv hj
      simp only [hj, if_true, hf.marker] at hw
      cases hh : ifHeader g perf inEdge.2.dst tx with
      | error e => simp [hh] at hw
      | ok hd =>
        obtain ⟨ifE, elseE, tests, b⟩ := hd
        simp only [hh] at hw
        obtain ⟨htests, hit, het⟩ := ifHeader_lf perf g inEdge.2.dst tx r0 lbl mid hf ifE elseE tests b hh
        split at hw
        · cases hw
        · cases hr : wBlock fuel g perf (ind + 1) (EndCheck.ifEnd id) (some v) false (some ifE.2.dst) true [] none {} []
              (σ.addBad b) with
          | error e => simp [hr] at hw
          | ok r =>
            simp only [hr] at hw
            obtain ⟨hrn, code, hout, hlf, hcl⟩ := hB _ _ _ _ _ _ _ _ _ _ _ r (Or.inr ⟨id, rfl⟩) hr
            simp only [List.nil_append] at hout
            simp only [isLabelWithIfEnd_lf hg, Bool.not_false, Bool.or_true, if_true] at hw
            split at hw
            · cases hw
            · obtain ⟨e', more, h1, h2, h3, h4, h5⟩ := hC _ _ _ _ _ _ _ _ c hw
              refine ⟨e', (tx.isNot, tests, r.out) :: more, h1, ?_, by rw [h3]; simp, ?_, ?_⟩
              · rw [h2, hrn]; cases ae <;> rfl
              · simp only [Branches.ofList, lf0B, Bool.and_eq_true]
                exact ⟨by rw [hout]; exact hlf, h4⟩
              · intro labs N re k ee hS hk hee
                simp only [Branches.ofList] at hS
                have hbody : ∀ be, SpecL labs N (Stmts.ofList r.out) be k → EQ g N be (ifE.2.dst, 0) := fun be hb =>
                  hcl labs N be k (by rw [← hout]; exact hb) hk
                subst htests
                cases hn : tx.isNot with
                | true =>
                  rw [hn] at hS
                  cases hS with
                  | consNeg hR hBd hT =>
                    exact branch_eq perf g _ tx r0 lbl mid htx hf ifE elseE hit het N _ _ _ (by simp only [hn, if_true]; exact hT)
                      (hbody _ hBd) (h5 labs N _ k ee hR hk hee)
                | false =>
                  rw [hn] at hS
                  cases hS with
                  | consPos hR hBd hT =>
                    exact branch_eq perf g _ tx r0 lbl mid htx hf ifE elseE hit het N _ _ _
                      (by simp only [hn, Bool.false_eq_true, if_false]; exact hT) (hbody _ hBd) (h5 labs N _ k ee hR hk hee)
    · simp only [hj, Bool.false_eq_true, if_false] at hw
      cases hw
      refine ⟨inEdge, [], rfl, rfl, by simp, rfl, ?_⟩
      intro labs N re k ee hS _ hee
      simp only [Branches.ofList] at hS
      cases hS
      exact hee

end ESV.Decomp.Wr

namespace ESV.Decomp.Wr
open ESV ESV.Beh ESV.Decomp ESV.Decomp.BGraph ESV.Decomp.Opt ESV.Comp

theorem if_step (perf : String) (g : BGraph) (hg : lfGraph perf g = true) (fuel : Nat) (hB : PBlock perf g fuel)
    (hC : PChain perf g fuel) : PIf perf g (fuel + 1) := by
  intro ind v x id σ r hx hj hw
  obtain ⟨r0, lbl, id', hf⟩ := lfIf_of (lfGraph_vertex hg hx) hj
  rw [wIf.eq_def] at hw
  simp only at hw
  cases hh : ifHeader g perf v x with
  | error e => simp [hh] at hw
  | ok hd =>
    obtain ⟨ifE, elseE, tests, b⟩ := hd
    simp only [hh] at hw
    obtain ⟨htests, hit, het⟩ := ifHeader_lf perf g v x r0 lbl id' hf ifE elseE tests b hh
    split at hw
    · cases hw
    · cases hr : wBlock fuel g perf (ind + 1) (EndCheck.ifEnd id) (some v) false (some ifE.2.dst) true [] none {} []
          (σ.addBad b) with
      | error e => simp [hr] at hw
      | ok rIf =>
        simp only [hr] at hw
        obtain ⟨hrn, code, hout, hlf, hcl⟩ := hB _ _ _ _ _ _ _ _ _ _ _ rIf (Or.inr ⟨id, rfl⟩) hr
        simp only [List.nil_append] at hout
        simp only [isLabelWithIfEnd_lf hg, Bool.false_eq_true, if_false, hrn, Option.toList_none] at hw
        cases hc : wChain fuel g perf ind v id elseE [] none [] rIf.st with
        | error e => simp [hc] at hw
        | ok c =>
          simp only [hc] at hw
          obtain ⟨e', more, h1, h2, h3, h4, h5⟩ := hC _ _ _ _ _ _ _ _ c hc
          simp only [h1] at hw
          cases hre : wBlock fuel g perf (ind + 1) (EndCheck.ifEnd id) (some v) false (some e'.2.dst) true [] none {} [] c.st with
          | error e => simp [hre] at hw
          | ok rElse =>
              simp only [hre] at hw
              obtain ⟨hen, ecode, heout, helf, hecl⟩ := hB _ _ _ _ _ _ _ _ _ _ _ rElse (Or.inr ⟨id, rfl⟩) hre
              simp only [List.nil_append] at heout
              split at hw
              · cases hw
              · split at hw
                · cases hw
                · cases hw
                  simp only [hen, h2, h3, List.nil_append, Option.isSome_some, Option.getD_some]
                  refine ⟨?_, ?_⟩
                  · apply lf0L_single
                    simp only [lf0, Branches.ofList, lf0B, Bool.and_eq_true]
                    exact ⟨⟨⟨by rw [hout]; exact hlf, h4⟩, by rw [heout]; exact helf⟩, by simp⟩
                  · intro labs N e m hS hm
                    have hS' := specL_single hS
                    simp only [Branches.ofList] at hS'
                    subst htests
                    cases hS' with
                    | iteElse hE hBr =>
                      have hee := hecl labs N _ m (by rw [← heout]; exact hE) hm
                      have hbody : ∀ be, SpecL labs N (Stmts.ofList rIf.out) be m → EQ g N be (ifE.2.dst, 0) := fun be hb =>
                        hcl labs N be m (by rw [← hout]; exact hb) hm
                      cases hn : x.isNot with
                      | true =>
                        rw [hn] at hBr
                        cases hBr with
                        | consNeg hR hBd hT =>
                          exact branch_eq perf g v x r0 lbl id' hx hf ifE elseE hit het N _ _ _ (by simp only [hn, if_true]; exact hT)
                            (hbody _ hBd) (h5 labs N _ m _ hR hm hee)
                      | false =>
                        rw [hn] at hBr
                        cases hBr with
                        | consPos hR hBd hT =>
                          exact branch_eq perf g v x r0 lbl id' hx hf ifE elseE hit het N _ _ _
                            (by simp only [hn, Bool.false_eq_true, if_false]; exact hT) (hbody _ hBd) (h5 labs N _ m _ hR hm hee)

end ESV.Decomp.Wr
