import ESV.Decomp.Group
import ESV.Decomp.OptLts
/-
Meaning of the graphs from `build_branches` on: the two out-edges of an if are identified by the edge attribute
`is_else`, not by their flow levels, an if may test several conditions in a row (`MultiIfStart`, "if a || b") and
may be inverted (`is_not`, "if not (c)").

States of `stepP` are pairs (vertex, number of the test about to be performed); `(v, 0)` is "at vertex v"; `stepB` is the
same system on the encoded state space `v + (n+2)·j` (`n` = number of vertices; `n` = fell off, `n+1` = stuck, as before).  A label jump with
an `IfStart` marker performs its tests `t_0 … t_k` (`op` root first, then `ifOps`): test `t_j` taken → the TAKEN
successor, not taken → test `t_{j+1}`, after the last one → the NOT-TAKEN successor; TAKEN = target of the first
out-edge (igraph order) without `is_else`, NOT-TAKEN = target of the first out-edge with `is_else`, exchanged when
`is_not` is set.  Every other vertex keeps the level-based reading of `Graph.stepE`.
-/
namespace ESV.Decomp
open ESV.Beh ESV.Decomp.Opt

namespace BGraph

/-- target of the first out-edge without `is_else`; no such edge: stuck -/
def ifTarget (g : BGraph) (v : Nat) : Nat :=
  match g.firstIf v with
  | some (_, e) => e.dst
  | none => g.toGraph.stuck

/-- target of the first out-edge with `is_else`; no such edge: stuck -/
def elseTarget (g : BGraph) (v : Nat) : Nat :=
  match g.firstElse v with
  | some (_, e) => e.dst
  | none => g.toGraph.stuck

/-- the conditions an if vertex tests, in order -/
def testsOf (x : BVertex) : List MOp :=
  match x.op with
  | .item (.ljump r _ _) => r :: x.ifOps
  | _ => []

def takenOf (g : BGraph) (v : Nat) (x : BVertex) : Nat := if x.isNot then g.elseTarget v else g.ifTarget v
def notTakenOf (g : BGraph) (v : Nat) (x : BVertex) : Nat := if x.isNot then g.ifTarget v else g.elseTarget v

/-- the if vertex `v` (attributes `x`) about to perform its `j`-th test -/
def ifStep (g : BGraph) (v j : Nat) (x : BVertex) : Step (Nat × Nat) Ev :=
  match (testsOf x)[j]? with
  | some t =>
    .test ⟨t.name, t.params⟩ (g.takenOf v x, 0)
      (if j + 1 < (testsOf x).length then (v, j + 1) else (g.notTakenOf v x, 0))
  | none => .halt evStuck

def stepP (g : BGraph) (s : Nat × Nat) : Step (Nat × Nat) Ev :=
  if g.isIfV s.1 then
    match g.vs[s.1]? with
    | some x => g.ifStep s.1 s.2 x
    | none => .halt evStuck
  else if s.2 = 0 then mapStep (fun v => (v, 0)) (g.toGraph.stepE s.1)
  else .halt evStuck

def ltsP (g : BGraph) : LTS Ev := ⟨Nat × Nat, g.stepP⟩

/-- `(v, j)` ↦ `v + (n+2)·j`; vertex numbers beyond `n+1` (all of them "stuck") are identified with `n+1` -/
def enc (g : BGraph) (p : Nat × Nat) : Nat := min p.1 (g.vs.length + 1) + (g.vs.length + 2) * p.2

def dec (g : BGraph) (s : Nat) : Nat × Nat := (s % (g.vs.length + 2), s / (g.vs.length + 2))

/-- the same system on natural numbers (the state space of the verified checker) -/
def stepB (g : BGraph) (s : Nat) : Step Nat Ev := mapStep g.enc (g.stepP (g.dec s))

def ltsB (g : BGraph) : LTS Ev := ⟨Nat, g.stepB⟩

end BGraph
end ESV.Decomp
