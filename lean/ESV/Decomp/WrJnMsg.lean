import ESV.Decomp.WrJnDefs
/-
"Ifs that join", message switches: `message_SwitchTalk ($X) { case 1: 'a' default: 'b' }` is written for the op and the
`CaseText` / `DefaultText` ops behind it (`MesageSwitchSimpleOpWriteHandler`, `MesageSwitchCasesSimpleOpWriteHandler`) and read back
as those ops, the cases before the defaults.  On the graph they are plain ops one after the other.
-/
namespace ESV.Decomp.Wr
open ESV ESV.Beh ESV.Decomp ESV.Decomp.BGraph ESV.Decomp.Opt ESV.Comp

def msgCases : List String := ["CaseText", "DefaultText"]

theorem kind_of_case (name : String) (h : msgCases.contains name = true) : simpleKind name = .msgCase := by
  have : name = "CaseText" ∨ name = "DefaultText" := by simpa [msgCases] using h
  rcases this with rfl | rfl <;> decide

theorem case_of_kind (name : String) (h : simpleKind name = .msgCase) : name = "CaseText" ∨ name = "DefaultText" := by
  unfold simpleKind at h
  split at h
  · cases h
  · split at h
    · cases h
    · split at h
      · cases h
      · split at h
        · rename_i hc
          simpa [ESV.Gen.op_case_text, ESV.Gen.op_default_text] using hc
        · split at h <;> cases h

theorem switch_of_kind (name : String) (h : simpleKind name = .msgSwitch) :
    name = "message_SwitchTalk" ∨ name = "message_SwitchMonologue" := by
  unfold simpleKind at h
  split at h
  · cases h
  · split at h
    · cases h
    · split at h
      · rename_i hc
        have := hc
        simp [ESV.Gen.opsSwitchTextCaseMap] at this
        rcases this with rfl | rfl <;> simp
      · split at h
        · cases h
        · split at h <;> cases h

theorem endsFlow_of_case (name : String) (h : simpleKind name = .msgCase ∨ simpleKind name = .msgSwitch) : endsFlow name = false := by
  rcases h with h | h
  · rcases case_of_kind name h with rfl | rfl <;> decide
  · rcases switch_of_kind name h with rfl | rfl <;> decide

/-- no default in front of a case: the parser's reading (cases first, then defaults) keeps the order -/
def orderedCases : List Src.Stmt → Bool
  | [] => true
  | s :: r => (!isDefaultStmt s || r.all isDefaultStmt) && orderedCases r

theorem filter_ordered : ∀ (l : List Src.Stmt), orderedCases l = true →
    (l.filter fun s => !isDefaultStmt s) ++ l.filter isDefaultStmt = l
  | [], _ => rfl
  | s :: r, h => by
    simp only [orderedCases, Bool.and_eq_true, Bool.or_eq_true, Bool.not_eq_true'] at h
    have ih := filter_ordered r h.2
    cases hd : isDefaultStmt s with
    | false => simp [List.filter, hd, ih]
    | true =>
      have hall : r.all isDefaultStmt = true := by
        rcases h.1 with h1 | h1
        · rw [hd] at h1; cases h1
        · exact h1
      have h1 : r.filter (fun s => !isDefaultStmt s) = [] := by
        rw [List.filter_eq_nil_iff]; intro a ha; simp [List.all_eq_true.mp hall a ha]
      have h2 : r.filter isDefaultStmt = r := by
        rw [List.filter_eq_self]; intro a ha; exact List.all_eq_true.mp hall a ha
      rw [List.filter_cons, List.filter_cons]
      simp [hd, h1, h2]

/-- the vertex is no `CaseText` op -/
def notCaseText (g : BGraph) : Option Nat → Prop
  | some w => ∀ x o, g.vs[w]? = some x → x.op = .item (.op o) → o.name ≠ ESV.Gen.op_case_text
  | none => True

/-- `MesageSwitchCasesSimpleOpWriteHandler` at a case of a message switch -/
theorem msgcase_claim (perf : String) (g : BGraph) (fuel ind v : Nat) (x : BVertex) (o : MOp) (σ : WSt) (r : VRes)
    (hx : g.vs[v]? = some x) (hop : x.op = .item (.op o)) (hs : x.synthetic = false) (hsw : x.switchStart = none)
    (hk : simpleKind o.name = .msgCase) (hm : msgCaseOk g v o = true) (hw : wPlain (fuel + 1) g perf ind v o true σ = .ok r) :
    r.out = [.op o.name o.params] ∧ r.eoj = false ∧ exits01 g v = .ok r.next ∧ VClaim g v r := by
  rw [wPlain] at hw
  simp only [hk, Bool.not_true, Bool.false_eq_true, if_false] at hw
  have hstmt : ∃ b, lowerMsgCase o = .ok (some (.op o.name o.params), b) := by
    unfold msgCaseOk at hm
    unfold lowerMsgCase
    rcases case_of_kind o.name hk with hnm | hnm
    · have hn : (o.name == ESV.Gen.op_case_text) = true := by simp [hnm, ESV.Gen.op_case_text]
      simp only [hn, if_true, beq_iff_eq] at hm ⊢
      match hp : o.params, hm with
      | [p0, p1], _ =>
        simp only [param, hnm, List.getElem?_cons_zero, List.getElem?_cons_succ, bind, Except.bind, pure, Except.pure]
        exact ⟨_, rfl⟩
    · have hn' : (o.name == ESV.Gen.op_case_text) = false := by simp [hnm, ESV.Gen.op_case_text]
      have hd : (o.name == ESV.Gen.op_default_text) = true := by simp [hnm, ESV.Gen.op_default_text]
      simp only [hn', Bool.false_eq_true, if_false, Bool.and_eq_true, beq_iff_eq, hd, if_true] at hm ⊢
      match hp : o.params, hm.1 with
      | [p0], _ =>
        simp only [param, hnm, List.getElem?_cons_zero, bind, Except.bind, pure, Except.pure]
        exact ⟨_, rfl⟩
  obtain ⟨b, hb⟩ := hstmt
  split at hw
  · cases hw
  · split at hw
    · cases hw
    · simp only [hb] at hw
      cases hn : exits01 g v with
      | error e => simp [hn] at hw
      | ok n =>
        simp only [hn, Option.toList_some, Except.ok.injEq] at hw
        subst hw
        refine ⟨rfl, rfl, rfl, fun labs N e m hS h1 h0 => ?_⟩
        have hef := endsFlow_of_case o.name (.inl hk)
        exact op_eq g v x o hx hop hs hsw (by simp [hef]) (not_jump_of_kind o.name (by rw [hk]; decide)) n hn labs N e m
          (specL_single hS) h1 h0

end ESV.Decomp.Wr

namespace ESV.Decomp.Wr
open ESV ESV.Beh ESV.Decomp ESV.Decomp.BGraph ESV.Decomp.Opt ESV.Comp

/-- the block of a message switch: `CaseText` / `DefaultText` ops one after the other, until another op (or nothing) follows -/
def MBlock (perf : String) (g : BGraph) (fuel : Nat) : Prop :=
  ∀ ind vsb cur first written prev last acc σ r,
    wBlock fuel g perf ind (.msg msgCases) vsb true cur first written prev last acc σ = .ok r →
    ∃ code, r.out = acc ++ code ∧ lf0L (Stmts.ofList code) = true ∧ noJumpL (Stmts.ofList code) = true ∧
      (notCaseText g cur → code.all isDefaultStmt = true) ∧ orderedCases code = true ∧
      ∀ labs N e k, SpecL labs N (Stmts.ofList code) e k → (∀ w, r.next = some w → EQ g N k (w, 0)) →
        (r.next = none → EQ g N k (st g none)) → EQ g N e (st g cur)

theorem isDefault_of_name (o : MOp) (h : o.name = "DefaultText") : isDefaultStmt (.op o.name o.params) = true := by
  simp [isDefaultStmt, h]

theorem mblock_all (perf : String) (g : BGraph) (hg : jnGraph perf g = true) : ∀ fuel, MBlock perf g fuel
  | 0 => by intro _ _ _ _ _ _ _ _ _ _ hw; rw [wBlock.eq_def] at hw; cases hw
  | fuel + 1 => by
    have ih := mblock_all perf g hg fuel
    intro ind vsb cur first written prev last acc σ r hw
    rw [wBlock.eq_def] at hw
    simp only at hw
    cases cur with
    | none =>
      simp only [EndCheck.disallowNested, Bool.not_true, Bool.and_false, Bool.false_eq_true, if_false, Except.ok.injEq] at hw
      subst hw
      refine ⟨[], by simp, rfl, rfl, fun _ => rfl, rfl, fun labs N e k hS _ h0 => ?_⟩
      simp only [Stmts.ofList] at hS
      cases hS
      exact h0 rfl
    | some w =>
      simp only at hw
      split at hw
      · cases hw
      · cases hx : g.vs[w]? with
        | none => simp [hx] at hw
        | some x =>
          simp only [hx] at hw
          cases hh : hinfoOf x with
          | error e => simp [hh] at hw
          | ok h =>
            simp only [hh] at hw
            by_cases hgo : (EndCheck.msg msgCases).goesOn x first = true
            · -- a case of the message switch
              simp only [hgo, Bool.not_true, Bool.false_eq_true, if_false] at hw
              have hv := jnGraph_vertex hg hx
              obtain ⟨o, hpk, hin⟩ : ∃ o, pyKind x = .plain o ∧ msgCases.contains o.name = true := by
                unfold EndCheck.goesOn at hgo
                cases hp : pyKind x with
                | plain o => simp only [hp] at hgo; exact ⟨o, rfl, hgo⟩
                | label i => simp [hp] at hgo
                | foreign i => simp [hp] at hgo
                | jump => simp [hp] at hgo
              have hkind := kind_of_case o.name hin
              -- the facts of the fragment for a case vertex
              obtain ⟨hop, hs, hsw, hmv⟩ : x.op = .item (.op o) ∧ x.synthetic = false ∧ x.switchStart = none ∧ msgCaseOk g w o = true := by
                cases jnKind_of hv with
                | plain o' hop hs hsw hpv =>
                  have : pyKind x = .plain o' := by unfold pyKind isJumpObj; simp [hs, hop, hsw]
                  rw [this] at hpk; cases hpk
                  unfold plainVertexOk at hpv
                  simp [plainIdOk, hkind] at hpv
                | msg o' hop hs hsw hm =>
                  have : pyKind x = .plain o' := by unfold pyKind isJumpObj; simp [hs, hop, hsw]
                  rw [this] at hpk; cases hpk
                  unfold msgVertexOk at hm
                  simp only [hkind] at hm
                  exact ⟨hop, hs, hsw, hm⟩
                | ifv r0 lbl id hf _ => simp [pyKind, isJumpObj, hf.op] at hpk
                | jmp r0 lbl hop _ _ _ _ _ => simp [pyKind, isJumpObj, hop] at hpk
                | label id hop hs hsw _ => simp [pyKind, isJumpObj, hs, hop, hsw] at hpk
              have hne : (SimpleKind.msgCase != SimpleKind.ctx) = true := rfl
              simp only [hpk, hkind, hne, EndCheck.disallowNested, Bool.not_true, Bool.and_false, Bool.false_eq_true, if_false] at hw
              cases hr1 : wVertex fuel g perf ind w x vsb first true σ with
              | error e => simp [hr1] at hw
              | ok r1 =>
                simp only [hr1] at hw
                -- the handler of the case
                have hcl : r1.out = [.op o.name o.params] ∧ r1.eoj = false ∧ exits01 g w = .ok r1.next ∧ VClaim g w r1 := by
                  cases fuel with
                  | zero => rw [wVertex.eq_def] at hr1; cases hr1
                  | succ f =>
                    rw [wVertex] at hr1
                    simp only [hpk] at hr1
                    cases f with
                    | zero => rw [wPlain.eq_def] at hr1; cases hr1
                    | succ f' => exact msgcase_claim perf g f' ind w x o σ r1 hx hop hs hsw hkind hmv hr1
                obtain ⟨hout1, _, hex, hv1⟩ := hcl
                obtain ⟨code', hout', hlf', hnj', hdef', hord', hcl'⟩ := ih _ _ _ _ _ _ _ _ _ r hw
                refine ⟨(.op o.name o.params) :: code', by rw [hout', hout1]; simp, ?_, ?_, ?_, ?_, ?_⟩
                · simp [Stmts.ofList, lf0L, lf0, hlf']
                · simp [Stmts.ofList, noJumpL, noJump, hnj']
                · -- behind a default only defaults
                  intro hnc
                  have hnm : o.name = "DefaultText" := by
                    rcases case_of_kind o.name hkind with h1 | h1
                    · exact absurd (by simp [h1, ESV.Gen.op_case_text]) (hnc x o hx hop)
                    · exact h1
                  have hnext : notCaseText g r1.next := by
                    unfold msgCaseOk at hmv
                    have hn' : (o.name == ESV.Gen.op_case_text) = false := by simp [hnm, ESV.Gen.op_case_text]
                    simp only [hn', Bool.false_eq_true, if_false, Bool.and_eq_true] at hmv
                    unfold exits01 at hex
                    cases hes : g.outEs w with
                    | nil => simp only [hes, Except.ok.injEq] at hex; rw [← hex]; trivial
                    | cons q rest =>
                      cases rest with
                      | cons _ _ => simp [hes] at hex
                      | nil =>
                        simp only [hes, Except.ok.injEq] at hex
                        rw [← hex]
                        intro tx o' htx htop
                        have := hmv.2
                        simp only [hes, htx, htop, bne_iff_ne, ne_eq] at this
                        exact this
                  simp only [List.all_cons, Bool.and_eq_true]
                  exact ⟨isDefault_of_name o hnm, hdef' hnext⟩
                · simp only [orderedCases, Bool.and_eq_true, Bool.or_eq_true, Bool.not_eq_true']
                  refine ⟨?_, hord'⟩
                  rcases case_of_kind o.name hkind with h1 | h1
                  · left; simp [isDefaultStmt, h1]
                  · right
                    -- (as above: behind a default only defaults)
                    have hnext : notCaseText g r1.next := by
                      unfold msgCaseOk at hmv
                      have hn' : (o.name == ESV.Gen.op_case_text) = false := by simp [h1, ESV.Gen.op_case_text]
                      simp only [hn', Bool.false_eq_true, if_false, Bool.and_eq_true] at hmv
                      unfold exits01 at hex
                      cases hes : g.outEs w with
                      | nil => simp only [hes, Except.ok.injEq] at hex; rw [← hex]; trivial
                      | cons q rest =>
                        cases rest with
                        | cons _ _ => simp [hes] at hex
                        | nil =>
                          simp only [hes, Except.ok.injEq] at hex
                          rw [← hex]
                          intro tx o' htx htop
                          have := hmv.2
                          simp only [hes, htx, htop, bne_iff_ne, ne_eq] at this
                          exact this
                    exact hdef' hnext
                · intro labs N e k hS h1 h0
                  simp only [Stmts.ofList] at hS
                  cases hS with
                  | cons hs1 hrest =>
                    have hm : EQ g N _ (st g r1.next) := hcl' labs N _ k hrest h1 h0
                    refine hv1 labs N e _ (by rw [hout1]; exact .cons hs1 .nil) (fun w' hw' => by rw [hw'] at hm; exact hm)
                      (fun hn _ => by rw [hn] at hm; exact hm)
            · -- another op: the block stops in front of it
              have hgo' : (!(EndCheck.msg msgCases).goesOn x first) = true := by simpa using hgo
              simp only [hgo', if_true, Option.isNone_some, Bool.false_and, Bool.false_eq_true, if_false, Except.ok.injEq] at hw
              subst hw
              refine ⟨[], by simp, rfl, rfl, fun _ => rfl, rfl, fun labs N e k hS h1 _ => ?_⟩
              simp only [Stmts.ofList] at hS
              cases hS
              exact h1 w rfl

/-- `MesageSwitchSimpleOpWriteHandler` at a message switch op -/
theorem msgswitch_claim (perf : String) (g : BGraph) (hg : jnGraph perf g = true) (fuel ind v : Nat) (x : BVertex) (o : MOp)
    (pm : Bool) (σ : WSt) (r : VRes) (hx : g.vs[v]? = some x) (hop : x.op = .item (.op o)) (hs : x.synthetic = false)
    (hsw : x.switchStart = none) (hk : simpleKind o.name = .msgSwitch) (hm : o.params.length = 1)
    (hw : wPlain (fuel + 1) g perf ind v o pm σ = .ok r) :
    lfL (Stmts.ofList r.out) = true ∧ noJumpL (Stmts.ofList r.out) = true ∧ r.eoj = false ∧ VClaim g v r := by
  rw [wPlain] at hw
  simp only [hk] at hw
  match hp : o.params, hm with
  | [p0], _ =>
    simp only [hp] at hw
    cases hes : g.outEs v with
    | nil => simp [hes] at hw
    | cons p rest =>
      cases rest with
      | cons _ _ => simp [hes] at hw
      | nil =>
        simp only [hes] at hw
        split at hw
        · cases hw
        · have hcases : msgCasesOf o.name = msgCases := by
            rcases switch_of_kind o.name hk with h1 | h1 <;> simp [h1, msgCasesOf, ESV.Gen.opsSwitchTextCaseMap, msgCases]
          simp only [hcases] at hw
          cases hr : wBlock fuel g perf (ind + 1) (.msg msgCases) (some v) true (some p.2.dst) true [] none {} []
              (σ.addBad (need (isIL p0) "message-switch")) with
          | error e => simp [hr] at hw
          | ok rb =>
            simp only [hr, Except.ok.injEq] at hw
            subst hw
            obtain ⟨code, hout, hlf, hnj, _, hord, hcl⟩ := mblock_all perf g hg fuel _ _ _ _ _ _ _ _ _ rb hr
            simp only [List.nil_append] at hout
            have hstm : msgSwitchStmts (.op o.name [p0]) rb.out = (.op o.name o.params) :: code := by
              unfold msgSwitchStmts
              rw [hout, List.cons_append, filter_ordered code hord, hp]
            simp only [hstm]
            refine ⟨?_, ?_, trivial, fun labs N e m hS h1 h0 => ?_⟩
            · simp [Stmts.ofList, lfL, lf, (lf0L_spec _ hlf).1]
            · simp [Stmts.ofList, noJumpL, noJump, hnj]
            · simp only [Stmts.ofList] at hS
              cases hS with
              | cons hs1 hrest =>
                have hef := endsFlow_of_case o.name (.inr hk)
                have hnjp := not_jump_of_kind o.name (by rw [hk]; decide)
                have hnd := needsDummy_op g v x o hx hop hs hsw hef hnjp
                have hm1 : EQ g N _ (p.2.dst, 0) := hcl labs N _ m hrest h1 (fun hn => h0 hn hnd)
                have hex : exits01 g v = .ok (some p.2.dst) := by simp [exits01, hes]
                exact op_eq g v x o hx hop hs hsw (by simp [hef]) hnjp (some p.2.dst) hex labs N e _ hs1
                  (fun w hw' => by cases hw'; exact hm1) (fun hn => by cases hn)

end ESV.Decomp.Wr
