import ESV.Decomp.Sem
import ESV.Props.Tables
/-
The guards of the base-graph theorem and what they give: directly behind a context op stands an op that is
not a guaranteed jump (`ctxGuard`); plain ops are not called Jump and roots of label jumps do not end the
flow, except Jump itself (`namesGuard`, true of everything `resolve` yields).
-/
namespace ESV.Decomp
open ESV.Beh


theorem namesGuard_at (items : List Item) (h : namesGuard items = true) (i : Nat) (it : Item)
    (hi : items[i]? = some it) : itemNameOk it = true := by
  unfold namesGuard at h
  rw [List.all_eq_true] at h
  exact h it (List.mem_of_getElem? hi)

theorem ctxGuard_tail (x : Item) (rest : List Item) (h : ctxGuard (x :: rest) = true) :
    ctxGuard rest = true := by
  cases rest with
  | nil => simp [ctxGuard]
  | cons nx r =>
    cases x with
    | op o => simp only [ctxGuard, Bool.and_eq_true] at h; exact h.2
    | label id => simpa [ctxGuard] using h
    | ljump a b c => simpa [ctxGuard] using h

/-- what stands directly behind a context op -/
def behindCtxOk : Item → Bool
  | .label _ => false
  | .op o' => !ESV.Spec.opsJumpGuaranteed.contains o'.name
  | .ljump _ _ _ => true

theorem ctxGuard_at : ∀ (items : List Item) (j : Nat) (c : MOp) (nx : Item), ctxGuard items = true →
    items[j]? = some (.op c) → isCtx c.name = true → items[j+1]? = some nx → behindCtxOk nx = true := by
  intro items
  induction items with
  | nil => intro j c nx _ h; simp at h
  | cons x rest ih =>
    intro j c nx hg hj hc hn
    cases j with
    | zero =>
      simp at hj; subst hj
      cases rest with
      | nil => simp at hn
      | cons y r =>
        simp at hn; subst hn
        simp only [ctxGuard, Bool.and_eq_true, hc] at hg
        have := hg.1
        cases y <;> simp [behindCtxOk] at this ⊢ <;> exact this
    | succ j =>
      exact ih j c nx (ctxGuard_tail x rest hg) (by simpa using hj) hc (by simpa using hn)

/-- under the guard `afterCtx` is decided by the item directly before -/
theorem afterCtx_prev (labels : List Lbl) (rid : Nat) (items : List Item) (hg : ctxGuard items = true) :
    ∀ j, RMachine.afterCtx ⟨labels, rid, items⟩ (j+1) = true →
      ∃ o, items[j]? = some (.op o) ∧ isCtx o.name = true := by
  intro j
  induction j with
  | zero =>
    intro h
    unfold RMachine.afterCtx at h
    simp only at h
    split at h
    · simp [RMachine.afterCtx] at h
    · rename_i o ho; exact ⟨o, ho, h⟩
    · simp at h
  | succ j ih =>
    intro h
    unfold RMachine.afterCtx at h
    simp only at h
    split at h
    · rename_i l hl
      obtain ⟨o, ho, hc⟩ := ih h
      have := ctxGuard_at items j o (.label l) hg ho hc hl
      simp [behindCtxOk] at this
    · rename_i o ho; exact ⟨o, ho, h⟩
    · simp at h

theorem graph_afterCtx_eq (labels : List Lbl) (rid : Nat) (items : List Item) (g : Graph) (fs : List VOp)
    (hvs : g.vs = items.map .item ++ fs) :
    ∀ v, v ≤ items.length → g.afterCtx v = RMachine.afterCtx ⟨labels, rid, items⟩ v := by
  intro v
  induction v with
  | zero => intro _; simp [Graph.afterCtx, RMachine.afterCtx]
  | succ j ih =>
    intro hv
    have hj : j < items.length := by omega
    have h1 : g.vs[j]? = some (.item items[j]) := by
      rw [hvs, List.getElem?_append_left (by simpa using hj)]; simp [hj]
    have h2 : items[j]? = some items[j] := by simp [hj]
    unfold Graph.afterCtx RMachine.afterCtx
    simp only [h1, h2]
    cases items[j] with
    | op o => rfl
    | label l => simp only; exact ih (by omega)
    | ljump a b c => rfl

/-! names of labels are not names of ops -/

theorem labelName_ne (id : Nat) (s : String) (h : s.toList.take 2 ≠ ['E', 'S']) :
    itemName (.label id) ≠ s := by
  intro he
  apply h
  rw [← he]
  simp [itemName, String.toList_append]

theorem realName_label (id : Nat) : realName (.label id) = itemName (.label id) := rfl

theorem label_not_endFlow (id : Nat) : ESV.Gen.opsEndFlow.contains (realName (.label id)) = false := by
  rw [ESV.TableTie.opsEndFlow_eq, realName_label]
  simp only [ESV.Spec.opsEndFlow, List.contains_eq_mem, List.mem_cons, List.not_mem_nil, or_false,
    decide_eq_false_iff_not, not_or]
  refine ⟨?_, ?_, ?_, ?_, ?_, ?_⟩ <;> exact labelName_ne id _ (by decide)

theorem label_not_guaranteed (id : Nat) : ESV.Gen.opsJumpGuaranteed.contains (realName (.label id)) = false := by
  rw [ESV.TableTie.opsJumpGuaranteed_eq, realName_label]
  simp only [ESV.Spec.opsJumpGuaranteed, List.contains_eq_mem, List.mem_cons, List.not_mem_nil, or_false,
    decide_eq_false_iff_not, not_or]
  refine ⟨?_, ?_⟩ <;> exact labelName_ne id _ (by decide)

end ESV.Decomp
