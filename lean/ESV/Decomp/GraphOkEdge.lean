import ESV.Decomp.GraphOkProof
/-
On a base graph the positional reading of "directly behind a context op" (`Graph.afterCtx`) and the edge-based
reading (`Graph.afterCtxE`) agree at every op vertex that is vertex 0 or the target of an edge; hence
`Graph.step` and `Graph.stepE` agree on all states reachable from vertex 0.
-/
namespace ESV.Decomp
open ESV.Beh ESV.Decomp.Bisim

/-! two transition systems over the same states whose steps agree on a closed set of states -/

def succAll {σ ε : Type} (P : σ → Prop) : Step σ ε → Prop
  | .silent n => P n
  | .emit _ n => P n
  | .test _ y n => P y ∧ P n
  | .halt _ => True

theorem sim_of_same_steps {σ ε : Type} (s1 s2 : σ → Step σ ε) (P : σ → Prop)
    (h : ∀ a, P a → s1 a = s2 a ∧ succAll P (s1 a)) :
    ∀ a, P a → Sim (⟨σ, s1⟩ : LTS ε) (⟨σ, s2⟩ : LTS ε) a a := by
  intro a ha
  apply sim_of_stepMatch (⟨σ, s1⟩ : LTS ε) (⟨σ, s2⟩ : LTS ε) (fun x y => x = y ∧ P x) _ a a ⟨rfl, ha⟩
  rintro x y ⟨rfl, hx⟩
  obtain ⟨heq, hsucc⟩ := h x hx
  cases hs : s1 x with
  | silent x' =>
    rw [hs] at hsucc heq
    exact stepMatch_silent (L₁ := (⟨σ, s1⟩ : LTS ε)) (L₂ := (⟨σ, s2⟩ : LTS ε)) hs
      ⟨1, x', ⟨x', heq.symm, rfl⟩, rfl, hsucc⟩
  | emit e x' =>
    rw [hs] at hsucc heq
    exact stepMatch_emit (L₁ := (⟨σ, s1⟩ : LTS ε)) (L₂ := (⟨σ, s2⟩ : LTS ε)) hs
      ⟨1, x', settle_emit (L := (⟨σ, s2⟩ : LTS ε)) 0 heq.symm, rfl, hsucc⟩
  | test e y n =>
    rw [hs] at hsucc heq
    exact stepMatch_test (L₁ := (⟨σ, s1⟩ : LTS ε)) (L₂ := (⟨σ, s2⟩ : LTS ε)) hs
      ⟨1, y, n, settle_test (L := (⟨σ, s2⟩ : LTS ε)) 0 heq.symm, ⟨rfl, hsucc.1⟩, ⟨rfl, hsucc.2⟩⟩
  | halt e =>
    rw [hs] at heq
    exact stepMatch_halt (L₁ := (⟨σ, s1⟩ : LTS ε)) (L₂ := (⟨σ, s2⟩ : LTS ε)) hs
      ⟨1, settle_halt (L := (⟨σ, s2⟩ : LTS ε)) 0 heq.symm⟩

theorem equivalent_of_same_steps {σ ε : Type} (s1 s2 : σ → Step σ ε) (P : σ → Prop)
    (h : ∀ a, P a → s1 a = s2 a ∧ succAll P (s1 a)) :
    ∀ a, P a → Equivalent (⟨σ, s1⟩ : LTS ε) (⟨σ, s2⟩ : LTS ε) a a := by
  intro a ha
  refine ⟨sim_of_same_steps s1 s2 P h a ha, sim_of_same_steps s2 s1 P ?_ a ha⟩
  intro x hx
  obtain ⟨h1, h2⟩ := h x hx
  exact ⟨h1.symm, h1 ▸ h2⟩

/-! successors read off the edges are edge targets, or one of the two states behind the vertices -/

/-- vertex 0, the target of an edge, or a state that is no vertex -/
def Reach (g : Graph) (a : Nat) : Prop := a = 0 ∨ (∃ e ∈ g.es, e.dst = a) ∨ g.vs.length ≤ a

theorem reach_fall (g : Graph) (v : Nat) : Reach g (g.fall v) := by
  unfold Graph.fall
  rcases lowest_spec g v with ⟨hn, _⟩ | ⟨e, he, hmem, _, _⟩
  · rw [hn]; exact Or.inr (Or.inr (Nat.le_refl _))
  · rw [he]; exact Or.inr (Or.inl ⟨e, hmem, rfl⟩)

theorem reach_jumpTarget (g : Graph) (v : Nat) : Reach g (g.jumpTarget v) := by
  unfold Graph.jumpTarget
  rcases highest_spec g v with ⟨hn, _⟩ | ⟨e, he, hmem, _, _⟩
  · rw [hn]; exact Or.inr (Or.inr (by simp [Graph.stuck]))
  · rw [he]; exact Or.inr (Or.inl ⟨e, hmem, rfl⟩)

theorem reach_fallOfJump (g : Graph) (v : Nat) : Reach g (g.fallOfJump v) := by
  unfold Graph.fallOfJump
  rcases lowest_spec g v with ⟨hn, _⟩ | ⟨e, he, hmem, _, _⟩
  · rw [hn]; exact Or.inr (Or.inr (Nat.le_refl _))
  · rw [he]
    cases hh : g.highest v with
    | none => exact Or.inr (Or.inr (Nat.le_refl _))
    | some hi =>
      simp only
      split
      · exact Or.inr (Or.inl ⟨e, hmem, rfl⟩)
      · exact Or.inr (Or.inr (Nat.le_refl _))

section
variable {labels : List Lbl} {opt : Bool} {rid : Nat} {items : List Item} {visited : List Nat} {g : Graph}

/-- an in-edge of an op vertex is a fall-through edge: jump edges lead to labels or foreign-label vertices -/
theorem edge_to_op_fall (F : Final labels opt rid items visited g) (C : CountOk labels opt rid items g)
    (e : Edge) (he : e ∈ g.es) (o : MOp) (ho : items[e.dst]? = some (.op o)) : e.dst = e.src + 1 := by
  obtain ⟨S, lv, g0, g1, hnf, hm, _, hpre⟩ := C.edge e.src e.level e.dst (key_of_mem g e he)
  obtain ⟨it, hit, T, hT1, hT2⟩ := nextFor_shape labels opt rid items g0 g1 lv e.src S hnf
  rcases hT1 _ _ hm with h | ⟨_, h⟩
  · exact h.2.1
  · obtain ⟨r, lid, c, _, h' | ⟨h1, h2⟩⟩ := hT2 _ h
    · unfold labelIndex at h'
      obtain ⟨hlt, hp, _⟩ := List.findIdx?_eq_some_iff_getElem.mp h'
      have : items[e.dst]? = some items[e.dst] := by simp [hlt]
      rw [this] at ho
      simp only [Option.some.injEq] at ho
      rw [ho] at hp
      simp at hp
    · have hv : g.vs[g0.vs.length]? = some (.foreign lid) := by
        apply prefix_getElem? g1.vs g.vs hpre
        rw [h2]; simp
      rw [← h1, F.vs_item _ _ ho] at hv
      simp at hv

theorem afterCtx_agree (F : Final labels opt rid items visited g) (C : CountOk labels opt rid items g)
    (hguard : ctxGuard items = true) (v : Nat) (o : MOp) (hv : items[v]? = some (.op o))
    (hr : v = 0 ∨ ∃ e ∈ g.es, e.dst = v) : g.afterCtx v = g.afterCtxE v := by
  rw [Bool.eq_iff_iff]
  have hlt : v < items.length := by
    rcases Nat.lt_or_ge v items.length with h | h
    · exact h
    · rw [List.getElem?_eq_none h] at hv; simp at hv
  constructor
  · intro h
    cases v with
    | zero => simp [Graph.afterCtx] at h
    | succ j =>
      obtain ⟨fs, hvs, _⟩ := F.vsShape
      rw [graph_afterCtx_eq labels rid items g fs hvs (j+1) (by omega)] at h
      obtain ⟨c, hc1, hc2⟩ := afterCtx_prev labels rid items hguard j h
      rcases hr with hr | ⟨e, he, hd⟩
      · omega
      · have hfall := edge_to_op_fall F C e he o (by rw [hd]; exact hv)
        have hsrc : e.src = j := by omega
        unfold Graph.afterCtxE
        rw [List.any_eq_true]
        refine ⟨e, he, ?_⟩
        simp only [Bool.and_eq_true, beq_iff_eq]
        refine ⟨hd, ?_⟩
        unfold Graph.isCtxVertex
        rw [hsrc, F.vs_item j _ hc1]
        exact hc2
  · intro h
    unfold Graph.afterCtxE at h
    rw [List.any_eq_true] at h
    obtain ⟨e, he, h⟩ := h
    simp only [Bool.and_eq_true, beq_iff_eq] at h
    obtain ⟨hd, hc⟩ := h
    have hfall := edge_to_op_fall F C e he o (by rw [hd]; exact hv)
    unfold Graph.isCtxVertex at hc
    split at hc
    · rename_i c hvc
      rw [← hd, hfall]
      unfold Graph.afterCtx
      simp only [hvc]
      exact hc
    · simp at hc

theorem step_agree (F : Final labels opt rid items visited g) (C : CountOk labels opt rid items g)
    (hguard : ctxGuard items = true) (a : Nat) (ha : Reach g a) :
    g.step a = g.stepE a ∧ succAll (Reach g) (g.step a) := by
  unfold Graph.step Graph.stepE
  cases hv : g.vs[a]? with
  | none =>
    refine ⟨rfl, ?_⟩
    simp only
    split <;> trivial
  | some vo =>
    cases vo with
    | foreign lid => exact ⟨rfl, trivial⟩
    | item it =>
      cases it with
      | label id => exact ⟨rfl, reach_fall g a⟩
      | ljump r lid c =>
        refine ⟨rfl, ?_⟩
        simp only
        split
        · exact reach_jumpTarget g a
        · exact ⟨reach_jumpTarget g a, reach_fallOfJump g a⟩
      | op o =>
        have hr : a = 0 ∨ ∃ e ∈ g.es, e.dst = a := by
          rcases ha with h | h | h
          · exact Or.inl h
          · exact Or.inr h
          · rw [List.getElem?_eq_none h] at hv; simp at hv
        have hag := afterCtx_agree F C hguard a o (F.item_of_vs a _ hv) hr
        refine ⟨by simp only [hag], ?_⟩
        simp only
        split
        · trivial
        · exact reach_fall g a

end

theorem baseGraph_edge_reading (labels : List Lbl) (opt : Bool) (rid : Nat) (items : List Item) (g : Graph)
    (hg : baseGraph labels opt rid items = .ok g) (hguard : ctxGuard items = true) :
    Equivalent g.lts g.ltsE (0 : Nat) (0 : Nat) := by
  rcases Nat.eq_zero_or_pos items.length with h0 | hpos
  · unfold baseGraph at hg
    rw [if_pos (by omega)] at hg
    simp only [Except.ok.injEq] at hg
    subst hg
    apply equivalent_of_same_steps (Graph.step ⟨[], []⟩) (Graph.stepE ⟨[], []⟩) (fun _ => True) _ 0 trivial
    intro a _
    refine ⟨by simp [Graph.step, Graph.stepE], ?_⟩
    simp only [Graph.step, List.getElem?_nil]
    split <;> trivial
  · obtain ⟨visited, F, _, C⟩ := baseGraph_final labels opt rid items g hg hpos
    exact equivalent_of_same_steps g.step g.stepE (Reach g) (step_agree F C hguard) 0 (Or.inl rfl)

end ESV.Decomp
