import ESV.Decomp.LpGuard
import ESV.Decomp.SwCounter
/-
Witnesses for the counterexample theorems about `build_loops` / `remove_label_markers` (lean/ESV/Props/DecompLoops.lean): for each
clause of the hypotheses that CAN fail while the pass answers, a graph on which the other clauses hold, the pass answers, and
the behaviour from the routine's first vertex changes.  The harness replays every witness on the real pass (`LP_WITNESSES`).
-/
namespace ESV.Decomp
open ESV.Beh

def afterLoops (records : List LoopRec) (g : BGraph) : BGraph :=
  match buildLoops records g with | .ok g' => g' | .error _ => ⟨[], []⟩
def afterRemove (labels : List Lbl) (g : BGraph) : BGraph :=
  match removeLabelMarkers labels g with | .ok g' => g' | .error _ => ⟨[], []⟩

/-- an if whose root op has the name of a context op (no real jump op has one) -/
def sIfCtx (i : Nat) (off : Int) (ifs : Nat) : BVertex := sIf i off "lives" ifs
def sCall (i : Nat) (off : Int) : BVertex :=
  { name := some i, op := .item (.ljump ⟨off, "Call", []⟩ 0 true) }

/-- a loop edge -/
def sEL (s d lv : Nat) : BEdge := ⟨s, d, lv, true, false, []⟩

/-- `§a: Foo; §l: Bar; Return` (+ an unreachable op with a loop edge to `§l`, so that the real pass looks at `§l`) with the
construction "loop at §l, continue edge = the edge from §a to Foo": a continue edge that does not lead to the loop's start vertex -/
def cexLpCont : BGraph := ⟨[sLab 0 1, sOp 1 1 "Foo", sLab 2 2, sOp 3 2 "Bar", sOp 4 3 "Return", sOp 5 4 "Dead"],
  [sE 0 1 0, sE 1 2 0, sE 2 3 0, sE 3 4 0, sEL 5 2 0]⟩
def cexLpContRecs : List LoopRec := [⟨2, [], [0]⟩]

/-- the break edge leaves an if whose root op is called like a context op: the inserted vertex copies the root and IS a context op,
the if in front of it is none -/
def cexLpCtx : BGraph := ⟨[sLab 0 1, sIfCtx 1 0 0, sOp 2 1 "Return", sOp 3 2 "Foo", sOp 4 3 "Dead"],
  [sE 0 1 0, sE 1 2 1, sE 1 3 0 true, sEL 4 0 0]⟩
def cexLpCtxRecs : List LoopRec := [⟨0, [1], [3]⟩]

/-- `Foo` has two out-edges of one flow level; the split one gets the highest target id and is no longer the first -/
def cexLpLvl : BGraph := ⟨[sLab 0 1, sOp 1 0 "Foo", sOp 2 1 "Bar", sOp 3 2 "Qux", sOp 4 3 "Dead"],
  [sE 0 1 0, sE 1 2 0, sE 1 3 0, sEL 4 0 0]⟩
def cexLpLvlRecs : List LoopRec := [⟨0, [1], [3]⟩]

/-- `call @a; jump @b; §a: Foo; §b: Bar`: the fall-through edge of the Call, by-passing the Jump, is raised to the level of
its jump edge -/
def cexRmRaise : BGraph := ⟨[sCall 0 0, sLj 1 1 "Jump", sLab 2 1, sOp 3 2 "Foo", sLab 4 2, sOp 5 3 "Bar"],
  [sE 0 1 0, sE 0 2 1, sE 1 4 1, sE 2 3 0, sE 4 5 0]⟩

/-- the routine STARTS with a Jump that is also reached by a jump back: it is by-passed and deleted, vertex 0 is then `Qux` -/
def cexRmStart : BGraph := ⟨[sLj 0 0 "Jump", sOp 1 1 "Qux", sLab 2 1, sOp 3 2 "Foo", sLj 4 3 "Branch"],
  [sE 0 2 1, sE 2 3 0, sE 3 4 0, sE 4 0 1]⟩

/-- `lives; §l: Return`: without the label the Return stands directly behind the context op -/
def cexRmCtx : BGraph := ⟨[sOp 0 0 "lives", sLab 1 1, sOp 2 1 "Return"], [sE 0 1 0, sE 1 2 0]⟩

/-- `Foo` has two out-edges of one flow level; the copy of the by-passed one is appended and no longer the first -/
def cexRmLvl : BGraph := ⟨[sOp 0 0 "Foo", sLab 1 1, sOp 2 1 "Qux", sOp 3 2 "Bar"], [sE 0 1 0, sE 0 2 0, sE 1 3 0]⟩

end ESV.Decomp
