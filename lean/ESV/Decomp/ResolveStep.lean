import ESV.Decomp.ResolveCorr
import ESV.Decomp.ResolveSim
/-
Step correspondence between the SSB machine and the labelled machine, and the resulting equivalence.
-/
namespace ESV.Decomp
open ESV.Beh ESV.Decomp.Layout

namespace RCtx
variable (c : RCtx)

theorem M_get (a : Nat) : c.M.ops[a]? = c.ops[a]? := by simp [M]
theorem LM_get (b : Nat) : c.LM.items[b]? = c.items[b]? := by simp [LM]
theorem M_fellOff : c.M.fellOff = c.n := by simp [M, Machine.fellOff, n]
theorem LM_fellOff : c.LM.fellOff = c.items.length := by simp [LM, LMachine.fellOff]

theorem targetOf_of_last {ps : List Param} {idx : Nat} {t : Int} (hlen : idx + 1 = ps.length)
    (hp : ps[idx]? = some (.int t)) : Machine.targetOf ps = some t := by
  unfold Machine.targetOf
  rw [List.getLast?_eq_getElem?]
  have : ps.length - 1 = idx := by omega
  rw [this, hp]

theorem step_corr_lt {a : Nat} (h : a < c.n) : StepRel c.R (c.M.step a) (c.LM.step (c.pos a)) := by
  have hmem : c.ops[a].op ∈ allOps c.rs := c.op_mem (c.getElem_mem h)
  unfold Machine.step LMachine.step
  rw [c.M_get, c.LM_get, c.item_pos h, List.getElem?_eq_getElem h]
  simp only
  cases hj : jumpIndex c.ops[a].op.name with
  | none =>
    obtain ⟨hJ, hT⟩ := jumpIndex_none hj
    have hconv : conv c.K c.ops[a].op = .op c.ops[a].op := by simp [conv, hj]
    rw [hconv]
    simp only [hJ, hT, Bool.false_eq_true, if_false]
    rw [c.afterCtx_corr h]
    split
    · simp [StepRel]
    · exact ⟨rfl, c.next_corr h _⟩
  | some idx =>
    have hwf := c.wf _ hmem
    unfold jumpOk at hwf
    rw [hj] at hwf
    simp only [Bool.and_eq_true, beq_iff_eq] at hwf
    obtain ⟨hlen, hwp⟩ := hwf
    obtain ⟨t, lid, hp, hid⟩ := c.tgt _ hmem idx hj
    rw [hp] at hwp
    simp only [List.contains_iff_mem] at hwp
    have hconv : conv c.K c.ops[a].op =
        .ljump ⟨c.ops[a].op.off, c.ops[a].op.name, c.ops[a].op.params.eraseIdx idx⟩ lid
          (c.ops[a].op.name == ESV.Gen.op_call) := by
      simp [conv, hj, hp, hid]
    rw [hconv]
    simp only [targetOf_of_last hlen hp]
    obtain ⟨i, hi, hres, hlab⟩ := c.resolve_corr t lid hwp hid
    have hR : c.R (c.M.resolve t) (c.LM.labelPos lid) := by
      rw [hres, hlab]; exact ⟨Nat.le_of_lt hi, Or.inl rfl⟩
    by_cases hJ : isJump c.ops[a].op.name = true
    · simp only [hJ, if_true]
      exact hR
    · have hT : isTest c.ops[a].op.name = true := by
        have := (jumpIndex_some hj).1
        simp only [Bool.or_eq_true] at this
        rcases this with h1 | h1
        · exact absurd h1 hJ
        · exact h1
      simp only [hJ, hT, Bool.false_eq_true, if_false, if_true]
      refine ⟨?_, hR, c.next_corr h _⟩
      rw [List.eraseIdx_eq_dropLast hlen]

theorem step_corr_n : StepRel c.R (c.M.step c.n) (c.LM.step (c.pos c.n)) := by
  unfold Machine.step LMachine.step
  rw [c.M_get, c.LM_get, c.pos_n]
  have h1 : c.ops[c.n]? = none := List.getElem?_eq_none (Nat.le_refl _)
  have h2 : c.items[c.items.length]? = none := List.getElem?_eq_none (Nat.le_refl _)
  rw [h1, h2]
  simp [c.M_fellOff, c.LM_fellOff, StepRel]

theorem step_corr {a : Nat} (h : a ≤ c.n) : StepRel c.R (c.M.step a) (c.LM.step (c.pos a)) := by
  by_cases h' : a < c.n
  · exact c.step_corr_lt h'
  · have : a = c.n := by omega
    subst this; exact c.step_corr_n

/-- a label directly before an item steps silently onto it -/
theorem label_step {a : Nat} (h : a < c.n) (he : c.st a + 1 = c.pos a) (l : Nat)
    (hl : c.items[c.st a]? = some ⟨c.ops[a].rtn, .label l⟩) :
    c.LM.step (c.st a) = .silent (c.pos a) := by
  unfold LMachine.step
  rw [c.LM_get, hl]
  simp only
  unfold LMachine.next
  rw [c.LM_get, he, c.item_pos h]
  simp

theorem silents_st {a : Nat} (h : a ≤ c.n) : Silents c.LM.lts (c.st a) (c.pos a) := by
  by_cases h' : a < c.n
  · rcases c.st_or h' with he | ⟨he, l, hl⟩
    · rw [he]; exact .refl _
    · exact Silents.one (c.label_step h' he l hl)
  · have : a = c.n := by omega
    subst this
    rw [c.st_n, c.pos_n]; exact .refl _

theorem equivalent {a b : Nat} (hab : c.R a b) : Equivalent c.M.lts c.LM.lts a b := by
  refine equivalent_of_wmatch c.M.lts c.LM.lts c.R ?_ ?_ a b hab
  · intro (a : Nat) (b : Nat) ⟨ha, hb⟩
    have base : WMatch c.M.lts c.LM.lts c.R a (c.pos a) := WMatch.of_stepRel (c.step_corr ha)
    rcases hb with rfl | rfl
    · exact WMatch.of_silents (c.silents_st ha) base
    · exact base
  · intro (a : Nat) (b : Nat) ⟨ha, hb⟩
    have base : WMatch c.LM.lts c.M.lts (fun y x => c.R x y) (c.pos a) a :=
      WMatch.of_stepRel_symm (c.step_corr ha)
    rcases hb with rfl | rfl
    · by_cases h' : a < c.n
      · rcases c.st_or h' with he | ⟨he, l, hl⟩
        · rw [he]; exact base
        · unfold WMatch
          have : c.LM.lts.step (c.st a) = .silent (c.pos a) := c.label_step h' he l hl
          rw [this]
          exact ⟨a, .refl _, ha, Or.inr rfl⟩
      · have : a = c.n := by omega
        subst this
        rw [c.st_n, ← c.pos_n]; exact base
    · exact base

end RCtx

theorem wfSet_jumpOk (rs : List (List MOp)) (h : wfSet rs = true) :
    ∀ o ∈ allOps rs, jumpOk ((allOps rs).map (·.off)) o = true := by
  unfold wfSet at h
  simp only [Bool.and_eq_true, List.all_eq_true] at h
  exact h.2

theorem resolve_preserves' (rs : List (List MOp)) (h : wfSet rs = true) (r : Resolved)
    (hr : resolve rs = .ok r) (k : Nat) :
    Equivalent (Machine.lts ⟨flatten rs⟩) r.machine.lts ((⟨flatten rs⟩ : Machine).entry k)
      (r.machine.entry k) := by
  obtain ⟨hd, hrtns, htgt⟩ := resolve_spec rs r hr
  let c : RCtx := ⟨rs, r.labels, hd, htgt, wfSet_jumpOk rs h⟩
  have e1 : (⟨flatten rs⟩ : Machine) = c.M := rfl
  have e2 : r.machine = c.LM := by
    unfold Resolved.machine RCtx.LM RCtx.items
    rw [hrtns, flattenItems_eq]
    rfl
  rw [e1, e2]
  exact c.equivalent (c.entry_corr k)

end ESV.Decomp
