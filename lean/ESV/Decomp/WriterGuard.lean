import ESV.Decomp.Writer
import ESV.Src.Sem
/-
Decidable hypotheses of the writer theorems (lean/ESV/Props/DecompWriter.lean); the harness evaluates them on every real final
graph (`decompwr.write`, harness/decomp_writer.py).
-/
namespace ESV.Decomp.Wr
open ESV ESV.Beh ESV.Decomp ESV.Decomp.BGraph

/-! ## "the statement denotes the op" -/

/-- the statement the writer prints for the plain op `o` (kinds: simple op, `return` / `end` / `hold`, assignment) denotes
exactly `o`: no parameter is dropped or normalised, the special syntax is not read back as another op -/
def plainIdOk (perf : String) (o : MOp) : Bool :=
  match simpleKind o.name with
  | .simple => o.params.map canonParam == o.params
  | .keyword => o.params.isEmpty && (o.name == ESV.Gen.op_return || o.name == ESV.Gen.op_end || o.name == ESV.Gen.op_hold)
  | .flag =>
    match lowerFlag perf o with
    | .ok (.op n ps, _) => n == o.name && ps == o.params
    | _ => false
  | _ => false

/-- the clause the writer prints for the test `t` denotes exactly `t` -/
def testIdOk (perf : String) (t : MOp) : Bool :=
  match lowerTest perf t with
  | .ok (ev, _) => ev == (⟨t.name, t.params⟩ : Ev)
  | .error _ => false

/-- the op behind an inline context: a simple op whose statement denotes it -/
def inlineTargetOk (tx : BVertex) : Bool :=
  !tx.synthetic && tx.switchStart.isNone &&
  match tx.op with
  | .item (.op o') => simpleKind o'.name == .simple && o'.params.map canonParam == o'.params
  | _ => false

/-- the statement of a `with (…) { … }` block: an assignment that denotes its op -/
def withTargetOk (perf : String) (tx : BVertex) : Bool :=
  !tx.synthetic && tx.switchStart.isNone &&
  match tx.op with
  | .item (.op o') => simpleKind o'.name == .flag && plainIdOk perf o'
  | _ => false

/-- a plain op vertex (simple op, `return` / `end` / `hold`, assignment, context op in front of a simple op) whose statement
denotes it (a context op: `Op<actor x>(…)` in front of a simple op, `with (actor x) { $V = 1; }` in front of an assignment); an op that
ends the flow does so here (it does not stand behind a context op) -/
def plainVertexOk (perf : String) (g : BGraph) (v : Nat) (o : MOp) : Bool :=
  (!endsFlow o.name || !g.toGraph.afterCtxE v) &&
  (if simpleKind o.name == .ctx then
    match o.params, g.outEs v with
    | [_], [q] =>
      (match g.vs[q.2.dst]? with
       | some tx => inlineTargetOk tx || withTargetOk perf tx
       | none => false)
    | _, _ => false
  else plainIdOk perf o)

/-- an if vertex (no other marker) whose header clauses denote its tests -/
def ifVertexOk (perf : String) (x : BVertex) (r : MOp) (call : Bool) : Bool :=
  !call && x.ifStart.isSome && x.foreverBreak.isNone && x.foreverContinue.isNone && x.foreverStart.isNone &&
    x.foreverEnds.isEmpty && (r :: x.ifOps).all (testIdOk perf)

/-- vertex `v` (attributes `x`) belongs to the label-free fragment and the statement written for it denotes it -/
def lfVertex (perf : String) (g : BGraph) (v : Nat) (x : BVertex) : Bool :=
  !x.synthetic && x.switchStart.isNone &&
  match x.op with
  | .item (.op o) => plainVertexOk perf g v o
  | .item (.ljump r _ call) => ifVertexOk perf x r call
  | _ => false

/-- **the label-free fragment** (decidable; evaluated on every real final graph by the harness) -/
def lfGraph (perf : String) (g : BGraph) : Bool := g.vs.zipIdx.all fun p => lfVertex perf g p.2 p.1

/-- a graph of plain ops only (simple ops, `return` / `end` / `hold`, assignments) whose statements denote them (`plainIdOk`: no
parameter dropped or normalised, the special syntax not read back as another op; `writeRoutine_params_counterexample`) -/
def straightGraph (perf : String) (g : BGraph) : Bool :=
  lfGraph perf g && g.vs.all fun x => match x.op with
    | .item (.op o) => simpleKind o.name != .ctx
    | _ => false


/-! ## ifs that join: labels that end ifs -/

/-- a label that only ends ifs (or nothing): no switch end, loop start / end, fall-through marker -/
def joinLabelOk (x : BVertex) : Bool :=
  x.switchEnds.isEmpty && !x.fallthrough && x.foreverStart.isNone && x.foreverEnds.isEmpty

/-- the else-edge of the if `v` does not lead to another if (no `elseif` chain is written) -/
def noElseIf (g : BGraph) (v : Nat) : Bool :=
  match g.firstElse v with
  | some p =>
    (match g.vs[p.2.dst]? with
     | some tx => tx.ifStart.isNone
     | none => true)
  | none => true

/-- a plain Jump (no marker): it writes nothing, the label behind it is written or jumped to -/
def jumpVertexOk (x : BVertex) (call : Bool) : Bool :=
  !call && x.ifStart.isNone && x.foreverBreak.isNone && x.foreverContinue.isNone && x.foreverStart.isNone && x.foreverEnds.isEmpty

/-- a `CaseText` / `DefaultText` op whose statement denotes it (no parameter dropped); behind a default stands no case (the
parser's reading of a message switch puts the cases first) -/
def msgCaseOk (g : BGraph) (v : Nat) (o : MOp) : Bool :=
  if o.name == ESV.Gen.op_case_text then o.params.length == 2
  else o.params.length == 1 &&
    (match g.outEs v with
     | [q] =>
       (match g.vs[q.2.dst]? with
        | some tx =>
          (match tx.op with
           | .item (.op o') => o'.name != ESV.Gen.op_case_text
           | _ => true)
        | none => true)
     | _ => true)

/-- a message switch op (`message_SwitchTalk` / `message_SwitchMonologue`, one parameter) or one of its cases -/
def msgVertexOk (g : BGraph) (v : Nat) (o : MOp) : Bool :=
  match simpleKind o.name with
  | .msgSwitch => o.params.length == 1
  | .msgCase => msgCaseOk g v o
  | _ => false

/-- vertex `v` of the fragment "plain ops, context ops, message switches, ifs without elseif, labels that end ifs, plain Jumps" -/
def jnVertex (perf : String) (g : BGraph) (v : Nat) (x : BVertex) : Bool :=
  !x.synthetic && x.switchStart.isNone &&
  match x.op with
  | .item (.op o) => plainVertexOk perf g v o || msgVertexOk g v o
  | .item (.ljump r _ call) =>
    if isJump r.name then jumpVertexOk x call else ifVertexOk perf x r call && noElseIf g v
  | .item (.label _) => joinLabelOk x
  | _ => false

/-- **ifs that join** (decidable; evaluated on every real final graph by the harness) -/
def jnGraph (perf : String) (g : BGraph) : Bool := g.vs.zipIdx.all fun p => jnVertex perf g p.2 p.1

mutual
/-- no `jump @l` / `call @l` statement (every label is reached by running into it) -/
def noJump : Src.Stmt → Bool
  | .jump _ | .call _ => false
  | .ctx _ _ inner => noJump inner
  | .ite bs _ els => noJumpB bs && noJumpL els
  | .switch _ cs => noJumpC cs
  | .forever body => noJumpL body
  | .while_ _ _ body => noJumpL body
  | .for_ init _ inc body => noJump init && noJump inc && noJumpL body
  | _ => true
def noJumpL : Src.Stmts → Bool
  | .nil => true
  | .cons s r => noJump s && noJumpL r
def noJumpB : Src.Branches → Bool
  | .nil => true
  | .cons _ _ body r => noJumpL body && noJumpB r
def noJumpC : Src.Cases → Bool
  | .nil => true
  | .cons _ _ body r => noJumpL body && noJumpC r
end

end ESV.Decomp.Wr
