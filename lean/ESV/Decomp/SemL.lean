import ESV.Decomp.Loops
import ESV.Decomp.SemS
/-
Meaning of the graphs from `build_loops` on: `stepS` (lean/ESV/Decomp/SemS.lean) plus the vertices `build_loops` inserts.

A `synthetic` vertex stands for a `break_loop;` / `continue;` statement: it performs nothing (it is SILENT, whatever the copied
op in its `op` field is) and continues at the target of its out-edge - the lowest one, should there be several; none: the routine
runs off its end.  The loop, fall-through and `force_write` markers are not read.  Everything else is `stepPS`; in particular
"directly behind a context op" is still read off the in-edges (`afterCtxE`: a synthetic vertex between a context op and the op
performed in the context would hide it - the theorems exclude that shape by a decidable hypothesis).
States are the pairs of SemB / SemS; `stepL` = the same system on the encoded state space `v + (n+2)·j`.
-/
namespace ESV.Decomp
open ESV.Beh ESV.Decomp.Opt

namespace BGraph

def isSynV (g : BGraph) (v : Nat) : Bool :=
  match g.vs[v]? with
  | some x => x.synthetic
  | none => false

def stepPL (g : BGraph) (s : Nat × Nat) : Step (Nat × Nat) Ev :=
  if g.isSynV s.1 then
    if s.2 = 0 then .silent (g.toGraph.fall s.1, 0) else .halt evStuck
  else g.stepPS s

def ltsPL (g : BGraph) : LTS Ev := ⟨Nat × Nat, g.stepPL⟩

/-- the same system on natural numbers (the state space of the verified checker), encoded as in SemB -/
def stepL (g : BGraph) (s : Nat) : Step Nat Ev := mapStep g.enc (g.stepPL (g.dec s))

def ltsL (g : BGraph) : LTS Ev := ⟨Nat, g.stepL⟩

end BGraph
end ESV.Decomp
