import ESV.Decomp.SemS
/-
Decidable hypotheses of the theorems about `build_and_group_switch_cases` / `group_switch_cases`
(lean/ESV/Props/DecompSwitch.lean).  Core Lean only: the driver evaluates them on the REAL graphs and the recorded REAL
answers of the search on every run (`decompsw.validate`), so that it is measured how often the theorems apply.

All structure hypotheses are "determinacy" facts about the SET of out-edges of a vertex (no edge ids, no igraph order):
whatever a vertex reads from its out-edges has one value.
-/
namespace ESV.Decomp
open ESV.Beh

namespace BGraph

/-- a vertex whose successors are read off the flow levels of its out-edges: neither an if nor a switch -/
def levelRead (g : BGraph) (v : Nat) : Bool := !g.isIfV v && !g.isSwitchV v

/-- an out-edge its source does not read: the source is a switch, the edge carries no case test and is not the else edge -/
def ignoredE (g : BGraph) (e : BEdge) : Bool := g.isSwitchV e.src && e.switchOps.isEmpty && !e.isElse

end BGraph

/-- out-edges of one level-read vertex with the same flow level lead to the same vertex (`levelsDetermine` restricted to
the vertices that are read by their levels) -/
def lvlDet (g : BGraph) : Bool :=
  g.es.all fun e => g.es.all fun e' => !(e.src == e'.src && g.levelRead e.src && e.level == e'.level) || e.dst == e'.dst

/-- out-edges of one if with the same `is_else` flag lead to the same vertex (weaker than `flagsUnique`) -/
def flagDet (g : BGraph) : Bool :=
  g.es.all fun e => g.es.all fun e' => !(e.src == e'.src && g.isIfV e.src && e.isElse == e'.isElse) || e.dst == e'.dst

/-- the else edges of one switch lead to the same vertex (real graphs: at most one else edge) -/
def elseDet (g : BGraph) : Bool :=
  g.es.all fun e => g.es.all fun e' => !(e.src == e'.src && g.isSwitchV e.src && e.isElse && e'.isElse) || e.dst == e'.dst

/-- two case tests of one switch with the same index are the same test: same op, same target (real graphs: the indices of a
switch are `0 … k-1`, each once) -/
def idxDet (g : BGraph) : Bool :=
  g.es.all fun e => g.es.all fun e' => !(e.src == e'.src && g.isSwitchV e.src) ||
    e.switchOps.all fun t => e'.switchOps.all fun t' => !(t.2.1 == t'.2.1) || (t.2.2 == t'.2.2 && e.dst == e'.dst)

/-- no vertex carries a `SwitchStart` marker, no edge carries `switch_ops`: the graph has not been through
`build_and_group_switch_cases` yet -/
def noSwitchMarks (g : BGraph) : Bool :=
  (g.vs.all fun x => x.switchStart.isNone) && g.es.all fun e => e.switchOps.isEmpty

/-- structure of the graph entering `build_and_group_switch_cases` -/
def switchStructOk (g : BGraph) : Bool := noSwitchMarks g && lvlDet g && flagDet g

/-- an else edge of a switch carries no case tests (`group_switch_cases` drops the `switch_ops` of an else edge it merges
into another edge) -/
def elseNoOps (g : BGraph) : Bool :=
  g.es.all fun e => !(g.isSwitchV e.src && e.isElse) || e.switchOps.isEmpty

/-- structure of the graph entering `group_switch_cases`: every reading is determined, and an else edge carries no tests -/
def groupSwStructOk (g : BGraph) : Bool := lvlDet g && flagDet g && elseDet g && idxDet g && elseNoOps g

namespace BGraph

/-- every edge into `w` comes from a vertex that is already marked for deletion, or is not read by its source -/
def inDead (g : BGraph) (del : List Nat) (w : Nat) : Bool :=
  g.es.all fun e => !(e.dst == w) || del.contains e.src || g.ignoredE e

/-- the case vertex `w` can be merged into its switch: it is a plain test (a label jump without marker whose root is not
Jump), not the vertex the routine starts with, not yet marked for deletion, none of its out-edges is flagged else -/
def caseVertexOk (g : BGraph) (del : List Nat) (w : Nat) : Bool :=
  w != 0 && !del.contains w &&
  (match g.vs[w]? with
   | some ⟨_, .item (.ljump r _ _), none, _, [], _, _, _, _, _, _, _, _, _, _⟩ => !isJump r.name
   | _ => false) &&
  g.es.all fun e => !(e.src == w) || !e.isElse

/-- `caseVertexOk` and `inDead` for every vertex the case loop merges away, on the graph as it is when the loop reaches the
vertex (same recursion as `caseLoop`; `del` = everything in `vs_to_delete`) -/
def chainOkLoop : Nat → BGraph → Nat → List String → Option Nat → Nat → List Nat → Bool
  | 0, _, _, _, _, _, _ => true
  | fuel+1, g, v, cases, next, i, del =>
    match next with
    | none => true
    | some w =>
      if !g.isCaseV w cases then true
      else
        g.caseVertexOk del w && g.inDead del w &&
        match g.lowHigh w with
        | none => true
        | some (lo, hi) =>
          match (g.vs[w]?).bind rootOfS, g.es[hi]?, g.es[lo]? with
          | some r, some eh, some el =>
            let g1 := g.addEdge (caseEdge v i r eh)
            if lo == hi then chainOkLoop fuel (g1.delEdges [hi]) v cases none (i+1) (del ++ [w])
            else chainOkLoop fuel (g1.delEdges [hi, lo]) v cases (some el.dst) (i+1) (del ++ [w])
          | _, _, _ => true

/-- what `buildSwitchCases_preserves` asks of the switch vertex `v` at the time it is processed: it is not marked for
deletion, the op falls through to the target of its FIRST out-edge (igraph order: where the phase starts the case chain), its out-edges are plain (no else
flag, no case tests), and every vertex of the case chain can be merged -/
def chainOk (g : BGraph) (v n : Nat) (cases : List String) (del : List Nat) : Bool :=
  match g.outEs v with
  | [] => true
  | (_, e0) :: _ =>
    !del.contains v && g.toGraph.fall v == e0.dst &&
    (g.es.all fun e => !(e.src == v) || (!e.isElse && e.switchOps.isEmpty)) &&
    chainOkLoop (g.es.length + 2) (g.setSwitchStart v n) v cases (some e0.dst) 0 del

/-- the Jump `j` in front of the end label `endV` can be by-passed and deleted: it is a plain Jump (a label jump without
marker), not the vertex the routine starts with, exactly one edge leads to it, and all its out-edges (real graphs: one) go
to `endV` -/
def jumpOkS (g : BGraph) (j endV : Nat) : Bool :=
  j != 0 &&
  (match g.vs[j]? with
   | some ⟨_, .item (.ljump r _ _), none, _, [], _, _, _, _, _, _, _, _, _, _⟩ => isJump r.name
   | _ => false) &&
  (match g.inIds j with
   | [_] => true
   | _ => false) &&
  g.es.all fun e => !(e.src == j) || e.dst == endV

/-- `jumpOkS` for every Jump the loop `for e in result` by-passes, on the graph as it is at that moment (same recursion as
`bypassLoop`) -/
def bypassOkLoop (endV : Nat) : List Nat → BGraph → List Nat → Bool
  | [], _, _ => true
  | i :: rest, g, seen =>
    if seen.contains i then bypassOkLoop endV rest g seen
    else
      match g.es[i]? with
      | none => true
      | some e =>
        if g.isJumpS e.src then
          g.jumpOkS e.src endV &&
          match g.inIds e.src with
          | [] => true
          | b :: _ =>
            match g.es[b]? with
            | some eb => bypassOkLoop endV rest (g.addEdge { eb with dst := endV }) (seen ++ [i])
            | none => true
        else bypassOkLoop endV rest g (seen ++ [i])

/-- what `buildSwitchCases_preserves` asks of one answer of the search, on the graph at the time of the call: nothing of
an answer the phase does not act on; otherwise every by-passed Jump must satisfy `jumpOkS` -/
def endOk (g : BGraph) (n : Nat) : Option (List Nat) → Bool
  | none => true
  | some ids =>
    if !ids.all (fun i => decide (i < g.es.length)) then true else
    match ids with
    | [] => true
    | i0 :: _ =>
      match g.es[i0]? with
      | none => true
      | some e0 =>
        if !g.isLabelV e0.dst then true
        else bypassOkLoop e0.dst ids (g.addSwitchEnd e0.dst n) []

/-- `chainOk` / `endOk` at every switch vertex the loop of `build_and_group_switch_cases` processes (same recursion as
`switchGo`) -/
def switchOkGo : List Nat → List (Option (List Nat)) → BGraph → List Nat → List Nat → Nat → Bool
  | [], _, _, _, _, _ => true
  | v :: rest, answers, g, delH, delI, n =>
    match (g.vs[v]?).bind switchOpOf with
    | none => switchOkGo rest answers g delH delI n
    | some (_, cases) =>
      if delH.contains v then switchOkGo rest answers g delH delI n
      else if (g.outEs v).isEmpty then switchOkGo rest answers g delH delI (n+1)
      else
        g.chainOk v n cases (delH ++ delI) &&
        match g.casePart v n cases delH with
        | .error _ => true
        | .ok (g2, delH') =>
          if (g2.outEs v).length < 2 then switchOkGo rest answers g2 delH' delI (n+1)
          else
            match answers with
            | [] => true
            | a :: answers' =>
              g2.endOk n a &&
              match g2.endPart n delI a with
              | .error _ => true
              | .ok (g3, delI') => switchOkGo rest answers' g3 delH' delI' (n+1)

end BGraph

/-- every switch vertex and every answer of the search during `buildSwitchCases answers g` satisfies `chainOk` / `endOk`
at the time it is processed -/
def switchAnswersOk (answers : List (Option (List Nat))) (g : BGraph) : Bool :=
  BGraph.switchOkGo (List.range g.vs.length) answers g [] [] 0

end ESV.Decomp
