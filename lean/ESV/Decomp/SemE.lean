import ESV.Decomp.Optimize
/-
Edge-based meaning of a graph: what the later phases of the decompiler and its writer can still see once
vertices have been deleted and renumbered - "directly behind a context op" is read off the in-edges instead of
the vertex numbering.  On base graphs that satisfy the guards of `baseGraph_preserves` both readings agree
(`ESV.DecompFront.edge_reading_agrees`); the rewriting phases are stated over this one.
-/
namespace ESV.Decomp
open ESV.Beh

namespace Graph

def isCtxVertex (g : Graph) (v : Nat) : Bool :=
  match g.vs[v]? with
  | some (.item (.op o)) => isCtx o.name
  | _ => false

/-- some in-edge of `v` comes from a context op -/
def afterCtxE (g : Graph) (v : Nat) : Bool := g.es.any fun e => e.dst == v && g.isCtxVertex e.src

def stepE (g : Graph) (v : Nat) : Step Nat Ev :=
  match g.vs[v]? with
  | none => if v == g.fellOff then .halt evReturn else .halt evStuck
  | some (.foreign lid) => .halt (evForeign lid)
  | some (.item (.label _)) => .silent (g.fall v)
  | some (.item (.ljump root _ _)) =>
    if isJump root.name then .silent (g.jumpTarget v)
    else .test ⟨root.name, root.params⟩ (g.jumpTarget v) (g.fallOfJump v)
  | some (.item (.op o)) =>
    if endsFlow o.name && !g.afterCtxE v then .halt ⟨o.name, o.params⟩
    else .emit ⟨o.name, o.params⟩ (g.fall v)

def ltsE (g : Graph) : LTS Ev := ⟨Nat, g.stepE⟩

end Graph

/-! structural facts about base graphs that `optimize_paths` relies on (decidable; `baseGraph_ok` shows them for every
base graph) -/

/-- a label vertex has at most one out-edge -/
def labelSingleOut (g : Graph) : Bool :=
  (List.range g.vs.length).all fun v => !isLabelVertex g v || decide ((outEdges g v).length ≤ 1)

/-- out-edges of one vertex with the same flow level lead to the same vertex -/
def levelsDetermine (g : Graph) : Bool :=
  g.es.all fun e => g.es.all fun e' => !(e.src == e'.src && e.level == e'.level) || e.dst == e'.dst

def edgesInRange (g : Graph) : Bool := g.es.all fun e => decide (e.src < g.vs.length) && decide (e.dst < g.vs.length)

/-- the out-edges of a label vertex lead to the next vertex (a label falls through to the op it stands before) -/
def labelNext (g : Graph) : Bool := g.es.all fun e => !isLabelVertex g e.src || e.dst == e.src + 1

def graphOk (g : Graph) : Bool := labelSingleOut g && labelNext g && levelsDetermine g && edgesInRange g

/-- no cycle of labels and Jumps only (the quantifier of C02/C06: "no cycle consists of Jump ops only") -/
def noSilentCycle (g : Graph) : Bool :=
  (List.range g.vs.length).all fun v => (settle g.ltsE (g.vs.length + 1) v).isSome

/-- where vertex `v` of the graph before `optimize_paths` is found afterwards (`none`: deleted) -/
def optimizeGoDeleted (labels : List Lbl) (g : Graph) : List Nat :=
  match optimizeGo labels (List.range g.vs.length) g [] with
  | .ok (_, del) => del
  | .error _ => []

end ESV.Decomp
