import ESV.Decomp.WrJnMsg
/-
"Ifs that join": `LabelWriteHandler` at a label that ends ifs (`label_claim`) and the dispatch on the kind of a vertex.
-/
namespace ESV.Decomp.Wr
open ESV ESV.Beh ESV.Decomp ESV.Decomp.BGraph ESV.Decomp.Opt ESV.Comp

/-- in the fragment `write_label_jump` always writes the jump (no block is started by a `break_loop` / `continue` vertex) -/
theorem labelJump_jn (perf : String) (g : BGraph) (hg : jnGraph perf g = true) (id : Nat) (prev : Option Nat) (σ : WSt)
    (out : List Src.Stmt) (σ' : WSt) (h : labelJump g id prev σ = .ok (out, σ')) : out = [.jump (labelName id)] := by
  unfold labelJump at h
  simp only at h
  cases hp : prev.bind (g.vs[·]?) with
  | none => simp only [hp, Except.ok.injEq, Prod.mk.injEq] at h; exact h.1.symm
  | some px =>
    simp only [hp] at h
    by_cases hj : isJumpObj px = true
    · obtain ⟨p, hpp, hpx⟩ : ∃ p, prev = some p ∧ g.vs[p]? = some px := by
        cases prev with
        | none => simp at hp
        | some p => exact ⟨p, rfl, by simpa using hp⟩
      rcases jn_jumpObj (jnGraph_vertex hg hpx) hj with ⟨r, lbl, id', hf, _⟩ | ⟨r, lbl, _, _, _, _, _, hm⟩
      · simp only [hj, if_true, hf.marker, Except.ok.injEq, Prod.mk.injEq] at h
        exact h.1.symm
      · simp only [hj, if_true, hm, Except.ok.injEq, Prod.mk.injEq] at h
        exact h.1.symm
    · simp only [hj, Bool.false_eq_true, if_false, Except.ok.injEq, Prod.mk.injEq] at h
      exact h.1.symm

theorem stepPL_label (g : BGraph) (v : Nat) (x : BVertex) (id : Nat) (hx : g.vs[v]? = some x) (hop : x.op = .item (.label id))
    (hs : x.synthetic = false) (hw : x.switchStart = none) : g.stepPL (v, 0) = .silent (g.toGraph.fall v, 0) := by
  have hi : isIfVertex x = false := by unfold isIfVertex; rw [hop]
  rw [stepPL_level g v x hx hs (isSwitchVertex_none hw) hi]
  have hv : g.toGraph.vs[v]? = some (.item (.label id)) := by rw [toGraph_vs, hx]; simp [hop]
  simp only [Graph.stepE, hv]
  rfl

/-- `LabelWriteHandler.write_content` at a label that ends ifs -/
theorem label_claim (perf : String) (g : BGraph) (hg : jnGraph perf g = true) (fuel ind v : Nat) (x : BVertex) (id : Nat)
    (vsb : Option Nat) (first : Bool) (σ : WSt) (r : VRes) (hx : g.vs[v]? = some x) (hop : x.op = .item (.label id))
    (hs : x.synthetic = false) (hsw : x.switchStart = none) (hl : joinLabelOk x = true)
    (hw : wLabel (fuel + 1) g perf ind v x id vsb first σ = .ok r) : JClaim g v r := by
  unfold joinLabelOk at hl
  simp only [Bool.and_eq_true, Bool.not_eq_true', Option.isNone_iff_eq_none, List.isEmpty_iff] at hl
  obtain ⟨⟨⟨_, hft⟩, hfs⟩, _⟩ := hl
  rw [wLabel.eq_def] at hw
  simp only [hft, Bool.false_and, Bool.false_eq_true, if_false] at hw
  split at hw
  · -- the label was written before: a jump is written
    split at hw
    · cases hw
    · cases hlj : labelJump g id (if first = true then vsb else none) σ with
      | error e => simp [hlj] at hw
      | ok os =>
        obtain ⟨out, σ'⟩ := os
        simp only [hlj, Except.ok.injEq] at hw
        subst hw
        have := labelJump_jn perf g hg id _ σ out σ' hlj
        subst this
        intro hn
        simp [Stmts.ofList, noJumpL, noJump] at hn
  · cases hes : g.outEs v with
    | nil => simp [hes] at hw
    | cons p rest =>
      cases rest with
      | cons _ _ => simp [hes] at hw
      | nil =>
        simp only [hes, hfs, Except.ok.injEq] at hw
        subst hw
        refine fun _ => ⟨lfL_single _ (by simp [lf]), fun _ => rfl, fun labs N e m hS h1 _ => ?_⟩
        cases specL_single hS with
        | label hlk hN =>
          have hstep := stepPL_label g v x id hx hop hs hsw
          rw [fall_single g v p hes] at hstep
          exact Equivalent.of_silent_left (nodeStep_of hN) (Equivalent.of_silent_right hstep (h1 p.2.dst rfl))

theorem jn_jump_step (perf : String) (g : BGraph) (hg : jnGraph perf g = true) (fuel : Nat) (hIf : JIf perf g fuel) :
    JJump perf g (fuel + 1) := by
  intro ind v x σ r hx hj hw
  rw [wJumpObj] at hw
  rcases jn_jumpObj (jnGraph_vertex hg hx) hj with ⟨r0, lbl, id, hf, _⟩ | ⟨r0, lbl, hop, hjn, hs, hsw, hi, hm⟩
  · simp only [hf.marker] at hw
    exact hIf ind v x id σ r hx hj hw
  · -- a plain Jump: nothing is written, the label behind it comes next
    simp only [hm] at hw
    cases hes : g.outEs v with
    | nil => simp [hes] at hw
    | cons p rest =>
      cases rest with
      | cons _ _ => simp [hes] at hw
      | nil =>
        simp only [hes, Except.ok.injEq] at hw
        subst hw
        refine fun _ => ⟨by simp [Stmts.ofList, lfL], fun hn => by simp at hn, fun labs N e m hS h1 _ => ?_⟩
        simp only [Stmts.ofList] at hS
        cases hS
        have hiv : isIfVertex x = false := by simp [isIfVertex, hop, hi]
        have hstep : g.stepPL (v, 0) = .silent (p.2.dst, 0) := by
          rw [stepPL_level g v x hx hs (isSwitchVertex_none hsw) hiv]
          have hv : g.toGraph.vs[v]? = some (.item (.ljump r0 lbl false)) := by rw [toGraph_vs, hx]; simp [hop]
          simp only [Graph.stepE, hv, hjn, if_true, mapStep, jumpTarget_single g v p hes]
        exact Equivalent.of_silent_right hstep (h1 p.2.dst rfl)

theorem jn_vertex_step (perf : String) (g : BGraph) (hg : jnGraph perf g = true) (fuel : Nat) (hJ : JJump perf g fuel) :
    JVertex perf g (fuel + 1) := by
  intro ind v x vsb first pm σ r hx hw
  have hv := jnGraph_vertex hg hx
  rw [wVertex] at hw
  cases jnKind_of hv with
  | plain o hop hs hsw hpv =>
    have hpk : pyKind x = .plain o := by unfold pyKind isJumpObj; simp [hs, hop, hsw]
    simp only [hpk] at hw
    cases fuel with
    | zero => rw [wPlain.eq_def] at hw; cases hw
    | succ f =>
      obtain ⟨h1, h2, h3⟩ := plain_claim perf g f ind v x o pm σ r hx hop hs hsw hpv hw
      exact fun _ => ⟨(lf0L_spec _ h1).1, fun _ => h2, h3⟩
  | msg o hop hs hsw hm =>
    have hpk : pyKind x = .plain o := by unfold pyKind isJumpObj; simp [hs, hop, hsw]
    simp only [hpk] at hw
    cases fuel with
    | zero => rw [wPlain.eq_def] at hw; cases hw
    | succ f =>
      unfold msgVertexOk at hm
      cases hkind : simpleKind o.name with
      | msgSwitch =>
        simp only [hkind, beq_iff_eq] at hm
        obtain ⟨h1, h2, h3, h4⟩ := msgswitch_claim perf g hg f ind v x o pm σ r hx hop hs hsw hkind hm hw
        exact fun _ => ⟨h1, fun _ => h3, h4⟩
      | msgCase =>
        simp only [hkind] at hm
        cases pm with
        | false =>
          rw [wPlain] at hw
          simp [hkind] at hw
        | true =>
          obtain ⟨h1, h2, _, h4⟩ := msgcase_claim perf g f ind v x o σ r hx hop hs hsw hkind hm hw
          exact fun _ => ⟨by rw [h1]; simp [Stmts.ofList, lfL, lf], fun _ => h2, h4⟩
      | simple => simp [hkind] at hm
      | keyword => simp [hkind] at hm
      | ctx => simp [hkind] at hm
      | flag => simp [hkind] at hm
  | ifv r0 lbl id hf hn =>
    have hj : isJumpObj x = true := by simp [isJumpObj, hf.op]
    have hpk : pyKind x = .jump := by unfold pyKind; simp [hj]
    simp only [hpk] at hw
    exact hJ ind v x σ r hx hj hw
  | jmp r0 lbl hop hjn hs hsw hi hm =>
    have hj : isJumpObj x = true := by simp [isJumpObj, hop]
    have hpk : pyKind x = .jump := by unfold pyKind; simp [hj]
    simp only [hpk] at hw
    exact hJ ind v x σ r hx hj hw
  | label id hop hs hsw hl =>
    have hpk : pyKind x = .label id := by unfold pyKind isJumpObj; simp [hs, hop, hsw]
    simp only [hpk] at hw
    cases fuel with
    | zero => rw [wLabel.eq_def] at hw; cases hw
    | succ f => exact label_claim perf g hg f ind v x id vsb first σ r hx hop hs hsw hl hw

end ESV.Decomp.Wr
