import ESV.Decomp.SwStep
import ESV.Decomp.OptEdges
/-
The graph operations of the switch phases at the level of edge SETS: `delete_edges` (by position), `add_edge`, the else flag,
the markers; "directly behind a context op" as a statement about in-edges; `find_lowest_and_highest_out_edge`.
-/
namespace ESV.Decomp.Sw
open ESV.Beh ESV.Decomp ESV.Decomp.Opt ESV.Decomp.Gr

/-! ## edges -/

theorem mem_delEdges (g : BGraph) (ids : List Nat) (e : BEdge) :
    e ∈ (g.delEdges ids).es ↔ ∃ i, i ∉ ids ∧ g.es[i]? = some e := by
  unfold BGraph.delEdges
  simp only [List.mem_map, List.mem_filter]
  constructor
  · rintro ⟨p, ⟨hp, hc⟩, rfl⟩
    refine ⟨p.2, ?_, List.mem_zipIdx_iff_getElem?.mp hp⟩
    simpa using hc
  · rintro ⟨i, hi, he⟩
    exact ⟨(e, i), ⟨List.mem_zipIdx_iff_getElem?.mpr he, by simpa using hi⟩, rfl⟩

theorem mem_of_mem_delEdges (g : BGraph) (ids : List Nat) (e : BEdge) (h : e ∈ (g.delEdges ids).es) : e ∈ g.es := by
  obtain ⟨i, _, hi⟩ := (mem_delEdges g ids e).mp h
  exact List.mem_of_getElem? hi

/-- an edge that differs from all deleted ones stays -/
theorem mem_delEdges_of_ne (g : BGraph) (ids : List Nat) (e : BEdge) (he : e ∈ g.es)
    (hne : ∀ i ∈ ids, g.es[i]? ≠ some e) : e ∈ (g.delEdges ids).es := by
  obtain ⟨k, hk⟩ := List.getElem?_of_mem he
  exact (mem_delEdges g ids e).mpr ⟨k, fun hm => hne k hm hk, hk⟩

@[simp] theorem delEdges_vs (g : BGraph) (ids : List Nat) : (g.delEdges ids).vs = g.vs := rfl
@[simp] theorem addEdge_vs (g : BGraph) (e : BEdge) : (g.addEdge e).vs = g.vs := rfl
@[simp] theorem addEdge_es (g : BGraph) (e : BEdge) : (g.addEdge e).es = g.es ++ [e] := rfl
@[simp] theorem setSwitchStart_es (g : BGraph) (v n : Nat) : (g.setSwitchStart v n).es = g.es := rfl
@[simp] theorem addSwitchEnd_es (g : BGraph) (v n : Nat) : (g.addSwitchEnd v n).es = g.es := rfl
@[simp] theorem setElse_vs (g : BGraph) (i : Nat) : (g.setElse i).vs = g.vs := rfl

theorem mem_addEdge (g : BGraph) (e x : BEdge) : x ∈ (g.addEdge e).es ↔ x ∈ g.es ∨ x = e := by
  simp [BGraph.addEdge]

theorem getElem?_addEdge_lt (g : BGraph) (e : BEdge) (i : Nat) (x : BEdge) (h : g.es[i]? = some x) :
    (g.addEdge e).es[i]? = some x := by
  rw [addEdge_es, List.getElem?_append_left (List.getElem?_eq_some_iff.mp h).1]; exact h

def flagElse (e : BEdge) : BEdge := { e with isElse := true }

theorem getElem?_setElse (g : BGraph) (i k : Nat) :
    (g.setElse i).es[k]? = (g.es[k]?).map fun e => if i = k then flagElse e else e := by
  unfold BGraph.setElse
  simp only
  rw [List.getElem?_modify]
  rfl

theorem mem_setElse (g : BGraph) (i : Nat) (x : BEdge) :
    x ∈ (g.setElse i).es ↔ (∃ k, k ≠ i ∧ g.es[k]? = some x) ∨ ∃ e, g.es[i]? = some e ∧ x = flagElse e := by
  constructor
  · intro h
    obtain ⟨k, hk⟩ := List.getElem?_of_mem h
    rw [getElem?_setElse] at hk
    cases he : g.es[k]? with
    | none => rw [he] at hk; simp at hk
    | some e =>
      rw [he] at hk
      simp only [Option.map_some, Option.some.injEq] at hk
      by_cases hik : i = k
      · subst hik; rw [if_pos rfl] at hk; exact Or.inr ⟨e, he, hk.symm⟩
      · rw [if_neg hik] at hk; subst hk; exact Or.inl ⟨k, fun h => hik h.symm, he⟩
  · rintro (⟨k, hki, hk⟩ | ⟨e, he, rfl⟩)
    · apply List.mem_of_getElem? (i := k)
      rw [getElem?_setElse, hk]
      have : ¬ i = k := fun h => hki h.symm
      simp [this]
    · apply List.mem_of_getElem? (i := i)
      rw [getElem?_setElse, he]; simp

/-! ## vertices -/

theorem setSwitchStart_vs_ne (g : BGraph) (v n u : Nat) (h : u ≠ v) : (g.setSwitchStart v n).vs[u]? = g.vs[u]? := by
  unfold BGraph.setSwitchStart
  simp only
  rw [List.getElem?_modify]
  have : ¬ v = u := fun hh => h hh.symm
  cases g.vs[u]? <;> simp [this]

theorem setSwitchStart_vs_self (g : BGraph) (v n : Nat) :
    (g.setSwitchStart v n).vs[v]? = (g.vs[v]?).map (BGraph.setSwitchStartV n) := by
  unfold BGraph.setSwitchStart
  simp only
  rw [List.getElem?_modify]
  cases g.vs[v]? <;> simp

@[simp] theorem setSwitchStart_vs_length (g : BGraph) (v n : Nat) : (g.setSwitchStart v n).vs.length = g.vs.length := by
  unfold BGraph.setSwitchStart; simp

@[simp] theorem addSwitchEnd_vs_length (g : BGraph) (v n : Nat) : (g.addSwitchEnd v n).vs.length = g.vs.length := by
  unfold BGraph.addSwitchEnd; simp

theorem addSwitchEnd_vs (g : BGraph) (v n u : Nat) :
    (g.addSwitchEnd v n).vs[u]? = (g.vs[u]?).map fun x => if u = v then BGraph.addSwitchEndV n x else x := by
  unfold BGraph.addSwitchEnd
  simp only
  rw [List.getElem?_modify]
  by_cases h : v = u
  · subst h; simp
  · have : ¬ u = v := fun hh => h hh.symm
    cases g.vs[u]? <;> simp [this, h]

/-- the `SwitchEnd` marker is read by no step -/
theorem addSwitchEnd_op (g : BGraph) (v n u : Nat) :
    ((g.addSwitchEnd v n).vs[u]?).map (fun x => (x.op, x.ifStart, x.ifOps, x.isNot, x.switchStart)) =
      (g.vs[u]?).map (fun x => (x.op, x.ifStart, x.ifOps, x.isNot, x.switchStart)) := by
  rw [addSwitchEnd_vs]
  cases g.vs[u]? with
  | none => rfl
  | some x => by_cases h : u = v <;> simp [h, BGraph.addSwitchEndV]

/-! ## "directly behind a context op" -/

theorem isCtxVertex_eq (g : BGraph) (v : Nat) :
    g.toGraph.isCtxVertex v = match (g.vs[v]?).map (·.op) with
      | some (.item (.op o)) => isCtx o.name
      | _ => false := by
  unfold Graph.isCtxVertex
  rw [toGraph_vs_get']
  rfl

theorem afterCtxE_iff (g : BGraph) (a : Nat) :
    g.toGraph.afterCtxE a = true ↔ ∃ e ∈ g.es, e.dst = a ∧ g.toGraph.isCtxVertex e.src = true := by
  unfold Graph.afterCtxE
  rw [List.any_eq_true]
  constructor
  · rintro ⟨e, he, hc⟩
    obtain ⟨b, hb, rfl⟩ := (mem_toGraph_es g e).mp he
    simp only [Bool.and_eq_true, beq_iff_eq] at hc
    exact ⟨b, hb, hc.1, hc.2⟩
  · rintro ⟨b, hb, hd, hc⟩
    refine ⟨b.toEdge, (mem_toGraph_es g _).mpr ⟨b, hb, rfl⟩, ?_⟩
    simp only [Bool.and_eq_true, beq_iff_eq]
    exact ⟨hd, hc⟩

/-- `afterCtxE` only looks at the in-edges that come from context ops -/
theorem afterCtxE_congr (g g' : BGraph) (a a' : Nat)
    (h1 : ∀ e' ∈ g'.es, e'.dst = a' → g'.toGraph.isCtxVertex e'.src = true →
      ∃ e ∈ g.es, e.dst = a ∧ g.toGraph.isCtxVertex e.src = true)
    (h2 : ∀ e ∈ g.es, e.dst = a → g.toGraph.isCtxVertex e.src = true →
      ∃ e' ∈ g'.es, e'.dst = a' ∧ g'.toGraph.isCtxVertex e'.src = true) :
    g'.toGraph.afterCtxE a' = g.toGraph.afterCtxE a := by
  rw [Bool.eq_iff_iff, afterCtxE_iff, afterCtxE_iff]
  constructor
  · rintro ⟨e', he', hd, hc⟩; exact h1 e' he' hd hc
  · rintro ⟨e, he, hd, hc⟩; exact h2 e he hd hc

end ESV.Decomp.Sw
