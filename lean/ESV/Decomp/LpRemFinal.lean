import ESV.Decomp.LpRemove
/-
`remove_label_markers` preserves behaviour: the two loops one after the other.
-/
namespace ESV.Decomp.Lp
open ESV.Beh ESV.Decomp ESV.Decomp.Opt ESV.Decomp.Gr ESV.Decomp.Sw

theorem synPlain_after {g graw : BGraph} {del : List Nat} {bs : List Byp} {raise : Bool} (hinv : JInv g graw del bs raise)
    (h : synPlainOk g = true) : synPlainOk (graw.deleteVs del) = true := by
  unfold synPlainOk at h ⊢
  rw [List.all_eq_true] at h ⊢
  intro y hy
  have hy' : y ∈ graw.vs := by
    unfold BGraph.deleteVs at hy
    simp only [List.mem_map, List.mem_filter] at hy
    obtain ⟨p, ⟨hp, _⟩, rfl⟩ := hy
    exact List.fst_mem_of_mem_zipIdx hp
  obtain ⟨u, hu⟩ := List.getElem?_of_mem hy'
  obtain ⟨x, hx, hc⟩ := sameVL_get (hinv.same u) y hu
  have := h x (List.mem_of_getElem? hx)
  simp only [coreL, Prod.mk.injEq] at hc
  obtain ⟨_, h2, _, _, h5, h6⟩ := hc
  rw [← h2, ← h5, ← h6]; exact this

theorem removeJumps_equiv (g graw : BGraph) (del : List Nat) (bs : List Byp) (hraw : removeJumpsRaw g = .ok (graw, del, bs))
    (hdet : detOk g = true) (hsyn : synPlainOk g = true) (hraise : raiseOk g bs = true) (hok : bypOk graw del bs = true) :
    Equivalent g.ltsPL (graw.deleteVs del).ltsPL (0, 0) (0, 0) := by
  have hinv := removeJumpsRaw_inv g graw del bs hraw
  apply loop_equiv hinv ?_ ?_ hsyn hok
  · rw [adjG_true]; exact det_raised g bs (det_of_detOk g hdet) hraise
  · rw [adjG_true]; exact stepPL_raised hraise (syn_levelRead_of g hsyn)

theorem removeLabels_equiv (labels : List Lbl) (g graw : BGraph) (del : List Nat) (bs : List Byp)
    (hraw : removeLabelsRaw labels g = .ok (graw, del, bs))
    (hdet : detOk g = true) (hsyn : synPlainOk g = true) (hok : bypOk graw del bs = true) :
    Equivalent g.ltsPL (graw.deleteVs del).ltsPL (0, 0) (0, 0) := by
  have hinv := removeLabelsRaw_inv labels g graw del bs hraw
  apply loop_equiv hinv ?_ ?_ hsyn hok
  · rw [adjG_false]; exact det_of_detOk g hdet
  · rw [adjG_false]

/-- **`remove_label_markers` preserves behaviour** (pairs) -/
theorem removeLabelMarkers_equivP (labels : List Lbl) (g g' : BGraph) (hok : removeOk labels g = true)
    (h : removeLabelMarkers labels g = .ok g') : Equivalent g.ltsPL g'.ltsPL (0, 0) (0, 0) := by
  unfold removeLabelMarkers removeJumps at h
  unfold removeOk at hok
  cases hraw1 : removeJumpsRaw g with
  | error e => rw [hraw1] at h; cases h
  | ok r1 =>
    obtain ⟨graw1, del1, bs1⟩ := r1
    rw [hraw1] at h hok
    simp only at h hok
    unfold removeLabels at h
    cases hraw2 : removeLabelsRaw labels (graw1.deleteVs del1) with
    | error e => rw [hraw2] at h; cases h
    | ok r2 =>
      obtain ⟨graw2, del2, bs2⟩ := r2
      rw [hraw2] at h hok
      simp only [Except.ok.injEq] at h
      subst h
      simp only [Bool.and_eq_true] at hok
      obtain ⟨⟨hdet, hsyn⟩, ⟨hraise, hok1⟩, hdet1, hok2⟩ := hok
      have e1 := removeJumps_equiv g graw1 del1 bs1 hraw1 hdet hsyn hraise hok1
      have hsyn1 := synPlain_after (removeJumpsRaw_inv g graw1 del1 bs1 hraw1) hsyn
      have e2 := removeLabels_equiv labels _ graw2 del2 bs2 hraw2 hdet1 hsyn1 hok2
      exact Equivalent.trans e1 e2

/-- **`remove_label_markers` preserves behaviour** -/
theorem removeLabelMarkers_equiv (labels : List Lbl) (g g' : BGraph) (hok : removeOk labels g = true)
    (h : removeLabelMarkers labels g = .ok g') : Equivalent g.ltsL g'.ltsL (0 : Nat) (0 : Nat) :=
  ltsL_of_ltsPL g g' 0 0 (by omega) (by omega) (removeLabelMarkers_equivP labels g g' hok h)

end ESV.Decomp.Lp
