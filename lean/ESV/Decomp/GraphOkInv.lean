import ESV.Decomp.GraphInv
/-
A second worklist invariant of `explore`, about multiplicities: the edges leaving a vertex are, as a list,
exactly the successors `nextFor` prescribed for it (or there are none).  The conclusion does not mention the
visited list, so it combines with `explore_inv`.
-/
namespace ESV.Decomp
open ESV.Beh

/-- the keys of the edges leaving `i`, in edge order -/
def outKeys (g : Graph) (i : Nat) : List (Nat × Nat × Nat) := (keys g).filter (fun k => k.1 == i)

def CountOk (labels : List Lbl) (opt : Bool) (rid : Nat) (items : List Item) (g : Graph) : Prop :=
  ∀ i, ∃ S : List (Nat × Nat), outKeys g i = S.map (fun p => (i, p.1, p.2)) ∧
    (S = [] ∨ ∃ lv g0 g1, nextFor labels opt rid items g0 lv i = .ok (S, g1) ∧ g1.vs <+: g.vs)

structure Inv2 (labels : List Lbl) (opt : Bool) (rid : Nat) (items : List Item)
    (visited : List Nat) (g : Graph) : Prop where
  srcVisited : ∀ k ∈ keys g, k.1 ∈ visited
  count : CountOk labels opt rid items g

theorem filter_map_src_self (i : Nat) (S : List (Nat × Nat)) :
    (S.map (fun p => (i, p.1, p.2))).filter (fun k => k.1 == i) = S.map (fun p => (i, p.1, p.2)) := by
  rw [List.filter_eq_self]
  intro k hk
  obtain ⟨p, _, rfl⟩ := List.mem_map.mp hk
  simp

theorem filter_map_src_ne (i j : Nat) (h : i ≠ j) (S : List (Nat × Nat)) :
    (S.map (fun p => (i, p.1, p.2))).filter (fun k => k.1 == j) = [] := by
  rw [List.filter_eq_nil_iff]
  intro k hk
  obtain ⟨p, _, rfl⟩ := List.mem_map.mp hk
  simpa using h

theorem explore_inv2 (labels : List Lbl) (opt : Bool) (rid : Nat) (items : List Item) :
    ∀ (fuel : Nat) (queue : List (Nat × Nat)) (visited : List Nat) (g g' : Graph),
      Inv2 labels opt rid items visited g →
      explore labels opt rid items fuel queue visited g = .ok g' →
      CountOk labels opt rid items g' := by
  intro fuel
  induction fuel with
  | zero =>
    intro queue visited g g' hinv he
    cases queue with
    | nil => simp [explore] at he; subst he; exact hinv.count
    | cons p q => simp [explore] at he
  | succ fuel ih =>
    intro queue visited g g' hinv he
    cases queue with
    | nil => simp [explore] at he; subst he; exact hinv.count
    | cons p q =>
      obtain ⟨lv, i⟩ := p
      simp only [explore] at he
      split at he
      · exact ih q visited g g' hinv he
      · split at he
        · exact ih q visited g g' hinv he
        · rename_i hnv hnf
          have hnv' : i ∉ visited := by simpa using hnv
          split at he
          · simp at he
          · rename_i S g1 hnf
            obtain ⟨hes, hvs⟩ := nextFor_graph labels opt rid items g lv i S g1 hnf
            obtain ⟨a1, a2, a3⟩ := addEdges_spec i S g1 q
            have hk1 : keys g1 = keys g := by unfold keys; rw [hes]
            generalize hg2 : (addEdges i S g1 q).1 = g2 at *
            generalize hq2 : (addEdges i S g1 q).2 = q2 at *
            have he' : explore labels opt rid items fuel q2 (i :: visited) g2 = .ok g' := he
            rw [hk1] at a2
            have hpre : g.vs <+: g1.vs := by
              rcases hvs with h | ⟨lid, h⟩
              · rw [h]; exact List.prefix_refl _
              · rw [h]; exact List.prefix_append _ _
            have hpre2 : g.vs <+: g2.vs := by rw [a1]; exact hpre
            apply ih q2 (i :: visited) g2 g' _ he'
            refine ⟨?_, ?_⟩
            · intro k hk
              rw [a2] at hk
              rcases List.mem_append.mp hk with h | h
              · exact List.mem_cons_of_mem _ (hinv.srcVisited k h)
              · obtain ⟨p, _, rfl⟩ := List.mem_map.mp h; simp
            · intro j
              by_cases hj : j = i
              · subst hj
                refine ⟨S, ?_, Or.inr ⟨lv, g, g1, hnf, by rw [a1]; exact List.prefix_refl _⟩⟩
                unfold outKeys
                rw [a2, List.filter_append, filter_map_src_self]
                have : (keys g).filter (fun k => k.1 == j) = [] := by
                  rw [List.filter_eq_nil_iff]
                  intro k hk hkj
                  have : k.1 = j := by simpa using hkj
                  exact hnv' (this ▸ hinv.srcVisited k hk)
                rw [this]; rfl
              · obtain ⟨S', h1, h2⟩ := hinv.count j
                refine ⟨S', ?_, ?_⟩
                · unfold outKeys at *
                  rw [a2, List.filter_append, filter_map_src_ne i j (fun h => hj h.symm), h1]
                  simp
                · rcases h2 with h2 | ⟨lv', g0', g1', h2, h3⟩
                  · exact Or.inl h2
                  · exact Or.inr ⟨lv', g0', g1', h2, List.IsPrefix.trans h3 hpre2⟩

end ESV.Decomp
