import ESV.Decomp.Sem
/-
Reading the out-edges of a vertex: `outEdges` delivers exactly the edges with that source (in igraph's
order, which the semantics does not depend on), `lowest`/`highest` pick an edge of minimal/maximal level.
-/
namespace ESV.Decomp
open ESV.Beh

theorem mem_insertBy {α} (lt : α → α → Bool) (x y : α) (l : List α) :
    y ∈ insertBy lt x l ↔ y = x ∨ y ∈ l := by
  induction l with
  | nil => simp [insertBy]
  | cons z zs ih =>
    unfold insertBy
    split
    · simp
    · simp only [List.mem_cons, ih]
      constructor
      · rintro (h | h | h) <;> simp [h]
      · rintro (h | h | h) <;> simp [h]

theorem mem_sortBy {α} (lt : α → α → Bool) (y : α) (l : List α) : y ∈ sortBy lt l ↔ y ∈ l := by
  induction l with
  | nil => simp [sortBy]
  | cons z zs ih =>
    have : sortBy lt (z :: zs) = insertBy lt z (sortBy lt zs) := rfl
    rw [this, mem_insertBy, ih]; simp

/-- the edges leaving `v`, in the order `outEdges` delivers them -/
def outL (g : Graph) (v : Nat) : List Edge := (outEdges g v).map (·.2)

theorem mem_outL (g : Graph) (v : Nat) (e : Edge) : e ∈ outL g v ↔ e ∈ g.es ∧ e.src = v := by
  unfold outL outEdges
  simp only [List.mem_map, mem_sortBy, List.mem_filter]
  constructor
  · rintro ⟨p, ⟨q, ⟨hq, hs⟩, rfl⟩, rfl⟩
    rw [List.mem_zipIdx_iff_getElem?] at hq
    exact ⟨List.mem_of_getElem? hq, by simpa using hs⟩
  · rintro ⟨he, hs⟩
    obtain ⟨i, hi⟩ := List.getElem?_of_mem he
    refine ⟨(i, e), ⟨(e, i), ⟨?_, by simpa using hs⟩, rfl⟩, rfl⟩
    rw [List.mem_zipIdx_iff_getElem?]; exact hi

def pickLow (acc : Option Edge) (e : Edge) : Option Edge :=
  match acc with
  | none => some e
  | some a => if e.level < a.level then some e else some a

def pickHigh (acc : Option Edge) (e : Edge) : Option Edge :=
  match acc with
  | none => some e
  | some a => if e.level > a.level then some e else some a

theorem foldl_pickLow_some (l : List Edge) (a : Edge) :
    ∃ e, l.foldl pickLow (some a) = some e ∧ (e = a ∨ e ∈ l) ∧ e.level ≤ a.level ∧ ∀ e' ∈ l, e.level ≤ e'.level := by
  induction l generalizing a with
  | nil => exact ⟨a, rfl, Or.inl rfl, Nat.le_refl _, by simp⟩
  | cons x xs ih =>
    simp only [List.foldl_cons, pickLow]
    split
    · obtain ⟨e, h1, h2, h3, h4⟩ := ih x
      refine ⟨e, h1, ?_, by omega, ?_⟩
      · rcases h2 with h | h <;> simp [h]
      · intro e' he'; rcases List.mem_cons.mp he' with h | h
        · subst h; exact h3
        · exact h4 e' h
    · obtain ⟨e, h1, h2, h3, h4⟩ := ih a
      refine ⟨e, h1, ?_, h3, ?_⟩
      · rcases h2 with h | h <;> simp [h]
      · intro e' he'; rcases List.mem_cons.mp he' with h | h
        · subst h; omega
        · exact h4 e' h

theorem foldl_pickHigh_some (l : List Edge) (a : Edge) :
    ∃ e, l.foldl pickHigh (some a) = some e ∧ (e = a ∨ e ∈ l) ∧ a.level ≤ e.level ∧ ∀ e' ∈ l, e'.level ≤ e.level := by
  induction l generalizing a with
  | nil => exact ⟨a, rfl, Or.inl rfl, Nat.le_refl _, by simp⟩
  | cons x xs ih =>
    simp only [List.foldl_cons, pickHigh]
    split
    · obtain ⟨e, h1, h2, h3, h4⟩ := ih x
      refine ⟨e, h1, ?_, by omega, ?_⟩
      · rcases h2 with h | h <;> simp [h]
      · intro e' he'; rcases List.mem_cons.mp he' with h | h
        · subst h; exact h3
        · exact h4 e' h
    · obtain ⟨e, h1, h2, h3, h4⟩ := ih a
      refine ⟨e, h1, ?_, h3, ?_⟩
      · rcases h2 with h | h <;> simp [h]
      · intro e' he'; rcases List.mem_cons.mp he' with h | h
        · subst h; omega
        · exact h4 e' h

theorem lowest_eq (g : Graph) (v : Nat) : g.lowest v = (outL g v).foldl pickLow none := rfl
theorem highest_eq (g : Graph) (v : Nat) : g.highest v = (outL g v).foldl pickHigh none := rfl

/-- `lowest`: none exactly when `v` has no out-edge, otherwise an out-edge of minimal level -/
theorem lowest_spec (g : Graph) (v : Nat) :
    (g.lowest v = none ∧ ∀ e ∈ g.es, e.src ≠ v) ∨
    (∃ e, g.lowest v = some e ∧ e ∈ g.es ∧ e.src = v ∧ ∀ e' ∈ g.es, e'.src = v → e.level ≤ e'.level) := by
  rw [lowest_eq]
  cases hl : outL g v with
  | nil =>
    left; refine ⟨rfl, ?_⟩
    intro e he hs
    have : e ∈ outL g v := (mem_outL g v e).mpr ⟨he, hs⟩
    rw [hl] at this; simp at this
  | cons x xs =>
    right
    obtain ⟨e, h1, h2, h3, h4⟩ := foldl_pickLow_some xs x
    have hmem : e ∈ outL g v := by rw [hl]; rcases h2 with h | h <;> simp [h]
    refine ⟨e, h1, ((mem_outL g v e).mp hmem).1, ((mem_outL g v e).mp hmem).2, ?_⟩
    intro e' he' hs'
    have : e' ∈ outL g v := (mem_outL g v e').mpr ⟨he', hs'⟩
    rw [hl] at this
    rcases List.mem_cons.mp this with h | h
    · subst h; exact h3
    · exact h4 e' h

theorem highest_spec (g : Graph) (v : Nat) :
    (g.highest v = none ∧ ∀ e ∈ g.es, e.src ≠ v) ∨
    (∃ e, g.highest v = some e ∧ e ∈ g.es ∧ e.src = v ∧ ∀ e' ∈ g.es, e'.src = v → e'.level ≤ e.level) := by
  rw [highest_eq]
  cases hl : outL g v with
  | nil =>
    left; refine ⟨rfl, ?_⟩
    intro e he hs
    have : e ∈ outL g v := (mem_outL g v e).mpr ⟨he, hs⟩
    rw [hl] at this; simp at this
  | cons x xs =>
    right
    obtain ⟨e, h1, h2, h3, h4⟩ := foldl_pickHigh_some xs x
    have hmem : e ∈ outL g v := by rw [hl]; rcases h2 with h | h <;> simp [h]
    refine ⟨e, h1, ((mem_outL g v e).mp hmem).1, ((mem_outL g v e).mp hmem).2, ?_⟩
    intro e' he' hs'
    have : e' ∈ outL g v := (mem_outL g v e').mpr ⟨he', hs'⟩
    rw [hl] at this
    rcases List.mem_cons.mp this with h | h
    · subst h; exact h3
    · exact h4 e' h

end ESV.Decomp
