import ESV.Decomp.SwGuard
import ESV.Decomp.GraphCounter
/-
Counterexamples: the hypotheses of `buildSwitchCases_preserves` / `groupSwitchCases_preserves` cannot be dropped.  Each witness
is a small graph on which all OTHER hypotheses hold, the phase answers, and the kernel checks that the behaviour from the
routine's first vertex changes (two halted runs with different traces).  The harness replays every witness on the REAL pass
(`decomp_switch.SW_WITNESSES`).
-/
namespace ESV.Decomp
open ESV.Beh

def sOp (i : Nat) (off : Int) (name : String) : BVertex := ⟨some i, .item (.op ⟨off, name, []⟩), none, [], [], false, none, [], false, false, none, [], none, none, false⟩
def sSw (i : Nat) (off : Int) (name : String) (id : Nat) : BVertex :=
  ⟨some i, .item (.op ⟨off, name, []⟩), none, [], [], false, some id, [], false, false, none, [], none, none, false⟩
def sLj (i : Nat) (off : Int) (name : String) : BVertex :=
  ⟨some i, .item (.ljump ⟨off, name, []⟩ 0 false), none, [], [], false, none, [], false, false, none, [], none, none, false⟩
def sIf (i : Nat) (off : Int) (name : String) (ifs : Nat) : BVertex :=
  ⟨some i, .item (.ljump ⟨off, name, []⟩ 0 false), some ifs, [], [], false, none, [], false, false, none, [], none, none, false⟩
def sLab (i : Nat) (id : Nat) : BVertex := ⟨some i, .item (.label id), none, [], [], false, none, [], false, false, none, [], none, none, false⟩
def sE (s d lv : Nat) (isElse : Bool := false) (ops : List SwOp := []) : BEdge := ⟨s, d, lv, false, isElse, ops⟩

def afterSwitch (ans : List (Option (List Nat))) (g : BGraph) : BGraph :=
  match buildSwitchCases ans g with | .ok g' => g' | .error _ => ⟨[], []⟩
def afterGroupSw (g : BGraph) : BGraph := match groupSwitchCases g with | .ok g' => g' | .error _ => ⟨[], []⟩

/-- `switch { case: Foo; <falls into the second test> case: Bar } Qux`: `Foo` leads INTO the case chain -/
def cexSwIn : BGraph := ⟨[sOp 0 0 "Switch", sLj 1 1 "Case", sLj 2 2 "CaseValue", sOp 3 3 "Foo", sOp 4 4 "Bar", sOp 5 5 "Qux"],
  [sE 0 1 0, sE 1 3 1, sE 1 2 0, sE 2 4 1, sE 2 5 0, sE 3 2 0]⟩
/-- the routine STARTS with the case test (the switch op is reached by a jump back) -/
def cexSwStart : BGraph := ⟨[sLj 0 0 "Case", sOp 1 1 "Foo", sOp 2 2 "Bar", sOp 3 3 "Switch"],
  [sE 0 1 1, sE 0 2 0, sE 1 3 0, sE 3 0 0]⟩
/-- the switch op has two out-edges; the FIRST in igraph's order is not the one with the lowest flow level -/
def cexSwFall : BGraph := ⟨[sOp 0 0 "Switch", sOp 1 1 "Bar", sOp 2 2 "Foo"], [sE 0 2 0, sE 0 1 1]⟩
/-- a second out-edge of the switch op that is already flagged else -/
def cexSwPlain : BGraph := ⟨[sOp 0 0 "Switch", sLj 1 1 "Case", sOp 2 2 "Qux", sOp 3 3 "Foo", sOp 4 4 "Bar"],
  [sE 0 1 0, sE 0 2 1 true, sE 1 3 1, sE 1 4 0]⟩
/-- the case edge of a case vertex is flagged else: the copy at the switch is a second else edge -/
def cexSwCaseElse : BGraph := ⟨[sOp 0 0 "Switch", sLj 1 1 "Case", sOp 2 2 "Foo", sOp 3 3 "Bar"],
  [sE 0 1 0, sE 1 2 1 true, sE 1 3 0]⟩
/-- the by-passed Jump has a second in-edge (`Foo`), cut by the deletion -/
def cexSwJumpIn : BGraph := ⟨[sOp 0 0 "Switch", sLj 1 1 "Case", sLj 2 2 "Jump", sOp 3 3 "Foo", sLab 4 9, sOp 5 4 "Bar"],
  [sE 0 1 0, sE 1 3 1, sE 1 2 0, sE 2 4 1, sE 3 2 0, sE 4 5 0]⟩
/-- the by-passed Jump is the vertex the routine starts with -/
def cexSwJumpStart : BGraph := ⟨[sLj 0 0 "Jump", sOp 1 1 "Switch", sLj 2 2 "Case", sLab 3 9, sOp 4 3 "Bar"],
  [sE 0 3 1, sE 1 2 0, sE 2 0 1, sE 2 3 0, sE 3 4 0]⟩
/-- the answer names an edge of a Jump that leads to ANOTHER label than the end label -/
def cexSwJumpTarget : BGraph :=
  ⟨[sOp 0 0 "Switch", sLj 1 1 "Case", sOp 2 2 "Foo", sLj 3 3 "Jump", sLab 4 8, sOp 5 4 "Bar", sLab 6 9, sOp 7 5 "Qux"],
  [sE 0 1 0, sE 1 2 1, sE 1 4 0, sE 2 3 0, sE 3 6 1, sE 4 5 0, sE 6 7 0]⟩
/-- `Foo` has two out-edges of one flow level: after the by-pass ANOTHER one is the first in igraph's order -/
def cexSwLvl : BGraph := ⟨[sOp 0 0 "Switch", sLj 1 1 "Case", sOp 2 2 "Foo", sLj 3 3 "Jump", sOp 4 4 "Qux", sLab 5 9, sOp 6 5 "Bar"],
  [sE 0 1 0, sE 1 2 1, sE 1 5 0, sE 2 3 0, sE 2 4 0, sE 3 5 1, sE 5 6 0]⟩
/-- the same with an if that has two else edges -/
def cexSwFlag : BGraph :=
  ⟨[sOp 0 0 "Switch", sLj 1 1 "Case", sIf 2 2 "Branch" 0, sLj 3 3 "Jump", sOp 4 4 "Qux", sLab 5 9, sOp 6 5 "Bar"],
  [sE 0 1 0, sE 1 2 1, sE 1 5 0, sE 2 3 0 true, sE 2 4 0 true, sE 2 6 1, sE 3 5 1, sE 5 6 0]⟩
/-- the same with a switch that is already there (and has two else edges) -/
def cexSwMarks : BGraph :=
  ⟨[sOp 0 0 "Switch", sLj 1 1 "Case", sSw 2 2 "SwitchSector" 5, sLj 3 3 "Jump", sOp 4 4 "Qux", sLab 5 9, sOp 6 5 "Bar"],
  [sE 0 1 0, sE 1 2 1, sE 1 5 0, sE 2 3 0 true, sE 2 4 0 true, sE 3 5 1, sE 5 6 0]⟩
/-- `group_switch_cases`: an else edge that carries a case test is merged into another edge -/
def cexGsElseOps : BGraph := ⟨[sSw 0 0 "Switch" 0, sOp 1 1 "Foo", sOp 2 2 "Bar"],
  [sE 0 1 0 true [(0, 0, ⟨10, "Case", []⟩)], sE 0 1 1 false [(0, 1, ⟨11, "CaseValue", []⟩)],
   sE 0 2 1 false [(0, 2, ⟨12, "CaseVariable", []⟩)]]⟩

/-- what every counterexample below proves: the hypotheses but one hold, the phase answers, the behaviour changes -/
theorem sw_cex (g : BGraph) (ans : List (Option (List Nat))) (ω : Nat → Bool) (t₁ t₂ : List (Obs Ev))
    (hok : ∃ g', buildSwitchCases ans g = .ok g' ∧ g' = afterSwitch ans g)
    (h₁ : run g.ltsB ω 12 0 (0 : Nat) = (t₁, none)) (h₂ : run (afterSwitch ans g).ltsS ω 12 0 (0 : Nat) = (t₂, none))
    (hne : t₁ ≠ t₂) : ∃ g', buildSwitchCases ans g = .ok g' ∧ ¬ Equivalent g.ltsB g'.ltsS (0 : Nat) (0 : Nat) := by
  obtain ⟨g', h1, rfl⟩ := hok
  exact ⟨_, h1, fun h => not_sim_of_traces g.ltsB (afterSwitch ans g).ltsS (0 : Nat) (0 : Nat) ω 12 12 t₁ t₂ h₁ h₂ hne h.1⟩

end ESV.Decomp
