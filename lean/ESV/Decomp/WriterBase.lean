import ESV.Decomp.WriterOps
/-
The text writers of the ExplorerScript decompiler, graph level: what the handlers READ from the final graph (the graph after
`remove_label_markers`) - Python kinds of the vertex objects, `get_marker()`, the edges in igraph's order - and the switch-case
iteration `iterate_switch_edges_using_edges_and_op` (graph_utils.py).  The recursive handlers are in Writer.lean.
-/
namespace ESV.Decomp.Wr
open ESV.Beh ESV.Src ESV.Decomp.BGraph

/-- `SsbLabelJump.get_marker()`: the first (and only) marker -/
inductive Marker where
  | none | call | ifStart (id : Nat) | switchStart (id : Nat) | brk (id : Nat) | cont (id : Nat)
  | other     -- a `ForeverStart` / `ForeverEnd` marker on a label jump: no handler is registered for it
deriving DecidableEq, Repr

/-- the Python class of `v["op"]`, as `WriteHandlerManager.get_for` tests it -/
inductive PyKind where
  | label (id : Nat) | foreign (lid : Nat) | jump | plain (o : MOp)
deriving DecidableEq, Repr

def pyKind (x : BVertex) : PyKind :=
  if isJumpObj x then .jump
  else match x.op with
    | .item (.label id) => .label id
    | .foreign l => .foreign l
    | .item (.op o) => .plain o
    | .item (.ljump _ _ _) => .jump

def markersOf (x : BVertex) : List Marker :=
  (if callFlag x then [Marker.call] else []) ++
  (match x.ifStart with | some i => [Marker.ifStart i] | none => []) ++
  (match x.switchStart with | some i => [Marker.switchStart i] | none => []) ++
  (match x.foreverBreak with | some i => [Marker.brk i] | none => []) ++
  (match x.foreverContinue with | some i => [Marker.cont i] | none => []) ++
  (if x.foreverStart.isSome || !x.foreverEnds.isEmpty then [Marker.other] else [])

/-- `add_marker` refuses a second marker, so a label jump of a real run has at most one; the model type admits more, their
order in the Python list is then not determined by the fields: unmodelled -/
def markerOf (x : BVertex) : Except String Marker :=
  match markersOf x with
  | [] => .ok .none
  | [m] => .ok m
  | _ => .error "unmodelled:two-markers"

/-- `op.op_code.name` of `_get_root_op(v)` (`none`: the root of a multi-if is unset) -/
def rootNameOf (x : BVertex) : Option String :=
  let nameOfVOp : VOp → Option String := fun o => match o with
    | .item (.op o) => some o.name
    | .item (.label id) => some ("ES_LABEL<" ++ toString id ++ ">")
    | .foreign l => some ("ES_FOREIGN<" ++ toString l ++ ">")
    | .item (.ljump r _ _) => some r.name
  if x.synthetic then nameOfVOp x.op
  else match x.op with
    | .item (.ljump r _ _) => if x.ifOps.isEmpty then some r.name else none
    | o => nameOfVOp o

/-- what a block / a switch reads from `last_handler_in_block` -/
structure HInfo where
  isLabel : Bool := false
  fell : Bool := false
  endedSwitches : List Nat := []
  endedOnJump : Bool := false
deriving Repr, DecidableEq

/-- the handler object `WriteHandlerManager.get_for` constructs (no side effect) -/
def hinfoOf (x : BVertex) : Except String HInfo :=
  match pyKind x with
  | .label _ => .ok { isLabel := true, fell := x.fallthrough, endedSwitches := x.switchEnds }
  | .foreign _ => .ok {}
  | .plain _ => .ok {}
  | .jump =>
    match markerOf x with
    | .error e => .error e
    | .ok m => .ok { endedOnJump := decide (m = .none) }

/-- the `check_end_block` callbacks -/
inductive EndCheck where
  | none
  | ifEnd (id : Nat)
  | switchEnd (id : Nat)
  | loopEnd (id : Nat)
  | once                          -- `Once()` of a with-block
  | msg (cases : List String)     -- `MesageSwitchSimpleOpWriteHandler.check_end_block`
deriving DecidableEq, Repr

/-- `OPS_SWITCH_TEXT_CASE_MAP[self.op_name]`: the op names that are cases of the message switch `name` -/
def msgCasesOf (name : String) : List String :=
  match ESV.Gen.opsSwitchTextCaseMap.find? fun kv => kv.1 == name with
  | some kv => kv.2
  | none => []

/-- `disallow_nested=True` is passed exactly with these two callbacks -/
def EndCheck.disallowNested : EndCheck → Bool
  | .once | .msg _ => true
  | _ => false

/-- `should_continue = self.check_end_block(self, handler)` -/
def EndCheck.goesOn (c : EndCheck) (x : BVertex) (first : Bool) : Bool :=
  match c with
  | .none => true
  | .ifEnd id => !(isLabelX x && x.ifEnds.contains id)
  | .switchEnd id => !(isLabelX x && x.switchEnds.contains id)
  | .loopEnd id => !(isLabelX x && x.foreverEnds.contains id)
  | .once => first
  | .msg cases => match pyKind x with
    | .plain o => cases.contains o.name
    | _ => false

/-- the writers' shared state: `labels_already_printed`, `labels_jumped_to`, `forever_start_handler_stack` (each entry: the
`_vertex_after_forever` of that handler) and the first reason why the text written so far cannot be read back -/
structure WSt where
  printed : List Nat := []
  jumped : List Nat := []
  stack : List (Option Nat) := []
  bad : Option String := none
deriving Repr, DecidableEq

def WSt.addBad (σ : WSt) (b : Option String) : WSt := { σ with bad := orBad σ.bad b }

def labelName (id : Nat) : String := "label_" ++ toString id
def switchLabelName (sid eid : Nat) : String := "switch" ++ toString sid ++ "_" ++ toString eid

/-- `Blk.__enter__`: `MAX_BLOCK_NESTING` -/
def maxNesting : Nat := 100

/-- `decompiler.write_label_jump(label_id, previous_op)`; `prev` = the vertex whose op is `previous_op` -/
def labelJump (g : BGraph) (id : Nat) (prev : Option Nat) (σ : WSt) : Except String (List Stmt × WSt) :=
  let jump : List Stmt × WSt := ([.jump (labelName id)], { σ with jumped := id :: σ.jumped })
  match prev.bind (g.vs[·]?) with
  | none => .ok jump
  | some px =>
    if isJumpObj px then
      match markerOf px with
      | .error e => .error e
      | .ok (.brk _) => .ok ([], σ)
      | .ok (.cont _) => .ok ([], σ)
      | .ok _ => .ok jump
    else .ok jump

/-- `exits = v.out_edges()` of the handlers for plain ops: one → its target, none → `None`, more → ValueError -/
def exits01 (g : BGraph) (v : Nat) : Except String (Option Nat) :=
  match g.outEs v with
  | [] => .ok none
  | [p] => .ok (some p.2.dst)
  | _ => .error "ValueError"

/-- previous vertex of a block needs the dummy `return;`: a plain op that does not end the control flow -/
def needsDummy (g : BGraph) (p : Nat) : Bool :=
  match g.vs[p]? with
  | some x => match pyKind x with
    | .plain o => !ESV.Gen.opsEndFlow.contains o.name
    | _ => false
  | none => false

def isLabelWithIfEnd (g : BGraph) (v id : Nat) : Bool :=
  match g.vs[v]? with
  | some x => isLabelX x && x.ifEnds.contains id
  | none => false

/-- `find_switch_end_label(g, switch_id)`: the first label vertex carrying `SwitchEnd(switch_id)` -/
def findSwitchEnd (g : BGraph) (sid : Nat) : Option Nat :=
  g.vs.findIdx? fun x => isLabelX x && x.switchEnds.contains sid

/-! ## `iterate_switch_edges_using_edges_and_op` -/

/-- `map_ops_edges_s[op.index] = e` over the out-edges in igraph's order (a later op with the same index replaces the earlier) -/
def caseMap (exits : List (Nat × BEdge)) : List (Nat × Nat × BEdge) :=
  exits.foldl (fun acc p =>
    p.2.switchOps.foldl (fun acc t =>
      if t.1 == 0 then
        if acc.any (fun kv => kv.1 == t.2.1) then acc.map fun kv => if kv.1 == t.2.1 then (kv.1, p.1, p.2) else kv
        else acc ++ [(t.2.1, p.1, p.2)]
      else acc) acc) []

/-- insertion sort of the keys (`sorted(map_ops_edges_s)`) -/
def insertKey (kv : Nat × Nat × BEdge) : List (Nat × Nat × BEdge) → List (Nat × Nat × BEdge)
  | [] => [kv]
  | a :: r => if kv.1 < a.1 then kv :: a :: r else a :: insertKey kv r

def sortKeys (l : List (Nat × Nat × BEdge)) : List (Nat × Nat × BEdge) := l.foldl (fun acc kv => insertKey kv acc) []

/-- one yielded case: edge id, edge, the case ops written in front of it, `is_default` -/
structure CaseY where
  eid : Nat
  e : BEdge
  ops : List MOp
  isDefault : Bool
deriving Repr, DecidableEq

/-- `next(op for op in e["switch_ops"] if op.switch_index == 0 and op.index == cursor)`: `none` = StopIteration, which leaves the
generator as RuntimeError -/
def opAtCursor (e : BEdge) (cursor : Nat) : Option MOp :=
  (e.switchOps.find? fun t => t.1 == 0 && t.2.1 == cursor).map (·.2.2)

/-- the main loop over `map_ops_edges` (edge ids in key order): `cur` = the run in work (edge id, edge, ops so far) -/
def runsGo (cursor : Nat) (cur : Nat × BEdge × List MOp) (yielded : Bool) :
    List (Nat × BEdge) → Except String (List CaseY × Bool)
  | [] => .ok ([⟨cur.1, cur.2.1, cur.2.2, cur.2.1.isElse && !yielded⟩], yielded || cur.2.1.isElse)
  | (eid, e) :: rest =>
    if eid == cur.1 then
      match opAtCursor e cursor with
      | none => .error "RuntimeError"
      | some o => runsGo (cursor + 1) (cur.1, cur.2.1, cur.2.2 ++ [o]) yielded rest
    else
      match opAtCursor e cursor with
      | none => .error "RuntimeError"
      | some o =>
        match runsGo (cursor + 1) (eid, e, [o]) (yielded || cur.2.1.isElse) rest with
        | .error err => .error err
        | .ok (ys, y) => .ok (⟨cur.1, cur.2.1, cur.2.2, cur.2.1.isElse && !yielded⟩ :: ys, y)

def iterateSwitch (exits : List (Nat × BEdge)) : Except String (List CaseY) :=
  match (sortKeys (caseMap exits)).map (·.2) with
  | [] => .error "IndexError"
  | (eid, e) :: rest =>
    match opAtCursor e 0 with
    | none => .error "RuntimeError"
    | some o =>
      match runsGo 1 (eid, e, [o]) false rest with
      | .error err => .error err
      | .ok (ys, yielded) =>
        if yielded then .ok ys
        else match exits.find? fun p => p.2.isElse with
          | some p => if p.2.switchOps.isEmpty then .ok (ys ++ [⟨p.1, p.2, [], true⟩]) else .ok ys
          | none => .ok ys

/-- the edges that are yielded more than once (they get a `@switch<id>_<edge>` label) -/
def multiEdges : List CaseY → List Nat → List Nat
  | [], _ => []
  | c :: rest, seen => if seen.contains c.eid then c.eid :: multiEdges rest seen else multiEdges rest (c.eid :: seen)

/-- the `case x:` lines in front of one body as entries of the parse: every line but the last is a case with an empty body;
`default:` behind case lines makes the last of them empty too -/
def caseEntries (tests : List Ev) (isDefault : Bool) (body : List Stmt) : Except String (List (Bool × Ev × List Stmt)) :=
  match tests.reverse with
  | [] => if isDefault then .ok [(true, ⟨"", []⟩, body)] else .error "unmodelled:case-without-header"
  | last :: revInit =>
    let init := revInit.reverse.map fun t => (false, t, ([] : List Stmt))
    if isDefault then .ok (init ++ [(false, last, []), (true, ⟨"", []⟩, body)])
    else .ok (init ++ [(false, last, body)])

def Cases.ofList : List (Bool × Ev × List Stmt) → Cases
  | [] => .nil
  | (d, t, b) :: r => .cons d t (Stmts.ofList b) (Cases.ofList r)

def Branches.ofList : List (Bool × List Ev × List Stmt) → Branches
  | [] => .nil
  | (n, t, b) :: r => .cons n t (Stmts.ofList b) (Branches.ofList r)

/-- the clauses of an if header (`_write_if_header`): `original_ssb_ifs_ops` of a multi-if, `[op.root]` otherwise; then
`else_edge = [e for e in exits if e["is_else"]][0]`, `if_edge = [e for e in exits if not e["is_else"]][0]` -/
def ifHeader (g : BGraph) (perf : String) (v : Nat) (x : BVertex) :
    Except String ((Nat × BEdge) × (Nat × BEdge) × List Ev × Option String) :=
  match x.op with
  | .item (.ljump r _ _) =>
    match (r :: x.ifOps).mapM (lowerTest perf) with
    | .error e => .error e
    | .ok ts =>
      match g.firstElse v with
      | none => .error "IndexError"
      | some el =>
        match g.firstIf v with
        | none => .error "IndexError"
        | some ie => .ok (ie, el, ts.map (·.1), ts.foldl (fun acc t => orBad acc t.2) none)
  | _ => .error "unmodelled:if-marker-on-non-jump"

end ESV.Decomp.Wr
