import ESV.Decomp.WrLfBlock
/-
"Ifs that join" (`jnGraph`): plain ops, context ops in front of a simple op, ifs without elseif chains, labels that end ifs.
A block of the writer now stops in front of the end label of its if and returns it; the statements written behind the if start
with the label statement.  The theorem is stated for outputs without `jump` / `call` statements (every label is reached by running
into it) whose labels are written once.  This file: facts about the fragment and the claims of the induction.
-/
namespace ESV.Decomp.Wr
open ESV ESV.Beh ESV.Decomp ESV.Decomp.BGraph ESV.Decomp.Opt ESV.Comp

theorem jnGraph_vertex {perf : String} {g : BGraph} (h : jnGraph perf g = true) {v : Nat} {x : BVertex} (hx : g.vs[v]? = some x) :
    jnVertex perf g v x = true := by
  unfold jnGraph at h
  rw [List.all_eq_true] at h
  exact h (x, v) (List.mem_zipIdx_iff_getElem?.mpr hx)

/-- the three kinds of vertices of the fragment -/
inductive JnKind (perf : String) (g : BGraph) (v : Nat) (x : BVertex) : Prop where
  | plain (o : MOp) : x.op = .item (.op o) → x.synthetic = false → x.switchStart = none → plainVertexOk perf g v o = true → JnKind perf g v x
  | msg (o : MOp) : x.op = .item (.op o) → x.synthetic = false → x.switchStart = none → msgVertexOk g v o = true → JnKind perf g v x
  | ifv (r : MOp) (lbl id : Nat) : LfIf perf x r lbl id → noElseIf g v = true → JnKind perf g v x
  | jmp (r : MOp) (lbl : Nat) : x.op = .item (.ljump r lbl false) → isJump r.name = true → x.synthetic = false →
      x.switchStart = none → x.ifStart = none → markerOf x = .ok .none → JnKind perf g v x
  | label (id : Nat) : x.op = .item (.label id) → x.synthetic = false → x.switchStart = none → joinLabelOk x = true → JnKind perf g v x

theorem jnKind_of {perf : String} {g : BGraph} {v : Nat} {x : BVertex} (hv : jnVertex perf g v x = true) : JnKind perf g v x := by
  unfold jnVertex at hv
  simp only [Bool.and_eq_true, Bool.not_eq_true', Option.isNone_iff_eq_none] at hv
  obtain ⟨⟨hs, hsw⟩, hk⟩ := hv
  cases hop : x.op with
  | foreign l => simp [hop] at hk
  | item it =>
    cases it with
    | label i => simp only [hop] at hk; exact .label i hop hs hsw hk
    | op o =>
      simp only [hop, Bool.or_eq_true] at hk
      rcases hk with hk | hk
      · exact .plain o hop hs hsw hk
      · exact .msg o hop hs hsw hk
    | ljump r lbl call =>
      simp only [hop] at hk
      by_cases hjn : isJump r.name = true
      · simp only [hjn, if_true] at hk
        unfold jumpVertexOk at hk
        simp only [Bool.and_eq_true, Bool.not_eq_true', Option.isNone_iff_eq_none, List.isEmpty_iff] at hk
        obtain ⟨⟨⟨⟨⟨hc, hi⟩, hb⟩, hcn⟩, hfs⟩, hfe⟩ := hk
        subst hc
        exact .jmp r lbl hop hjn hs hsw hi (by simp [markerOf, markersOf, callFlag, hop, hi, hsw, hb, hcn, hfs, hfe])
      · simp only [hjn, Bool.false_eq_true, if_false, Bool.and_eq_true] at hk
        obtain ⟨id, hf⟩ := lfIf_of_ok hop hs hsw hk.1
        exact .ifv r lbl id hf hk.2

/-- a jump object of the fragment is an if or a plain Jump -/
theorem jn_jumpObj {perf : String} {g : BGraph} {v : Nat} {x : BVertex} (hv : jnVertex perf g v x = true) (hj : isJumpObj x = true) :
    (∃ r lbl id, LfIf perf x r lbl id ∧ noElseIf g v = true) ∨
    (∃ r lbl, x.op = .item (.ljump r lbl false) ∧ isJump r.name = true ∧ x.synthetic = false ∧ x.switchStart = none ∧
      x.ifStart = none ∧ markerOf x = .ok .none) := by
  cases jnKind_of hv with
  | plain o hop hs hsw _ => simp [isJumpObj, hs, hop, hsw] at hj
  | msg o hop hs hsw _ => simp [isJumpObj, hs, hop, hsw] at hj
  | ifv r lbl id hf hn => exact .inl ⟨r, lbl, id, hf, hn⟩
  | jmp r lbl hop hjn hs hsw hi hm => exact .inr ⟨r, lbl, hop, hjn, hs, hsw, hi, hm⟩
  | label id hop hs hsw _ => simp [isJumpObj, hs, hop, hsw] at hj

/-! ## statement lists -/

theorem noJumpL_append (a b : List Src.Stmt) :
    noJumpL (Stmts.ofList (a ++ b)) = (noJumpL (Stmts.ofList a) && noJumpL (Stmts.ofList b)) := by
  induction a with
  | nil => simp [Stmts.ofList, noJumpL]
  | cons s r ih => simp [Stmts.ofList, noJumpL, ih, Bool.and_assoc]

theorem lfL_single (s : Src.Stmt) (h : lf s = true) : lfL (Stmts.ofList [s]) = true := by
  simp [Stmts.ofList, lfL, h]

/-- two continuations of an if that passed the "continue at different operations" check are the same vertex -/
theorem eraseDups_two (a b : Nat) (h : ¬ ([a, b].eraseDups.length > 1)) : a = b := by
  by_cases hab : a = b
  · exact hab
  · exfalso; apply h
    have : (b == a) = false := by simpa using fun h : b = a => hab h.symm
    simp [List.eraseDups_cons, List.filter, this]

/-! ## the claims -/

section props
variable (perf : String) (g : BGraph)

/-- what is shown of a handler at vertex `v`, for statements without jumps -/
def JClaim (v : Nat) (r : VRes) : Prop :=
  noJumpL (Stmts.ofList r.out) = true → lfL (Stmts.ofList r.out) = true ∧ (r.next = none → r.eoj = false) ∧ VClaim g v r

def JBlock (fuel : Nat) : Prop :=
  ∀ ind chk vsb pm v first written prev last acc σ r, lfChk chk →
    wBlock fuel g perf ind chk vsb pm (some v) first written prev last acc σ = .ok r →
    (chk = .none → r.next = none) ∧ ∃ code, r.out = acc ++ code ∧
      (noJumpL (Stmts.ofList code) = true → lfL (Stmts.ofList code) = true ∧ ∀ labs N e k, SpecL labs N (Stmts.ofList code) e k →
        (∀ w, r.next = some w → EQ g N k (w, 0)) → EQ g N e (v, 0))

def JVertex (fuel : Nat) : Prop :=
  ∀ ind v x vsb first pm σ r, g.vs[v]? = some x → wVertex fuel g perf ind v x vsb first pm σ = .ok r → JClaim g v r

def JJump (fuel : Nat) : Prop :=
  ∀ ind v x σ r, g.vs[v]? = some x → isJumpObj x = true → wJumpObj fuel g perf ind v x σ = .ok r → JClaim g v r

def JIf (fuel : Nat) : Prop :=
  ∀ ind v x id σ r, g.vs[v]? = some x → isJumpObj x = true → wIf fuel g perf ind v x id σ = .ok r → JClaim g v r

end props

end ESV.Decomp.Wr
