import ESV.Decomp.WrGraph
/-
The writer theorems are proved by induction on the writer's fuel, one property per handler.  This file: facts about the decidable
fragments (`lfGraph`: the label-free fragment - plain ops, context ops in front of a simple op, ifs with `not`, `||`, elseif chains,
no label; on such a graph every block runs until its last vertex has no successor), statement lists, and the claims.
-/
namespace ESV.Decomp.Wr
open ESV ESV.Beh ESV.Decomp ESV.Decomp.BGraph ESV.Decomp.Opt

theorem lfGraph_vertex {perf : String} {g : BGraph} (h : lfGraph perf g = true) {v : Nat} {x : BVertex} (hx : g.vs[v]? = some x) :
    lfVertex perf g v x = true := by
  unfold lfGraph at h
  rw [List.all_eq_true] at h
  exact h (x, v) (List.mem_zipIdx_iff_getElem?.mpr hx)

/-- the `check_end_block` callbacks that occur in the fragment: none (the routine's block) and "end of if `id`" -/
def lfChk (c : EndCheck) : Prop := c = .none ∨ ∃ id, c = .ifEnd id

theorem lfChk.nested {c : EndCheck} (h : lfChk c) : c.disallowNested = false := by
  rcases h with rfl | ⟨id, rfl⟩ <;> rfl

theorem lf_not_label {perf : String} {g : BGraph} {v : Nat} {x : BVertex} (hx : lfVertex perf g v x = true) : isLabelX x = false := by
  unfold lfVertex at hx
  unfold isLabelX
  cases hop : x.op with
  | foreign l => simp [hop] at hx
  | item it =>
    cases it with
    | label i => simp [hop] at hx
    | op o => simp
    | ljump r l c => simp

/-- a vertex of the fragment is not a label: no end check stops in front of it -/
theorem lfChk.goesOn {c : EndCheck} (h : lfChk c) {perf : String} {g : BGraph} {v : Nat} {x : BVertex}
    (hx : lfVertex perf g v x = true) (first : Bool) : c.goesOn x first = true := by
  rcases h with rfl | ⟨id, rfl⟩
  · rfl
  · simp [EndCheck.goesOn, lf_not_label hx]

/-! ## statement lists -/

theorem ofList_append (a b : List Src.Stmt) :
    ∀ labs N e k, SpecL labs N (Stmts.ofList (a ++ b)) e k ↔ ∃ m, SpecL labs N (Stmts.ofList a) e m ∧ SpecL labs N (Stmts.ofList b) m k := by
  induction a with
  | nil =>
    intro labs N e k
    simp only [List.nil_append, Stmts.ofList]
    constructor
    · intro h; exact ⟨e, .nil, h⟩
    · rintro ⟨m, h1, h2⟩; cases h1; exact h2
  | cons s r ih =>
    intro labs N e k
    simp only [List.cons_append, Stmts.ofList]
    constructor
    · intro h
      cases h with
      | cons hs hr =>
        obtain ⟨m, h1, h2⟩ := (ih labs N _ k).mp hr
        exact ⟨m, .cons hs h1, h2⟩
    · rintro ⟨m, h1, h2⟩
      cases h1 with
      | cons hs hr => exact .cons hs ((ih labs N _ k).mpr ⟨m, hr, h2⟩)

theorem lf0L_append (a b : List Src.Stmt) : lf0L (Stmts.ofList (a ++ b)) = (lf0L (Stmts.ofList a) && lf0L (Stmts.ofList b)) := by
  induction a with
  | nil => simp [Stmts.ofList, lf0L]
  | cons s r ih => simp [Stmts.ofList, lf0L, ih, Bool.and_assoc]

theorem lfL_append (a b : List Src.Stmt) : lfL (Stmts.ofList (a ++ b)) = (lfL (Stmts.ofList a) && lfL (Stmts.ofList b)) := by
  induction a with
  | nil => simp [Stmts.ofList, lfL]
  | cons s r ih => simp [Stmts.ofList, lfL, ih, Bool.and_assoc]

theorem specL_single {labs : List (String × Nat)} {N : List Src.Node} {s : Src.Stmt} {e m : Nat}
    (h : SpecL labs N (Stmts.ofList [s]) e m) : SpecS labs N s e m := by
  simp only [Stmts.ofList] at h
  cases h with
  | cons hs hr => cases hr; exact hs

theorem lf0L_single (s : Src.Stmt) (h : lf0 s = true) : lf0L (Stmts.ofList [s]) = true := by
  simp [Stmts.ofList, lf0L, h]

/-! ## the claims -/

section props
variable (perf : String) (g : BGraph)

/-- what is shown of a handler's `write_content()` at vertex `v`: if what follows its statements behaves like the vertex it returns
- or, when it returns none and `v` is an op after which the block writes the dummy `return;`, like running off the end -, the
statements behave like `v` -/
def VClaim (v : Nat) (r : VRes) : Prop :=
  ∀ labs N e m, SpecL labs N (Stmts.ofList r.out) e m → (∀ w, r.next = some w → EQ g N m (w, 0)) →
    (r.next = none → needsDummy g v = true → EQ g N m (st g none)) → EQ g N e (v, 0)

/-- the weaker claim used where every continuation runs off the end (label-free fragment) -/
def VClaim0 (v : Nat) (r : VRes) : Prop :=
  ∀ labs N e m, SpecL labs N (Stmts.ofList r.out) e m → EQ g N m (st g r.next) → EQ g N e (v, 0)

theorem VClaim.weaken {g : BGraph} {v : Nat} {r : VRes} (h : VClaim g v r) : VClaim0 g v r := fun labs N e m hS hm =>
  h labs N e m hS (fun w hw => by rw [hw] at hm; exact hm) (fun hn _ => by rw [hn] at hm; exact hm)

def PBlock (fuel : Nat) : Prop :=
  ∀ ind chk vsb pm cur first written prev last acc σ r, lfChk chk →
    wBlock fuel g perf ind chk vsb pm cur first written prev last acc σ = .ok r →
    r.next = none ∧ ∃ code, r.out = acc ++ code ∧ lf0L (Stmts.ofList code) = true ∧
      ∀ labs N e k, SpecL labs N (Stmts.ofList code) e k → EQ g N k (st g none) → EQ g N e (st g cur)

def PVertex (fuel : Nat) : Prop :=
  ∀ ind v x vsb first pm σ r, g.vs[v]? = some x → wVertex fuel g perf ind v x vsb first pm σ = .ok r →
    lf0L (Stmts.ofList r.out) = true ∧ VClaim0 g v r

def PPlain (fuel : Nat) : Prop :=
  ∀ ind v x o pm σ r, g.vs[v]? = some x → x.op = .item (.op o) → wPlain fuel g perf ind v o pm σ = .ok r →
    lf0L (Stmts.ofList r.out) = true ∧ VClaim0 g v r

def PJump (fuel : Nat) : Prop :=
  ∀ ind v x σ r, g.vs[v]? = some x → isJumpObj x = true → wJumpObj fuel g perf ind v x σ = .ok r →
    lf0L (Stmts.ofList r.out) = true ∧ VClaim0 g v r

def PIf (fuel : Nat) : Prop :=
  ∀ ind v x id σ r, g.vs[v]? = some x → isJumpObj x = true → wIf fuel g perf ind v x id σ = .ok r →
    lf0L (Stmts.ofList r.out) = true ∧ VClaim0 g v r

def PChain (fuel : Nat) : Prop :=
  ∀ ind v id inEdge branches ae conts σ c, wChain fuel g perf ind v id inEdge branches ae conts σ = .ok c →
    ∃ e' more, c.edge = some e' ∧ c.afterElseif = ae ∧ c.branches = branches ++ more ∧ lf0B (Branches.ofList more) = true ∧
      ∀ labs N re k ee, SpecB labs N (Branches.ofList more) re k ee → EQ g N k (st g none) → EQ g N ee (e'.2.dst, 0) →
        EQ g N re (inEdge.2.dst, 0)

end props

end ESV.Decomp.Wr
