import ESV.Decomp.BrModel
import ESV.Decomp.OptDelete
/-
The loop of `build_branches`: invariant, one by-pass, one answer, the whole loop, the final deletion.
-/
namespace ESV.Decomp.Br
open ESV.Beh ESV.Decomp ESV.Decomp.Opt

/-- what holds of the graph and the set `vs_to_delete` throughout the loop: the vertices to delete are Jumps, not
the first vertex, and nothing leads to them any more -/
structure Inv (g : Graph) (del : List Nat) : Prop where
  ld : LD g
  jump : ∀ d ∈ del, isJumpVertex g d = true
  nz : 0 ∉ del
  noin : ∀ d ∈ del, ∀ e ∈ g.es, e.dst ≠ d

theorem isJumpVertex_reconnect (g : Graph) (i new v : Nat) : isJumpVertex (reconnectG g i new) v = isJumpVertex g v := by
  unfold isJumpVertex; rw [reconnectG_vs]

theorem isLabelVertex_reconnect (g : Graph) (i new v : Nat) :
    isLabelVertex (reconnectG g i new) v = isLabelVertex g v := by
  unfold isLabelVertex; rw [reconnectG_vs]

theorem jump_ne_label (g : Graph) (d l : Nat) (hd : isJumpVertex g d = true) (hl : isLabelVertex g l = true) : d ≠ l := by
  intro h; subst h
  unfold isJumpVertex at hd; unfold isLabelVertex at hl
  split at hd <;> simp_all

theorem LD_of_levelsDetermine (g : Graph) (h : levelsDetermine g = true) : LD g := by
  unfold levelsDetermine at h
  rw [List.all_eq_true] at h
  intro e he e' he' hs hl
  have := h e he
  rw [List.all_eq_true] at this
  have := this e' he'
  simp [hs, hl] at this
  exact this

/-- **one by-pass** (`vs_to_delete.add`, `in_edges()`, `_reconnect`) keeps the invariant and the behaviour -/
theorem bypass_step (g : BGraph) (del : List Nat) (j endV : Nat) (hinv : Inv g.toGraph del)
    (hl : isLabelVertex g.toGraph endV = true) (hok : g.jumpOk j endV = true) :
    Inv (g.bypassJump del j endV).1.toGraph (g.bypassJump del j endV).2 ∧
    Equivalent g.toGraph.ltsE (g.bypassJump del j endV).1.toGraph.ltsE (0 : Nat) (0 : Nat) ∧
    isLabelVertex (g.bypassJump del j endV).1.toGraph endV = true := by
  unfold BGraph.bypassJump
  unfold BGraph.jumpOk at hok
  by_cases hj : g.isJumpV j = true
  · rw [if_pos hj]
    simp only [hj, Bool.not_true, Bool.false_or, Bool.and_eq_true, bne_iff_ne, ne_eq] at hok
    obtain ⟨hj0, hok⟩ := hok
    have hjv : isJumpVertex g.toGraph j = true := by rw [← isJumpV_eq]; exact hj
    have hin_def : g.inIds j = inEdgeIds g.toGraph j := rfl
    cases hin : g.inIds j with
    | nil =>
      simp only
      refine ⟨⟨hinv.ld, ?_, ?_, ?_⟩, Equivalent.refl _ _, hl⟩
      · intro d hd
        rcases List.mem_append.mp hd with h | h
        · exact hinv.jump d h
        · simp at h; subst h; exact hjv
      · intro h
        rcases List.mem_append.mp h with h | h
        · exact hinv.nz h
        · simp at h; exact hj0 h.symm
      · intro d hd e he
        rcases List.mem_append.mp hd with h | h
        · exact hinv.noin d h e he
        · simp at h; subst h
          intro hdst
          obtain ⟨k, hk⟩ := List.getElem?_of_mem he
          have : k ∈ inEdgeIds g.toGraph d := (mem_inEdgeIds _ _ _).mpr ⟨e, hk, hdst⟩
          rw [← hin_def, hin] at this; simp at this
    | cons i rest =>
      cases rest with
      | cons _ _ => rw [hin] at hok; simp at hok
      | nil =>
        rw [hin] at hok
        simp only [beq_iff_eq] at hok
        simp only
        rw [toGraph_reconnect]
        have hmem : i ∈ inEdgeIds g.toGraph j := by rw [← hin_def, hin]; simp
        obtain ⟨e, hei, _⟩ := (mem_inEdgeIds _ _ _).mp hmem
        have c : Ctx g.toGraph j endV i e := ⟨hjv, hl, by rw [← hin_def, hin], hei, hok, hinv.ld⟩
        refine ⟨⟨c.ld_reconnect, ?_, ?_, ?_⟩, c.equiv 0 (fun h => hj0 h.symm), ?_⟩
        · intro d hd
          rw [isJumpVertex_reconnect]
          rcases List.mem_append.mp hd with h | h
          · exact hinv.jump d h
          · simp at h; subst h; exact hjv
        · intro h
          rcases List.mem_append.mp h with h | h
          · exact hinv.nz h
          · simp at h; exact hj0 h.symm
        · intro d hd
          rcases List.mem_append.mp hd with h | h
          · exact c.no_new_in d (jump_ne_label _ _ _ (hinv.jump d h) hl) (hinv.noin d h)
          · simp at h; subst h; exact c.no_in
        · rw [isLabelVertex_reconnect]; exact hl
  · rw [if_neg hj]
    exact ⟨hinv, Equivalent.refl _ _, hl⟩

/-- **one answer of the search** -/
theorem applyAnswer_step (g : BGraph) (del : List Nat) (id : Nat) (a : Option (Nat × Nat)) (g2 : BGraph)
    (del2 : List Nat) (hinv : Inv g.toGraph del) (hok : g.answerOk a = true)
    (h : g.applyAnswer del id a = .ok (g2, del2)) :
    Inv g2.toGraph del2 ∧ Equivalent g.toGraph.ltsE g2.toGraph.ltsE (0 : Nat) (0 : Nat) := by
  cases a with
  | none =>
    unfold BGraph.applyAnswer at h
    simp only [Except.ok.injEq, Prod.mk.injEq] at h
    obtain ⟨rfl, rfl⟩ := h
    exact ⟨hinv, Equivalent.refl _ _⟩
  | some p =>
    obtain ⟨ei, ee⟩ := p
    unfold BGraph.applyAnswer at h
    unfold BGraph.answerOk at hok
    simp only at h hok
    cases hei : g.es[ei]? with
    | none => rw [hei] at h; simp at h
    | some eIf =>
      cases hee : g.es[ee]? with
      | none => rw [hei, hee] at h; simp at h
      | some eElse =>
        rw [hei, hee] at h hok
        simp only at h hok
        have same : ∀ {x : BGraph × List Nat}, (Except.ok (g, del) : Except String _) = .ok x →
            Inv x.1.toGraph x.2 ∧ Equivalent g.toGraph.ltsE x.1.toGraph.ltsE (0 : Nat) (0 : Nat) := by
          intro x hx
          simp only [Except.ok.injEq] at hx
          subst hx
          exact ⟨hinv, Equivalent.refl _ _⟩
        by_cases hlab : g.isLabelV eIf.dst = true
        · simp only [hlab, Bool.not_true, Bool.false_eq_true, if_false] at h hok
          split at h
          · exact same h
          · rename_i hloop
            rw [if_neg hloop] at hok
            simp only [Bool.and_eq_true, Bool.or_eq_true, beq_iff_eq] at hok
            obtain ⟨hok1, hok2⟩ := hok
            -- the graph with the IfEnd marker
            have hg1 : (g.addIfEnd eIf.dst id).toGraph = g.toGraph := toGraph_addIfEnd g _ _
            have hlv : isLabelVertex (g.addIfEnd eIf.dst id).toGraph eIf.dst = true := by
              rw [hg1, ← isLabelV_eq]; exact hlab
            have hinv1 : Inv (g.addIfEnd eIf.dst id).toGraph del := by rw [hg1]; exact hinv
            have hj1 : (g.addIfEnd eIf.dst id).jumpOk eIf.src eIf.dst = true := by
              rw [jumpOk_congr _ g hg1]; exact hok1
            obtain ⟨i1, q1, l1⟩ := bypass_step (g.addIfEnd eIf.dst id) del eIf.src eIf.dst hinv1 hlv hj1
            rw [hg1] at q1
            split at h
            · simp only [Except.ok.injEq] at h
              rw [h] at i1 q1
              exact ⟨i1, q1⟩
            · rename_i hne
              simp only [Except.ok.injEq] at h
              have hj2 : ((g.addIfEnd eIf.dst id).bypassJump del eIf.src eIf.dst).1.jumpOk eElse.src eIf.dst = true := by
                rcases hok2 with h' | h'
                · exact absurd (by simpa using h') hne
                · rw [jumpOk_congr _ _ (toGraph_bypassJump _ g hg1 del [] eIf.src eIf.dst)]; exact h'
              obtain ⟨i2, q2, _⟩ := bypass_step _ _ eElse.src eIf.dst i1 l1 hj2
              rw [h] at i2 q2
              exact ⟨i2, Equivalent.trans q1 q2⟩
        · simp only [hlab, Bool.not_false, if_true] at h
          exact same h

/-- **the loop** -/
theorem buildGo_preserves :
    ∀ (todo : List Nat) (answers : List (Option (Nat × Nat))) (g : BGraph) (del : List Nat) (n : Nat)
      (gf : BGraph) (delf : List Nat),
      Inv g.toGraph del → BGraph.answersOkGo todo answers g del n = true →
      BGraph.buildGo todo answers g del n = .ok (gf, delf) →
      Inv gf.toGraph delf ∧ Equivalent g.toGraph.ltsE gf.toGraph.ltsE (0 : Nat) (0 : Nat) := by
  intro todo
  induction todo with
  | nil =>
    intro answers g del n gf delf hinv _ h
    unfold BGraph.buildGo at h
    simp only [Except.ok.injEq, Prod.mk.injEq] at h
    obtain ⟨rfl, rfl⟩ := h
    exact ⟨hinv, Equivalent.refl _ _⟩
  | cons v rest ih =>
    intro answers g del n gf delf hinv hok h
    unfold BGraph.buildGo at h
    unfold BGraph.answersOkGo at hok
    by_cases hb : g.isBranchVertex v = true
    · rw [if_pos hb] at h hok
      cases hlh : g.lowHigh v with
      | none =>
        rw [hlh] at h hok
        exact ih _ _ _ _ _ _ hinv hok h
      | some p =>
        obtain ⟨elseE, ifE⟩ := p
        rw [hlh] at h hok
        simp only at h hok
        by_cases heq : (elseE == ifE) = true
        · rw [if_pos heq] at h; simp at h
        · rw [if_neg heq] at h hok
          by_cases hm : g.hasMarker v = true
          · rw [if_pos hm] at h; simp at h
          · rw [if_neg hm] at h hok
            cases answers with
            | nil => simp at h
            | cons a answers' =>
              simp only at h hok
              have hg1 : ((g.setIfStart v n).setElse elseE).toGraph = g.toGraph := by
                rw [toGraph_setElse, toGraph_setIfStart]
              cases hap : ((g.setIfStart v n).setElse elseE).applyAnswer del n a with
              | error e => rw [hap] at h; simp at h
              | ok r =>
                obtain ⟨g2, del2⟩ := r
                rw [hap] at h hok
                simp only [Bool.and_eq_true] at hok
                have hinv1 : Inv ((g.setIfStart v n).setElse elseE).toGraph del := by rw [hg1]; exact hinv
                obtain ⟨hinv2, q2⟩ := applyAnswer_step _ del n a g2 del2 hinv1 hok.1 hap
                rw [hg1] at q2
                obtain ⟨hf, q3⟩ := ih _ _ _ _ _ _ hinv2 hok.2 h
                exact ⟨hf, Equivalent.trans q2 q3⟩
    · rw [if_neg hb] at h hok
      exact ih _ _ _ _ _ _ hinv hok h

/-- the invariant gives what the final `delete_vertices` needs -/
theorem Inv.delOk {g : Graph} {del : List Nat} (h : Inv g del) : DelOk g del := by
  refine ⟨h.ld, ?_, ?_⟩
  · intro e he _ hd
    exact h.noin _ hd e he rfl
  · intro d hd
    have := h.jump d hd
    unfold isJumpVertex at this
    unfold nonOpV
    split at this
    · rename_i heq; rw [heq]
    · exact absurd this (by simp)

/-- **`build_branches` preserves behaviour** -/
theorem buildBranches_preserves' (answers : List (Option (Nat × Nat))) (g g' : BGraph)
    (hs : branchesStructOk g = true) (ha : answersOk answers g = true)
    (h : buildBranches answers g = .ok g') :
    Equivalent g.toGraph.ltsE g'.toGraph.ltsE (0 : Nat) (0 : Nat) := by
  unfold buildBranches at h
  split at h
  · exact absurd h (by simp)
  · rename_i gf delf hgo
    simp only [Except.ok.injEq] at h
    subst h
    have hinit : Inv g.toGraph [] :=
      ⟨LD_of_levelsDetermine _ hs, by intro d hd; simp at hd, by simp, by intro d hd; simp at hd⟩
    obtain ⟨hinv, q⟩ := buildGo_preserves _ answers g [] 0 gf delf hinit ha hgo
    have := deleteVertices_equiv gf.toGraph delf hinv.delOk 0 hinv.nz
    rw [show renumber delf 0 = 0 from rfl, ← toGraph_deleteVs] at this
    exact Equivalent.trans q this

end ESV.Decomp.Br
