import ESV.Decomp.Group
/-
`SsbGraphMinimizer.build_and_group_switch_cases` and `group_switch_cases` (graph_building/graph_minimizer.py): the two
rewriting phases of the decompiler that `convert()` runs right after `invert_branches`.

* `build_and_group_switch_cases`: a plain op whose name is a key of `OPS_SWITCH_CASE_MAP` and that has out-edges becomes a
  switch: `v["op"] = SsbLabelJump(v["op"], None)` with marker `SwitchStart(id)` (in the model the op stays in `op` and
  `switchStart` is set).  FIRST the chain of case vertices behind it is merged into it: the case edge (highest flow level) of
  every case vertex is copied to `v` with `switch_ops = [SwitchCaseOperation(0, i, root)]`, its two edges are deleted, the
  vertex is deleted at the end of the phase; the end of the chain becomes the target of `v`'s else edge.  SECOND the heuristic
  search `find_first_common_next_vertex_in_edges(g, v.out_edges())` proposes the edges on which the cases reach their common
  end; the end label gets `SwitchEnd(id)`, a Jump directly in front of it is by-passed (copy of its first in-edge to the end
  label, original deleted afterwards) and deleted at the end of the phase.
  The search is NOT modelled: its answers are an ORACLE INPUT (`answers`: per call `none` or the list of edge ids, in call
  order), exactly as in `Branches.lean`.
* `group_switch_cases`: the out-edges of a switch that lead to the same vertex are merged into the first of them that is not
  the else edge (`switch_ops` lists concatenated, `is_else` taken over); deterministic.
-/
namespace ESV.Decomp
open ESV.Beh

/-- one `SwitchCaseOperation(switch_index, index, op)` -/
abbrev SwOp := Nat × Nat × MOp

namespace BGraph

/-- `OPS_SWITCH_CASE_MAP[name]` -/
def switchCasesOf (name : String) : Option (List String) :=
  (ESV.Gen.opsSwitchCaseMap.find? fun kv => kv.1 == name).map (·.2)

/-- `v["op"].op_code.name in OPS_SWITCH_CASE_MAP.keys()`: a plain op (labels, label jumps and already wrapped switch ops
carry the names "ES_LABEL<…>", "ES_JUMP<…>", "ES_OR_MULTI_IF", "ES_FOREIGN<…>"); the op and its list of case op names -/
def switchOpOf (x : BVertex) : Option (MOp × List String) :=
  match x.op, x.switchStart with
  | .item (.op o), none => (switchCasesOf o.name).map fun cs => (o, cs)
  | _, _ => none

/-- `isinstance(v["op"], SsbLabelJump) and isinstance(v["op"].get_marker(), SwitchStart)` -/
def isSwitchVertex (x : BVertex) : Bool :=
  match x.op, x.switchStart with
  | .item (.op _), some _ => true
  | _, _ => false

def isSwitchV (g : BGraph) (v : Nat) : Bool :=
  match g.vs[v]? with
  | some x => isSwitchVertex x
  | none => false

/-- `op.maybe_root` of an `SsbLabelJump` (`none`: not a label jump, or a multi-if, whose root is unset) -/
def rootOfS (x : BVertex) : Option MOp :=
  match x.op, x.ifOps, x.switchStart with
  | .item (.ljump r _ _), [], _ => some r
  | .item (.op o), _, some _ => some o
  | _, _, _ => none

/-- `isinstance(w["op"], SsbLabelJump) and w["op"].maybe_root is not None and w["op"].root.op_code.name in possible_cases` -/
def isCaseV (g : BGraph) (w : Nat) (cases : List String) : Bool :=
  match (g.vs[w]?).bind rootOfS with
  | some r => cases.contains r.name
  | none => false

/-- `isinstance(w["op"], SsbLabelJump) and maybe_root is not None and root.op_code.name == OP_JUMP` -/
def isJumpS (g : BGraph) (w : Nat) : Bool :=
  match (g.vs[w]?).bind rootOfS with
  | some r => r.name == ESV.Gen.op_jump
  | none => false

def setSwitchStartV (id : Nat) (x : BVertex) : BVertex := { x with switchStart := some id }
def setSwitchStart (g : BGraph) (v id : Nat) : BGraph := { g with vs := g.vs.modify v (setSwitchStartV id) }

def addSwitchEndV (id : Nat) (x : BVertex) : BVertex := { x with switchEnds := x.switchEnds ++ [id] }
def addSwitchEnd (g : BGraph) (v id : Nat) : BGraph := { g with vs := g.vs.modify v (addSwitchEndV id) }

/-- `g.delete_edges(ids)` (ids, Edge handles - their stored ids -, a list or a set; repeated ids are harmless) -/
def delEdges (g : BGraph) (ids : List Nat) : BGraph :=
  { g with es := (g.es.zipIdx.filter fun p => !ids.contains p.2).map (·.1) }

def addEdge (g : BGraph) (e : BEdge) : BGraph := { g with es := g.es ++ [e] }

def caseEdge (v i : Nat) (r : MOp) (e : BEdge) : BEdge := { e with src := v, switchOps := [(0, i, r)] }

/-- the `while next_vertex is … a case of this switch` loop for the switch vertex `v`: `next` = `next_vertex`, `i` =
`case_i + 1`, `delH` = the Vertex handles in `vs_to_delete`.  Every round with an else edge makes the graph one edge
smaller, a round without ends the loop: `fuel` = number of edges + 2 is never the reason for an answer. -/
def caseLoop : Nat → BGraph → Nat → List String → Option Nat → Nat → List Nat →
    Except String (BGraph × Option Nat × List Nat)
  | 0, _, _, _, _, _, _ => .error "Hang"
  | fuel+1, g, v, cases, next, i, delH =>
    match next with
    | none => .ok (g, none, delH)
    | some w =>
      if !g.isCaseV w cases then .ok (g, some w, delH)
      else
        -- else_edge, case_edge = find_lowest_and_highest_out_edge(g, next_vertex, "flow_level")
        match g.lowHigh w with
        | none => .error "ValueError"
        | some (lo, hi) =>
          match (g.vs[w]?).bind rootOfS, g.es[hi]?, g.es[lo]? with
          | some r, some eh, some el =>
            -- case_edge["switch_ops"] = [SwitchCaseOperation(0, case_i, root)]; _reconnect(g, v, case_edge, target, True):
            -- a copy from `v` is appended; then the case edge (and the else edge, if it is another one) are deleted
            let g1 := g.addEdge (caseEdge v i r eh)
            if lo == hi then caseLoop fuel (g1.delEdges [hi]) v cases none (i+1) (delH ++ [w])
            else caseLoop fuel (g1.delEdges [hi, lo]) v cases (some el.dst) (i+1) (delH ++ [w])
          | _, _, _ => .error "Unreachable"

def elseEdge (v x : Nat) (attrs : BEdge) : BEdge := { attrs with src := v, dst := x, isElse := true }

/-- the block "# Else edge:"; `attrs` = `current_flow_attributes` (the attributes of the first out-edge of `v`, captured
in front of the loop) -/
def elsePart (g : BGraph) (v : Nat) (attrs : BEdge) : Option Nat → Except String BGraph
  | none => .ok g
  | some x =>
    -- next(e for e in v.out_edges() if e["switch_ops"] is None)
    match (g.outEs v).find? fun p => p.2.switchOps.isEmpty with
    | none => .error "StopIteration"
    | some (i, e) =>
      if e.dst != x then .ok ((g.delEdges [i]).addEdge (elseEdge v x attrs))
      else .ok (g.setElse i)

/-- the loop `for e in result` of the second part: `seen` = `already_updated_switch_end_in_edges` (Edge handles compare by
id), `toDel` = `es_to_delete`, `delI` = the vertex indices added to `vs_to_delete` -/
def bypassLoop (endV : Nat) : List Nat → BGraph → List Nat → List Nat → List Nat →
    Except String (BGraph × List Nat × List Nat)
  | [], g, _, toDel, delI => .ok (g, toDel, delI)
  | i :: rest, g, seen, toDel, delI =>
    if seen.contains i then bypassLoop endV rest g seen toDel delI
    else
      match g.es[i]? with
      | none => .error "Unreachable"
      | some e =>
        if g.isJumpS e.src then
          -- e_before_jump = g.es[g.incident(e.source_vertex, IN)[0]]
          match g.inIds e.src with
          | [] => .error "IndexError"
          | b :: _ =>
            match g.es[b]? with
            | some eb => bypassLoop endV rest (g.addEdge { eb with dst := endV }) (seen ++ [i]) (toDel ++ [b]) (delI ++ [e.src])
            | none => .error "Unreachable"
        else bypassLoop endV rest g (seen ++ [i]) toDel delI

/-- the part "# -- SECOND: FINDING THE END POINTS" for the switch `v` with id `n`, given the answer of the search -/
def endPart (g : BGraph) (n : Nat) (delI : List Nat) : Option (List Nat) → Except String (BGraph × List Nat)
  | none => .ok (g, delI)
  | some ids =>
    -- (the search returns Edge handles of `g`: an id that names no edge cannot come from it)
    if !ids.all (fun i => decide (i < g.es.length)) then .error "OracleEdgeMissing" else
    match ids with
    | [] => .error "IndexError"
    | i0 :: _ =>
      match g.es[i0]? with
      | none => .error "Unreachable"
      | some e0 =>
        let endV := e0.dst
        if !g.isLabelV endV then .ok (g, delI)
        else
          match bypassLoop endV ids (g.addSwitchEnd endV n) [] [] delI with
          | .error e => .error e
          | .ok (g2, toDel, delI') => .ok (g2.delEdges toDel, delI')

/-- the first part for the switch vertex `v` (switch id `n`, case op names `cases`): marker, case chain, else edge -/
def casePart (g : BGraph) (v n : Nat) (cases : List String) (delH : List Nat) : Except String (BGraph × List Nat) :=
  match g.outEs v with
  | [] => .ok (g, delH)          -- not reached: the caller has tested `len(out_edges) == 0`
  | (_, e0) :: _ =>
    match caseLoop (g.es.length + 2) (g.setSwitchStart v n) v cases (some e0.dst) 0 delH with
    | .error e => .error e
    | .ok (g1, next, delH') =>
      match g1.elsePart v e0 next with
      | .error e => .error e
      | .ok g2 => .ok (g2, delH')

/-- the loop `for v in g.vs` of `build_and_group_switch_cases`; `n` = `current_switch_id + 1`; `vs_to_delete` holds Vertex
handles (`delH`, the case vertices) and ints (`delI`, the Jumps): `v not in vs_to_delete` only finds the handles -/
def switchGo : List Nat → List (Option (List Nat)) → BGraph → List Nat → List Nat → Nat →
    Except String (BGraph × List Nat × List Nat)
  | [], _, g, delH, delI, _ => .ok (g, delH, delI)
  | v :: rest, answers, g, delH, delI, n =>
    match (g.vs[v]?).bind switchOpOf with
    | none => switchGo rest answers g delH delI n
    | some (_, cases) =>
      if delH.contains v then switchGo rest answers g delH delI n
      else if (g.outEs v).isEmpty then switchGo rest answers g delH delI (n+1)
      else
        match g.casePart v n cases delH with
        | .error e => .error e
        | .ok (g2, delH') =>
          if (g2.outEs v).length < 2 then switchGo rest answers g2 delH' delI (n+1)
          else
            match answers with
            | [] => .error "OracleExhausted"
            | a :: answers' =>
              match g2.endPart n delI a with
              | .error e => .error e
              | .ok (g3, delI') => switchGo rest answers' g3 delH' delI' (n+1)

/-- `first_e` absorbs the rest of its group: `is_else` taken over, `switch_ops` lists concatenated (`None += list` and
`list += None` are TypeErrors) -/
def absorb (first : BEdge) : List BEdge → Except String BEdge
  | [] => .ok first
  | r :: rest =>
    if r.isElse then absorb { first with isElse := true } rest
    else if first.switchOps.isEmpty || r.switchOps.isEmpty then .error "TypeError"
    else absorb { first with switchOps := first.switchOps ++ r.switchOps } rest

/-- the loop `for e_group in case_targets.values()` for one switch vertex; `outs` = `v.out_edges()`; the dict
`case_targets` keeps the targets in the order of their first out-edge: the loop walks the out-edges and skips targets it has
already `seen` -/
def groupTargets (outs : List (Nat × BEdge)) : List (Nat × BEdge) → List Nat → BGraph → List Nat →
    Except String (BGraph × List Nat)
  | [], _, g, toDel => .ok (g, toDel)
  | p :: ps, seen, g, toDel =>
    if seen.contains p.2.dst then groupTargets outs ps seen g toDel
    else
      let grp := outs.filter fun q => q.2.dst == p.2.dst
      match grp.findIdx? fun q => !q.2.isElse with
      | none => groupTargets outs ps (p.2.dst :: seen) g toDel          -- StopIteration: the group only has an else
      | some k =>
        match grp[k]? with
        | none => .error "Unreachable"
        | some (fi, fe) =>
          let rest := grp.eraseIdx k
          match absorb fe (rest.map (·.2)) with
          | .error e => .error e
          | .ok fe' => groupTargets outs ps (p.2.dst :: seen) { g with es := g.es.set fi fe' } (toDel ++ rest.map (·.1))

/-- the loop `for v in g.vs` of `group_switch_cases` -/
def groupSwGo : List Nat → BGraph → List Nat → Except String (BGraph × List Nat)
  | [], g, toDel => .ok (g, toDel)
  | v :: rest, g, toDel =>
    if g.isSwitchV v then
      let outs := g.outEs v
      match groupTargets outs outs [] g toDel with
      | .error e => .error e
      | .ok (g', toDel') => groupSwGo rest g' toDel'
    else groupSwGo rest g toDel

end BGraph

/-- state of `build_and_group_switch_cases` in front of its final `delete_vertices`: graph, handles, ints -/
def buildSwitchCasesRaw (answers : List (Option (List Nat))) (g : BGraph) : Except String (BGraph × List Nat × List Nat) :=
  BGraph.switchGo (List.range g.vs.length) answers g [] [] 0

/-- `build_and_group_switch_cases` for one routine graph, given the answers of the search it calls -/
def buildSwitchCases (answers : List (Option (List Nat))) (g : BGraph) : Except String BGraph :=
  match buildSwitchCasesRaw answers g with
  | .error e => .error e
  | .ok (g', delH, delI) => .ok (g'.deleteVs (delH ++ delI))

/-- `group_switch_cases` for one routine graph -/
def groupSwitchCases (g : BGraph) : Except String BGraph :=
  match BGraph.groupSwGo (List.range g.vs.length) g [] with
  | .error e => .error e
  | .ok (g', toDel) => .ok (g'.delEdges toDel)

end ESV.Decomp
