import ESV.Decomp.GrGuard
import ESV.Decomp.GraphCounter
/-
Why the theorems about `group_branches` / `invert_branches` ask what they ask: graphs that violate one hypothesis
each, on which the phase answers and changes behaviour (flag-based reading `stepB`), plus the two plain examples the
non-vacuity checks of lean/ESV/Props/DecompGroup.lean use.  The same graphs are replayed on the real passes by the
graph-level tie (harness/decomp_front.py, `GROUP_WITNESSES`).
-/
namespace ESV.Decomp
open ESV.Beh

def ifv (i : Nat) (off : Int) (name : String) (ifs : Nat) (isNot : Bool := false) : BVertex :=
  ⟨some i, .item (.ljump ⟨off, name, []⟩ 0 false), some ifs, [], [], isNot, none, [], false, false, none, [], none, none, false⟩
def opv (i : Nat) (off : Int) (name : String) : BVertex := ⟨some i, .item (.op ⟨off, name, []⟩), none, [], [], false, none, [], false, false, none, [], none, none, false⟩
def labv (i : Nat) (id : Nat) (ife : List Nat) : BVertex := ⟨some i, .item (.label id), none, ife, [], false, none, [], false, false, none, [], none, none, false⟩
def fe (s d lv : Nat) (isElse : Bool) : BEdge := ⟨s, d, lv, false, isElse, []⟩

/-- `if (Branch || BranchBit) { Foo } else { Bar }` before grouping -/
def exOr : BGraph :=
  { vs := [ifv 0 0 "Branch" 0, ifv 1 1 "BranchBit" 1, opv 2 2 "Bar", labv 3 1 [0, 1], opv 4 3 "Foo", opv 5 4 "Return"],
    es := [fe 0 1 0 true, fe 0 4 1 false, fe 1 2 0 true, fe 1 4 1 false, fe 2 3 0 false, fe 4 3 0 false, fe 3 5 0 false] }

/-- `Foo` leads INTO the second if: the vertex that is merged away has an in-edge from a vertex that stays -/
def cexGroupInEdge : BGraph :=
  { vs := [ifv 0 0 "Branch" 0, ifv 1 1 "BranchBit" 1, opv 2 2 "Bar", opv 3 3 "Return", opv 4 4 "Foo"],
    es := [fe 0 1 0 true, fe 0 4 1 false, fe 1 2 0 true, fe 1 4 1 false, fe 2 3 0 false, fe 4 1 0 false] }

/-- the routine STARTS with the if that is merged away (the grouping if is reached by a jump back) -/
def cexGroupStart : BGraph :=
  { vs := [ifv 0 0 "BranchBit" 0, opv 1 1 "Bar", ifv 2 2 "Branch" 1, opv 3 3 "Foo"],
    es := [fe 0 1 0 true, fe 0 3 1 false, fe 2 0 0 true, fe 2 3 1 false, fe 1 2 0 false] }

/-- an if that is already inverted is grouped: the fresh `MultiIfStart` forgets `is_not` -/
def cexGroupNot : BGraph :=
  { vs := [ifv 0 0 "Branch" 0 true, ifv 1 1 "BranchBit" 1, opv 2 2 "Bar", opv 3 3 "Foo"],
    es := [fe 0 1 0 true, fe 0 3 1 false, fe 1 2 0 true, fe 1 3 1 false] }

/-- two else-edges at the grouping if: after the reconnect ANOTHER edge is the first else-edge in igraph's order -/
def cexGroupTwoElse : BGraph :=
  { vs := [ifv 0 0 "Branch" 0, ifv 1 1 "BranchBit" 1, opv 2 2 "Qux", opv 3 3 "Bar", opv 4 4 "Foo"],
    es := [fe 0 1 0 true, fe 0 2 0 true, fe 0 4 1 false, fe 1 3 0 true, fe 1 4 1 false] }

/-- `if (Branch) { } else { Foo }` before inverting -/
def exInvert : BGraph :=
  { vs := [ifv 0 0 "Branch" 0, opv 1 1 "Foo", labv 2 1 [0], opv 3 2 "Return"],
    es := [fe 0 1 0 true, fe 0 2 1 false, fe 1 2 0 false, fe 2 3 0 false] }

/-- an if that is already inverted: `is_not` stays `True`, the flags are swapped again -/
def cexInvertTwice : BGraph :=
  { vs := [ifv 0 0 "Branch" 0 true, opv 1 1 "Foo", labv 2 1 [0], opv 3 2 "Bar"],
    es := [fe 0 1 0 true, fe 0 2 1 false, fe 1 2 0 false, fe 2 3 0 false] }

/-- two else-edges: after the swap the first else-edge is not the old if-edge -/
def cexInvertTwoElse : BGraph :=
  { vs := [ifv 0 0 "Branch" 0, opv 1 1 "Foo", opv 2 2 "Qux", labv 3 1 [0], opv 4 3 "Bar"],
    es := [fe 0 1 0 true, fe 0 2 0 true, fe 0 3 1 false, fe 1 3 0 false, fe 2 3 0 false, fe 3 4 0 false] }

def afterGroup (g : BGraph) : BGraph := match groupBranches g with | .ok g' => g' | .error _ => ⟨[], []⟩
def afterInvert (g : BGraph) : BGraph := match invertBranches g with | .ok g' => g' | .error _ => ⟨[], []⟩

/-- `groupDelOk` is needed (1): an in-edge of the merged-away if from a vertex that stays is cut by the final
`delete_vertices`: `Branch` taken, `Foo`, `BranchBit` not taken, `Bar`, Return - afterwards `Foo` runs off the end -/
theorem groupBranches_in_edge_counterexample :
    groupStructOk cexGroupInEdge = true ∧ groupDelOk cexGroupInEdge = false ∧
    ∃ g', groupBranches cexGroupInEdge = .ok g' ∧ ¬ Equivalent cexGroupInEdge.ltsB g'.ltsB (0 : Nat) (0 : Nat) := by
  refine ⟨by decide, by decide, afterGroup cexGroupInEdge, by rfl, ?_⟩
  intro h
  exact not_sim_of_traces cexGroupInEdge.ltsB (afterGroup cexGroupInEdge).ltsB (0 : Nat) (0 : Nat) (fun k => k == 0) 8 8
    [.tst ⟨"Branch", []⟩ true, .op ⟨"Foo", []⟩, .tst ⟨"BranchBit", []⟩ false, .op ⟨"Bar", []⟩, .stop ⟨"Return", []⟩]
    [.tst ⟨"Branch", []⟩ true, .op ⟨"Foo", []⟩, .stop evReturn]
    (by rfl) (by rfl) (by decide) h.1

/-- `groupDelOk` is needed (2): the merged-away if must not be vertex 0, where the routine starts -/
theorem groupBranches_start_vertex_counterexample :
    groupStructOk cexGroupStart = true ∧ groupDelOk cexGroupStart = false ∧
    ∃ g', groupBranches cexGroupStart = .ok g' ∧ ¬ Equivalent cexGroupStart.ltsB g'.ltsB (0 : Nat) (0 : Nat) := by
  refine ⟨by decide, by decide, afterGroup cexGroupStart, by rfl, ?_⟩
  intro h
  exact not_sim_of_traces cexGroupStart.ltsB (afterGroup cexGroupStart).ltsB (0 : Nat) (0 : Nat) (fun _ => true) 8 8
    [.tst ⟨"BranchBit", []⟩ true, .op ⟨"Foo", []⟩, .stop evReturn]
    [.op ⟨"Bar", []⟩, .tst ⟨"Branch", []⟩ true, .op ⟨"Foo", []⟩, .stop evReturn]
    (by rfl) (by rfl) (by decide) h.1

/-- `noNot` is needed for `group_branches`: the first round replaces the marker by a fresh `MultiIfStart` with
`is_not = False` -/
theorem groupBranches_inverted_counterexample :
    flagsUnique cexGroupNot = true ∧ groupDelOk cexGroupNot = true ∧
    noNot cexGroupNot = false ∧
    ∃ g', groupBranches cexGroupNot = .ok g' ∧ ¬ Equivalent cexGroupNot.ltsB g'.ltsB (0 : Nat) (0 : Nat) := by
  refine ⟨by decide, by decide, by decide, afterGroup cexGroupNot, by rfl, ?_⟩
  intro h
  exact not_sim_of_traces cexGroupNot.ltsB (afterGroup cexGroupNot).ltsB (0 : Nat) (0 : Nat) (fun _ => false) 8 8
    [.tst ⟨"Branch", []⟩ false, .op ⟨"Foo", []⟩, .stop evReturn]
    [.tst ⟨"Branch", []⟩ false, .tst ⟨"BranchBit", []⟩ false, .op ⟨"Bar", []⟩, .stop evReturn]
    (by rfl) (by rfl) (by decide) h.1

/-- `flagsUnique` is needed for `group_branches`: with a second else-edge at the grouping if, the re-added edge (new
target, highest id) need not be the first else-edge any more -/
theorem groupBranches_two_else_counterexample :
    noNot cexGroupTwoElse = true ∧ groupDelOk cexGroupTwoElse = true ∧
    flagsUnique cexGroupTwoElse = false ∧
    ∃ g', groupBranches cexGroupTwoElse = .ok g' ∧ ¬ Equivalent cexGroupTwoElse.ltsB g'.ltsB (0 : Nat) (0 : Nat) := by
  refine ⟨by decide, by decide, by decide, afterGroup cexGroupTwoElse, by rfl, ?_⟩
  intro h
  exact not_sim_of_traces cexGroupTwoElse.ltsB (afterGroup cexGroupTwoElse).ltsB (0 : Nat) (0 : Nat) (fun _ => false) 8 8
    [.tst ⟨"Branch", []⟩ false, .tst ⟨"BranchBit", []⟩ false, .op ⟨"Bar", []⟩, .stop evReturn]
    [.tst ⟨"Branch", []⟩ false, .tst ⟨"BranchBit", []⟩ false, .op ⟨"Qux", []⟩, .stop evReturn]
    (by rfl) (by rfl) (by decide) h.1

/-- `noNot` is needed for `invert_branches`: `marker.is_not = True` whatever it was -/
theorem invertBranches_twice_counterexample :
    flagsUnique cexInvertTwice = true ∧ noNot cexInvertTwice = false ∧
    ∃ g', invertBranches cexInvertTwice = .ok g' ∧ ¬ Equivalent cexInvertTwice.ltsB g'.ltsB (0 : Nat) (0 : Nat) := by
  refine ⟨by decide, by decide, afterInvert cexInvertTwice, by rfl, ?_⟩
  intro h
  exact not_sim_of_traces cexInvertTwice.ltsB (afterInvert cexInvertTwice).ltsB (0 : Nat) (0 : Nat) (fun _ => true) 8 8
    [.tst ⟨"Branch", []⟩ true, .op ⟨"Foo", []⟩, .op ⟨"Bar", []⟩, .stop evReturn]
    [.tst ⟨"Branch", []⟩ true, .op ⟨"Bar", []⟩, .stop evReturn]
    (by rfl) (by rfl) (by decide) h.1

/-- `flagsUnique` is needed for `invert_branches`: with a second else-edge, the first else-edge after the swap is not
the old if-edge -/
theorem invertBranches_two_else_counterexample :
    noNot cexInvertTwoElse = true ∧ flagsUnique cexInvertTwoElse = false ∧
    ∃ g', invertBranches cexInvertTwoElse = .ok g' ∧ ¬ Equivalent cexInvertTwoElse.ltsB g'.ltsB (0 : Nat) (0 : Nat) := by
  refine ⟨by decide, by decide, afterInvert cexInvertTwoElse, by rfl, ?_⟩
  intro h
  exact not_sim_of_traces cexInvertTwoElse.ltsB (afterInvert cexInvertTwoElse).ltsB (0 : Nat) (0 : Nat) (fun _ => true) 8 8
    [.tst ⟨"Branch", []⟩ true, .op ⟨"Bar", []⟩, .stop evReturn]
    [.tst ⟨"Branch", []⟩ true, .op ⟨"Qux", []⟩, .op ⟨"Bar", []⟩, .stop evReturn]
    (by rfl) (by rfl) (by decide) h.1

end ESV.Decomp
