import ESV.Decomp.GraphOkShape
/-
Every base graph satisfies `graphOk`.
-/
namespace ESV.Decomp
open ESV.Beh

section
variable {labels : List Lbl} {opt : Bool} {rid : Nat} {items : List Item} {visited : List Nat} {g : Graph}

theorem Final.item_of_vs (F : Final labels opt rid items visited g) (v : Nat) (it : Item)
    (h : g.vs[v]? = some (.item it)) : items[v]? = some it := by
  obtain ⟨fs, h1, h2⟩ := F.vsShape
  rcases Nat.lt_or_ge v items.length with hlt | hge
  · have hi : items[v]? = some items[v] := by simp [hlt]
    rw [F.vs_item v _ hi] at h
    simp only [Option.some.injEq, VOp.item.injEq] at h
    rw [hi, h]
  · rw [h1, List.getElem?_append_right (by simpa using hge)] at h
    obtain ⟨lid, hl⟩ := h2 _ (List.mem_of_getElem? h)
    simp at hl

theorem Final.items_le (F : Final labels opt rid items visited g) : items.length ≤ g.vs.length := by
  obtain ⟨fs, h1, _⟩ := F.vsShape
  rw [h1]; simp

theorem isLabelVertex_item (F : Final labels opt rid items visited g) (v : Nat)
    (h : isLabelVertex g v = true) : ∃ id, items[v]? = some (.label id) := by
  unfold isLabelVertex at h
  split at h
  · rename_i id hv; exact ⟨id, F.item_of_vs v _ hv⟩
  · simp at h

theorem CountOk.mem (s : Nat) (S : List (Nat × Nat)) (h : outKeys g s = S.map (fun p => (s, p.1, p.2)))
    (l d : Nat) : (s, l, d) ∈ keys g ↔ (l, d) ∈ S := by
  rw [← mem_outKeys, h]
  simp only [List.mem_map, Prod.mk.injEq, true_and]
  constructor
  · rintro ⟨p, hp, rfl, rfl⟩; exact hp
  · intro hp; exact ⟨(l, d), hp, rfl, rfl⟩

theorem ok_labelSingleOut (F : Final labels opt rid items visited g) (C : CountOk labels opt rid items g) :
    labelSingleOut g = true := by
  unfold labelSingleOut
  rw [List.all_eq_true]
  intro v _
  cases hl : isLabelVertex g v with
  | false => simp
  | true =>
    simp only [Bool.not_true, Bool.false_or, decide_eq_true_eq]
    rw [length_outEdges]
    obtain ⟨id, hid⟩ := isLabelVertex_item F v hl
    obtain ⟨S, h1, h2⟩ := C v
    rw [h1, List.length_map]
    rcases h2 with rfl | ⟨lv, g0, g1, h2, _⟩
    · simp
    · exact nextFor_label_length labels opt rid items g0 g1 lv v S id hid h2

theorem ok_labelNext (F : Final labels opt rid items visited g) (C : CountOk labels opt rid items g) :
    labelNext g = true := by
  unfold labelNext
  rw [List.all_eq_true]
  intro e he
  cases hl : isLabelVertex g e.src with
  | false => simp
  | true =>
    simp only [Bool.not_true, Bool.false_or, beq_iff_eq]
    obtain ⟨id, hid⟩ := isLabelVertex_item F _ hl
    obtain ⟨S, lv, g0, g1, hnf, hm, _, _⟩ := C.edge e.src e.level e.dst (key_of_mem g e he)
    obtain ⟨it, hit, T, hT1, hT2⟩ := nextFor_shape labels opt rid items g0 g1 lv e.src S hnf
    rcases hT1 _ _ hm with h | ⟨_, h⟩
    · exact h.2.1
    · obtain ⟨r, lid, c, hr, _⟩ := hT2 _ h
      rw [hid] at hit
      rw [hr] at hit
      simp at hit

theorem ok_levelsDetermine (C : CountOk labels opt rid items g) : levelsDetermine g = true := by
  unfold levelsDetermine
  rw [List.all_eq_true]
  intro e he
  rw [List.all_eq_true]
  intro e' he'
  cases hc : (e.src == e'.src && e.level == e'.level) with
  | false => simp
  | true =>
    simp only [Bool.not_true, Bool.false_or, beq_iff_eq]
    simp only [Bool.and_eq_true, beq_iff_eq] at hc
    obtain ⟨S, lv, g0, g1, hnf, hm, hk, _⟩ := C.edge e.src e.level e.dst (key_of_mem g e he)
    have hm' : (e'.level, e'.dst) ∈ S := by
      rw [← CountOk.mem e.src S hk, hc.1]
      exact key_of_mem g e' he'
    obtain ⟨it, hit, T, hT1, hT2⟩ := nextFor_shape labels opt rid items g0 g1 lv e.src S hnf
    rcases hT1 _ _ hm with h | h
    · rcases hT1 _ _ hm' with h' | h'
      · rw [h.2.1, h'.2.1]
      · omega
    · rcases hT1 _ _ hm' with h' | h'
      · omega
      · have := h.2.symm.trans h'.2
        simpa using this

theorem ok_edgesInRange (F : Final labels opt rid items visited g) (C : CountOk labels opt rid items g) :
    edgesInRange g = true := by
  unfold edgesInRange
  rw [List.all_eq_true]
  intro e he
  have hk := key_of_mem g e he
  simp only [Bool.and_eq_true, decide_eq_true_eq]
  refine ⟨?_, ?_⟩
  · obtain ⟨S, lv, g0, g1, hnf, _, _, _⟩ := C.edge e.src e.level e.dst hk
    obtain ⟨prev, it, _, hit⟩ := nextFor_none labels opt rid items g0 lv e.src S g1 hnf
    have : e.src < items.length := by
      rcases Nat.lt_or_ge e.src items.length with h | h
      · exact h
      · rw [List.getElem?_eq_none h] at hit; simp at hit
    have := F.items_le
    omega
  · rcases F.dst_ok _ _ _ hk with h | ⟨lid, h⟩
    · have := F.items_le; omega
    · rcases Nat.lt_or_ge e.dst g.vs.length with h' | h'
      · exact h'
      · rw [List.getElem?_eq_none h'] at h; simp at h

end

theorem baseGraph_graphOk (labels : List Lbl) (opt : Bool) (rid : Nat) (items : List Item) (g : Graph)
    (hg : baseGraph labels opt rid items = .ok g) : graphOk g = true := by
  rcases Nat.eq_zero_or_pos items.length with h0 | hpos
  · unfold baseGraph at hg
    rw [if_pos (by omega)] at hg
    simp only [Except.ok.injEq] at hg
    subst hg
    decide
  · obtain ⟨visited, F, _, C⟩ := baseGraph_final labels opt rid items g hg hpos
    unfold graphOk
    rw [ok_labelSingleOut F C, ok_labelNext F C, ok_levelsDetermine C, ok_edgesInRange F C]
    rfl

end ESV.Decomp
