import ESV.Decomp.BrLts
import ESV.Decomp.OptEdges
import ESV.Decomp.OptMorph
import ESV.Decomp.OptStep
/-
`_reconnect` on the level of `Graph`: the single in-edge `i` of a Jump vertex `J` is deleted and re-added with the
end label `endV` (= where the Jump goes) as its target.  As a set, every edge keeps source, level and loop flag and has
its target renamed by `tgt J endV`; hence `stepE` after = `mapStep (tgt J endV)` of `stepE` before (`stepE_morph`), and
by `equiv_of_bypass` every vertex but `J` behaves as before.
-/
namespace ESV.Decomp.Br
open ESV.Beh ESV.Decomp ESV.Decomp.Opt

/-- `attr = e.attributes(); g.delete_edges(e); g.add_edge(e.source, new, **attr)` for the edge with id `i` -/
def reconnectG (g : Graph) (i new : Nat) : Graph :=
  match g.es[i]? with
  | some e => { g with es := g.es.eraseIdx i ++ [{ e with dst := new }] }
  | none => g

/-- the situation in which `build_branches` by-passes a Jump -/
structure Ctx (g : Graph) (J endV i : Nat) (e : Edge) : Prop where
  jump : isJumpVertex g J = true
  label : isLabelVertex g endV = true
  ins : inEdgeIds g J = [i]
  ei : g.es[i]? = some e
  target : g.jumpTarget J = endV
  ld : LD g

theorem reconnectG_vs (g : Graph) (i new : Nat) : (reconnectG g i new).vs = g.vs := by
  unfold reconnectG; split <;> rfl

theorem reconnectG_es (g : Graph) (i new : Nat) (e : Edge) (h : g.es[i]? = some e) :
    (reconnectG g i new).es = g.es.eraseIdx i ++ [{ e with dst := new }] := by
  unfold reconnectG; rw [h]

theorem mem_reconnectG (g : Graph) (i new : Nat) (e : Edge) (h : g.es[i]? = some e) (e' : Edge) :
    e' ∈ (reconnectG g i new).es ↔ (∃ k, k ≠ i ∧ g.es[k]? = some e') ∨ e' = { e with dst := new } := by
  rw [reconnectG_es g i new e h, List.mem_append, List.mem_eraseIdx_iff_getElem?]
  simp

namespace Ctx
variable {g : Graph} {J endV i : Nat} {e : Edge}

theorem e_dst (c : Ctx g J endV i e) : e.dst = J := (inEdge_unique g J i e c.ins c.ei).1

/-- an edge with another id does not lead to `J` -/
theorem other_dst (c : Ctx g J endV i e) (k : Nat) (e' : Edge) (hk : k ≠ i) (h : g.es[k]? = some e') : e'.dst ≠ J := by
  intro hd
  have : k ∈ inEdgeIds g J := (mem_inEdgeIds g J k).mpr ⟨e', h, hd⟩
  rw [c.ins] at this; simp at this; exact hk this

theorem J_lt (c : Ctx g J endV i e) : J < g.vs.length := by
  have := c.jump; unfold isJumpVertex at this
  cases hv : g.vs[J]? with
  | none => simp [hv] at this
  | some x => exact (List.getElem?_eq_some_iff.mp hv).1

theorem endV_ne (c : Ctx g J endV i e) : endV ≠ J := by
  intro h
  have h1 := c.jump; have h2 := c.label
  rw [h] at h2
  unfold isJumpVertex at h1; unfold isLabelVertex at h2
  split at h1 <;> simp_all

/-- the edges after the reconnect: targets renamed by `tgt J endV` -/
theorem edgeCorr (c : Ctx g J endV i e) (b : Nat) :
    EdgeCorr g (reconnectG g i endV) b b (tgt J endV) := by
  constructor
  · intro e' he' hs
    rcases (mem_reconnectG g i endV e c.ei e').mp he' with ⟨k, hk, hek⟩ | rfl
    · exact ⟨e', List.mem_of_getElem? hek, hs, rfl, tgt_ne _ _ _ (c.other_dst k e' hk hek)⟩
    · exact ⟨e, List.mem_of_getElem? c.ei, hs, rfl, by rw [c.e_dst, tgt_self]⟩
  · intro e' he' hs
    obtain ⟨k, hk⟩ := List.getElem?_of_mem he'
    by_cases hki : k = i
    · subst hki
      rw [c.ei] at hk; cases hk
      exact ⟨{ e with dst := endV }, (mem_reconnectG g k endV e c.ei _).mpr (Or.inr rfl), hs, rfl,
        by rw [c.e_dst, tgt_self]⟩
    · exact ⟨e', (mem_reconnectG g i endV e c.ei _).mpr (Or.inl ⟨k, hki, hk⟩), hs, rfl,
        (tgt_ne _ _ _ (c.other_dst k e' hki hk)).symm⟩

theorem isCtxVertex_eq (g : Graph) (i new v : Nat) : (reconnectG g i new).isCtxVertex v = g.isCtxVertex v := by
  unfold Graph.isCtxVertex; rw [reconnectG_vs]

/-- "behind a context op" is untouched for plain ops: the moved edge leads from a Jump's predecessor to a label -/
theorem afterCtxE_eq (c : Ctx g J endV i e) (b : Nat) (o : MOp) (hb : g.vs[b]? = some (.item (.op o))) :
    (reconnectG g i endV).afterCtxE b = g.afterCtxE b := by
  have hbJ : b ≠ J := by
    intro h; have := c.jump; unfold isJumpVertex at this; rw [← h, hb] at this; simp at this
  have hbE : b ≠ endV := by
    intro h; have := c.label; unfold isLabelVertex at this; rw [← h, hb] at this; simp at this
  unfold Graph.afterCtxE
  rw [Bool.eq_iff_iff, List.any_eq_true, List.any_eq_true]
  simp only [isCtxVertex_eq]
  constructor
  · rintro ⟨e', he', hc⟩
    rcases (mem_reconnectG g i endV e c.ei e').mp he' with ⟨k, _, hek⟩ | rfl
    · exact ⟨e', List.mem_of_getElem? hek, hc⟩
    · simp only [Bool.and_eq_true, beq_iff_eq] at hc
      exact absurd hc.1.symm hbE
  · rintro ⟨e', he', hc⟩
    obtain ⟨k, hk⟩ := List.getElem?_of_mem he'
    have hki : k ≠ i := by
      intro h; subst h; rw [c.ei] at hk; cases hk
      simp only [Bool.and_eq_true, beq_iff_eq] at hc
      exact hbJ (by rw [← hc.1, c.e_dst])
    exact ⟨e', (mem_reconnectG g i endV e c.ei _).mpr (Or.inl ⟨k, hki, hk⟩), hc⟩

theorem stepE_reconnect (c : Ctx g J endV i e) (b : Nat) :
    (reconnectG g i endV).stepE b = mapStep (tgt J endV) (g.stepE b) := by
  have hlt := c.J_lt
  apply stepE_morph g (reconnectG g i endV) b b (tgt J endV) (by rw [reconnectG_vs]) (c.edgeCorr b) c.ld
  · unfold Graph.fellOff; rw [reconnectG_vs]; exact tgt_ne _ _ _ (by omega)
  · unfold Graph.stuck; rw [reconnectG_vs]; exact tgt_ne _ _ _ (by omega)
  · intro _; unfold Graph.fellOff; rw [reconnectG_vs]
  · intro o ho; exact c.afterCtxE_eq b o ho

theorem stepE_J (c : Ctx g J endV i e) : g.stepE J = .silent endV := by
  rw [stepE_jump g J c.jump, c.target]

/-- **one by-pass**: every vertex but the Jump behaves as before -/
theorem equiv (c : Ctx g J endV i e) (a : Nat) (ha : a ≠ J) :
    Equivalent g.ltsE (reconnectG g i endV).ltsE a a :=
  equiv_of_bypass g.stepE (reconnectG g i endV).stepE J endV
    ⟨fun b _ => c.stepE_reconnect b, c.stepE_J, c.endV_ne⟩ a ha

/-- after the reconnect nothing leads to the Jump -/
theorem no_in (c : Ctx g J endV i e) : ∀ e' ∈ (reconnectG g i endV).es, e'.dst ≠ J := by
  intro e' he'
  rcases (mem_reconnectG g i endV e c.ei e').mp he' with ⟨k, hk, hek⟩ | rfl
  · exact c.other_dst k e' hk hek
  · exact c.endV_ne

/-- and nothing new leads to a vertex that is not the end label -/
theorem no_new_in (c : Ctx g J endV i e) (d : Nat) (hd : d ≠ endV) (h : ∀ e' ∈ g.es, e'.dst ≠ d) :
    ∀ e' ∈ (reconnectG g i endV).es, e'.dst ≠ d := by
  intro e' he'
  rcases (mem_reconnectG g i endV e c.ei e').mp he' with ⟨k, _, hek⟩ | rfl
  · exact h e' (List.mem_of_getElem? hek)
  · exact fun h' => hd h'.symm

/-- edges of one source and level still have one target -/
theorem ld_reconnect (c : Ctx g J endV i e) : LD (reconnectG g i endV) := by
  intro e1 h1 e2 h2 hs hl
  rcases (mem_reconnectG g i endV e c.ei e1).mp h1 with ⟨k1, hk1, he1⟩ | rfl
  · rcases (mem_reconnectG g i endV e c.ei e2).mp h2 with ⟨k2, hk2, he2⟩ | rfl
    · exact c.ld e1 (List.mem_of_getElem? he1) e2 (List.mem_of_getElem? he2) hs hl
    · have := c.ld e1 (List.mem_of_getElem? he1) e (List.mem_of_getElem? c.ei) hs hl
      exact absurd (this.trans c.e_dst) (c.other_dst k1 e1 hk1 he1)
  · rcases (mem_reconnectG g i endV e c.ei e2).mp h2 with ⟨k2, hk2, he2⟩ | rfl
    · have := c.ld e2 (List.mem_of_getElem? he2) e (List.mem_of_getElem? c.ei) hs.symm hl.symm
      exact absurd (this.trans c.e_dst) (c.other_dst k2 e2 hk2 he2)
    · rfl

end Ctx
end ESV.Decomp.Br
