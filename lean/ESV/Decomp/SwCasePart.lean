import ESV.Decomp.SwCaseAll
/-
The first part of `build_and_group_switch_cases` for one switch op (`casePart`: marker, case loop, else edge): what the
graph looks like afterwards (`CaseEnd`), in terms of the graph before and the chain of merged case vertices.
-/
namespace ESV.Decomp.Sw
open ESV.Beh ESV.Decomp ESV.Decomp.Opt ESV.Decomp.Gr

structure CaseEnd (g : BGraph) (v n : Nat) (g2 : BGraph) (ch : List CElem) (next : Option Nat) : Prop where
  vs : g2.vs = (g.setSwitchStart v n).vs
  up : ∀ y ∈ g2.es, y ∈ g.es ∨ (∃ j c, ch[j]? = some c ∧ y = BGraph.caseEdge v j c.r c.eh) ∨
    (∃ x, next = some x ∧ y.src = v ∧ y.dst = x ∧ y.isElse = true ∧ y.switchOps = [])
  keep : ∀ e ∈ g.es, e.src ≠ v → (∀ c ∈ ch, e.src ≠ c.w) → e ∈ g2.es
  copies : ∀ j c, ch[j]? = some c → BGraph.caseEdge v j c.r c.eh ∈ g2.es
  els : ∀ x, next = some x → ∃ y ∈ g2.es, y.src = v ∧ y.dst = x ∧ y.isElse = true

variable {g : BGraph} {v n : Nat} {del : List Nat} {cases : List String} {o : MOp}

theorem caseEdge_ops (j : Nat) (r : MOp) (e : BEdge) : (BGraph.caseEdge v j r e).switchOps = [(0, j, r)] := rfl
theorem caseEdge_src (j : Nat) (r : MOp) (e : BEdge) : (BGraph.caseEdge v j r e).src = v := rfl
theorem caseEdge_dst (j : Nat) (r : MOp) (e : BEdge) : (BGraph.caseEdge v j r e).dst = e.dst := rfl
theorem caseEdge_isElse (j : Nat) (r : MOp) (e : BEdge) : (BGraph.caseEdge v j r e).isElse = e.isElse := rfl

theorem elsePart_spec (g1 g2 : BGraph) (ch : List CElem) (e0 : BEdge) (next : Option Nat)
    (hplain : ∀ e ∈ g.es, e.src = v → e.isElse = false ∧ e.switchOps = [])
    (he0 : e0 ∈ g.es) (he0s : e0.src = v)
    (hinv : CInv g v n g1 ch) (hr : g1.elsePart v e0 next = .ok g2) : CaseEnd g v n g2 ch next := by
  unfold BGraph.elsePart at hr
  cases next with
  | none =>
    simp only [Except.ok.injEq] at hr
    subst hr
    exact ⟨hinv.vs, fun y hy => (hinv.up y hy).imp id Or.inl, fun e he _ hc => hinv.keep e he hc, hinv.copies,
      fun x hx => by cases hx⟩
  | some x =>
    simp only at hr
    cases hf : (g1.outEs v).find? (fun p => p.2.switchOps.isEmpty) with
    | none => rw [hf] at hr; cases hr
    | some p =>
      obtain ⟨i, e⟩ := p
      rw [hf] at hr
      simp only at hr
      have hops : e.switchOps = [] := by
        have := List.find?_some hf
        simpa using this
      obtain ⟨hei, hes⟩ := (mem_outEs g1 v i e).mp (List.mem_of_find?_eq_some hf)
      have heg : e ∈ g.es := by
        rcases hinv.up e (List.mem_of_getElem? hei) with h1 | ⟨j, c, _, rfl⟩
        · exact h1
        · rw [caseEdge_ops] at hops; cases hops
      have hcopy_ne : ∀ (j : Nat) (c : CElem), BGraph.caseEdge v j c.r c.eh ≠ e := by
        intro j c heq; rw [← heq, caseEdge_ops] at hops; cases hops
      by_cases hd : (e.dst != x) = true
      · rw [if_pos hd] at hr
        simp only [Except.ok.injEq] at hr
        subst hr
        have hsurv : ∀ y ∈ g1.es, y ≠ e → y ∈ ((g1.delEdges [i]).addEdge (BGraph.elseEdge v x e0)).es := by
          intro y hy hne
          refine (mem_addEdge _ _ y).mpr (Or.inl (mem_delEdges_of_ne g1 [i] y hy ?_))
          intro k hk heq
          simp at hk; subst hk
          rw [hei] at heq
          exact hne (by simpa using heq.symm)
        refine ⟨by rw [addEdge_vs, delEdges_vs]; exact hinv.vs, ?_, ?_, ?_, ?_⟩
        · intro y hy
          rcases (mem_addEdge _ _ y).mp hy with h1 | h1
          · exact (hinv.up y (mem_of_mem_delEdges g1 _ y h1)).imp id Or.inl
          · subst h1
            exact Or.inr (Or.inr ⟨x, rfl, rfl, rfl, rfl, (hplain e0 he0 he0s).2⟩)
        · intro e' he' hsv hc
          exact hsurv e' (hinv.keep e' he' hc) (fun heq => hsv (by rw [heq]; exact hes))
        · intro j c hj
          exact hsurv _ (hinv.copies j c hj) (hcopy_ne j c)
        · intro x' hx'
          have : x' = x := by simpa using hx'.symm
          subst this
          exact ⟨_, (mem_addEdge _ _ _).mpr (Or.inr rfl), rfl, rfl, rfl⟩
      · rw [if_neg hd] at hr
        simp only [Except.ok.injEq] at hr
        subst hr
        have hdx : e.dst = x := by simpa using hd
        have hsurv : ∀ y ∈ g1.es, y ≠ e → y ∈ (g1.setElse i).es := by
          intro y hy hne
          obtain ⟨k, hk⟩ := List.getElem?_of_mem hy
          refine (mem_setElse g1 i y).mpr (Or.inl ⟨k, ?_, hk⟩)
          intro hki; subst hki
          rw [hei] at hk
          exact hne (by simpa using hk.symm)
        refine ⟨by rw [setElse_vs]; exact hinv.vs, ?_, ?_, ?_, ?_⟩
        · intro y hy
          rcases (mem_setElse g1 i y).mp hy with ⟨k, _, hk⟩ | ⟨e', he', rfl⟩
          · exact (hinv.up y (List.mem_of_getElem? hk)).imp id Or.inl
          · rw [hei] at he'
            have : e' = e := by simpa using he'.symm
            subst this
            exact Or.inr (Or.inr ⟨x, rfl, hes, hdx, rfl, hops⟩)
        · intro e' he' hsv hc
          exact hsurv e' (hinv.keep e' he' hc) (fun heq => hsv (by rw [heq]; exact hes))
        · intro j c hj
          exact hsurv _ (hinv.copies j c hj) (hcopy_ne j c)
        · intro x' hx'
          have : x' = x := by simpa using hx'.symm
          subst this
          exact ⟨flagElse e, (mem_setElse g1 i _).mpr (Or.inr ⟨e, hei, rfl⟩), hes, hdx, rfl⟩

theorem chainOk_spec (g : BGraph) (v n : Nat) (cases : List String) (del : List Nat) (i0 : Nat) (e0 : BEdge)
    (rest : List (Nat × BEdge)) (houts : g.outEs v = (i0, e0) :: rest) (h : g.chainOk v n cases del = true) :
    v ∉ del ∧ g.toGraph.fall v = e0.dst ∧ (∀ e ∈ g.es, e.src = v → e.isElse = false ∧ e.switchOps = []) ∧
      BGraph.chainOkLoop (g.es.length + 2) (g.setSwitchStart v n) v cases (some e0.dst) 0 del = true := by
  unfold BGraph.chainOk at h
  rw [houts] at h
  simp only [Bool.and_eq_true, Bool.not_eq_true', beq_iff_eq, List.all_eq_true, Bool.or_eq_true,
    beq_eq_false_iff_ne, List.isEmpty_iff] at h
  obtain ⟨⟨⟨h1, h2⟩, h3⟩, h4⟩ := h
  refine ⟨fun hm => ?_, h2, ?_, h4⟩
  · rw [List.contains_iff_mem.mpr hm] at h1; cases h1
  · intro e he hs
    rcases h3 e he with h5 | h5
    · exact absurd hs h5
    · exact h5

/-- **the first part for one switch op** -/
theorem casePart_spec (h : SInv g del) (hv : VFacts g v del o) (delH : List Nat) (g2 : BGraph) (delH' : List Nat)
    (hne : (g.outEs v).isEmpty = false)
    (hok : g.chainOk v n cases del = true) (hr : g.casePart v n cases delH = .ok (g2, delH')) :
    ∃ (e0 : BEdge) (ch : List CElem) (next : Option Nat),
      e0 ∈ g.es ∧ e0.src = v ∧ g.toGraph.fall v = e0.dst ∧
      (∀ e ∈ g.es, e.src = v → e.isElse = false ∧ e.switchOps = []) ∧
      CaseEnd g v n g2 ch next ∧ Chain g v n del cases e0.dst ch next ∧ delH' = delH ++ ch.map (·.w) ∧
      ∀ x, next = some x → (g.setSwitchStart v n).isCaseV x cases = false := by
  unfold BGraph.casePart at hr
  cases houts : g.outEs v with
  | nil => rw [houts] at hne; simp at hne
  | cons p rest =>
    obtain ⟨i0, e0⟩ := p
    rw [houts] at hr
    simp only at hr
    obtain ⟨_, hfall, hplain, hloopok⟩ := chainOk_spec g v n cases del i0 e0 rest houts hok
    obtain ⟨he0i, he0s⟩ := (mem_outEs g v i0 e0).mp (by rw [houts]; exact List.mem_cons_self ..)
    cases hloop : BGraph.caseLoop (g.es.length + 2) (g.setSwitchStart v n) v cases (some e0.dst) 0 delH with
    | error e => rw [hloop] at hr; cases hr
    | ok res =>
      obtain ⟨g1, next, dH'⟩ := res
      rw [hloop] at hr
      simp only at hr
      cases hels : g1.elsePart v e0 next with
      | error e => rw [hels] at hr; cases hr
      | ok g2' =>
        rw [hels] at hr
        simp only [Except.ok.injEq, Prod.mk.injEq] at hr
        obtain ⟨rfl, rfl⟩ := hr
        have hinv0 : CInv g v n (g.setSwitchStart v n) [] :=
          ⟨rfl, fun x hx => Or.inl hx, fun e he _ => he, fun j c hj => by simp at hj⟩
        have hch0 : Chain g v n del cases e0.dst [] (some e0.dst) :=
          ⟨by simp, by simp, by simp, by simp, by simp, by simp, rfl⟩
        obtain ⟨ch, hinv, hch, hdH, hnc⟩ := caseLoop_inv h hv delH (g.es.length + 2) (g.setSwitchStart v n) (some e0.dst) []
          g1 next dH' hinv0 hch0 (by simpa using hloopok) (by simpa using hloop)
        refine ⟨e0, ch, next, List.mem_of_getElem? he0i, he0s, hfall, hplain,
          elsePart_spec g1 g2' ch e0 next hplain (List.mem_of_getElem? he0i) he0s hinv hels, hch, hdH, ?_⟩
        intro x hx
        have := hnc x hx
        unfold BGraph.isCaseV at this ⊢
        rw [hinv.vs] at this; exact this

end ESV.Decomp.Sw
