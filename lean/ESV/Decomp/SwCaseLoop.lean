import ESV.Decomp.SwChain
/-
One round of the case loop (`caseLoop`) keeps `CInv` and extends `Chain`; the whole loop.
-/
namespace ESV.Decomp.Sw
open ESV.Beh ESV.Decomp ESV.Decomp.Opt ESV.Decomp.Gr

/-- the switch op vertex `v` at the time it is processed -/
structure VFacts (g : BGraph) (v : Nat) (del : List Nat) (o : MOp) : Prop where
  vx : ∃ x, g.vs[v]? = some x ∧ x.op = .item (.op o) ∧ x.switchStart = none
  alive : v ∉ del

variable {g : BGraph} {v n : Nat} {del : List Nat} {cases : List String} {first : Nat} {o : MOp}

theorem testV_ne_v (hv : VFacts g v del o) (w : Nat) (r : MOp) (gc : BGraph) (hvs : gc.vs = (g.setSwitchStart v n).vs)
    (ht : TestV gc w r) : w ≠ v := by
  rintro rfl
  obtain ⟨x, l, c, h1, h2, _⟩ := ht
  obtain ⟨xv, hx, hop, _⟩ := hv.vx
  rw [hvs, setSwitchStart_vs_self, hx] at h1
  simp only [Option.map_some, Option.some.injEq] at h1
  subst h1
  simp [BGraph.setSwitchStartV, hop] at h2

theorem testV_back (w : Nat) (r : MOp) (gc : BGraph) (hvs : gc.vs = (g.setSwitchStart v n).vs) (hne : w ≠ v)
    (ht : TestV gc w r) : TestV g w r := by
  unfold TestV at ht ⊢
  rw [hvs, setSwitchStart_vs_ne g v n w hne] at ht
  exact ht

theorem isSwitchV_vs (g g' : BGraph) (h : g'.vs = g.vs) (u : Nat) : g'.isSwitchV u = g.isSwitchV u := by
  unfold BGraph.isSwitchV; rw [h]

theorem ignoredE_vs (g g' : BGraph) (h : g'.vs = g.vs) (e : BEdge) : g'.ignoredE e = g.ignoredE e := by
  unfold BGraph.ignoredE; rw [isSwitchV_vs g g' h]

theorem caseEdge_not_ignored (gc : BGraph) (j : Nat) (r : MOp) (e : BEdge) :
    gc.ignoredE (BGraph.caseEdge v j r e) = false := by
  unfold BGraph.ignoredE BGraph.caseEdge; simp

theorem getLast?_eq_getElem? {α : Type} (l : List α) : l.getLast? = l[l.length - 1]? := by
  cases l with
  | nil => rfl
  | cons x xs => rw [List.getLast?_eq_getElem?]

/-- **one round**: the case vertex `w` (root `r`, case edge at `hi`, else edge at `lo`) is merged -/
theorem caseRound (h : SInv g del) (hv : VFacts g v del o) (gc : BGraph) (ch : List CElem) (w : Nat)
    (hinv : CInv g v n gc ch) (hch : Chain g v n del cases first ch (some w))
    (hcase : gc.isCaseV w cases = true)
    (hok : gc.caseVertexOk (del ++ ch.map (·.w)) w = true) (hdead : gc.inDead (del ++ ch.map (·.w)) w = true)
    (lo hi : Nat) (hlh : gc.lowHigh w = some (lo, hi)) (r : MOp) (hr : (gc.vs[w]?).bind BGraph.rootOfS = some r)
    (el eh : BEdge) (hel : gc.es[lo]? = some el) (heh : gc.es[hi]? = some eh)
    (ids : List Nat) (hids : ids = [hi] ∨ ids = [hi, lo]) :
    let c : CElem := ⟨w, r, eh, if lo = hi then none else some el.dst⟩
    CInv g v n ((gc.addEdge (BGraph.caseEdge v ch.length r eh)).delEdges ids) (ch ++ [c]) ∧
      Chain g v n del cases first (ch ++ [c]) c.nx := by
  intro c
  obtain ⟨hw0, hwd, ⟨r', htc⟩, hnoelse⟩ := caseVertexOk_spec gc _ w hok
  have hr' : r' = r := by
    have := testV_root gc w r' htc
    rw [hr] at this; simpa using this.symm
  subst hr'
  have hwv : w ≠ v := testV_ne_v hv w r' gc hinv.vs htc
  have htg : TestV g w r' := testV_back w r' gc hinv.vs hwv htc
  have hwdel : w ∉ del := fun hm => hwd (List.mem_append_left _ hm)
  have hwch : ∀ c' ∈ ch, w ≠ c'.w := fun c' hc' heq => hwd (List.mem_append_right _ (List.mem_map.mpr ⟨c', hc', heq.symm⟩))
  have hvch : ∀ c' ∈ ch, v ≠ c'.w := fun c' hc' heq => (hch.elem c' hc').nev heq.symm
  -- the out-edges of `w` are the same set in both graphs
  have s1 : ∀ x ∈ gc.es, x.src = w → x ∈ g.es := by
    intro x hx hs
    rcases hinv.up x hx with h1 | ⟨j, c', _, rfl⟩
    · exact h1
    · exact absurd hs (fun hh => hwv hh.symm)
  have s2 : ∀ e ∈ g.es, e.src = w → e ∈ gc.es := fun e he hs => hinv.keep e he (fun c' hc' => by rw [hs]; exact hwch c' hc')
  obtain ⟨el', eh', hel', heh', elg, ehg, hsl, hsh, hjump, hfall⟩ := read_of_lowHigh g gc h.det w r' htg s1 s2 lo hi hlh
  rw [hel] at hel'; rw [heh] at heh'
  have e1 : el' = el := by simpa using hel'.symm
  have e2 : eh' = eh := by simpa using heh'.symm
  subst e1 e2
  have hdeadS := inDead_spec gc _ w hdead
  have hcontains : cases.contains r'.name = true := by
    unfold BGraph.isCaseV at hcase; rw [hr] at hcase; exact hcase
  have hign : ∀ e, gc.ignoredE e = (g.setSwitchStart v n).ignoredE e := fun e => ignoredE_vs _ gc hinv.vs e
  have hwsw : (g.setSwitchStart v n).isSwitchV w = false := by
    rw [← isSwitchV_vs _ gc hinv.vs]; exact (testV_kind gc w r' htc).2.1
  have helem : ElemOk g v del cases c := by
    refine ⟨htg, hcontains, hw0, hwdel, hwv, ehg, hsh, hnoelse eh' (List.mem_of_getElem? heh) hsh, hjump, ?_, ?_⟩
    · rw [hfall]; show _ = nxTarget g (if lo = hi then none else some el'.dst)
      split <;> rfl
    · intro x hx
      show ∃ e ∈ g.es, e.src = w ∧ e.dst = x
      have hx' : (if lo = hi then none else some el'.dst) = some x := hx
      split at hx'
      · cases hx'
      · exact ⟨el', elg, hsl, by simpa using hx'⟩
  have hv_notdc : v ∉ del ++ ch.map (·.w) := by
    intro hm
    rcases List.mem_append.mp hm with h1 | h1
    · exact hv.alive h1
    · obtain ⟨c', hc', heq⟩ := List.mem_map.mp h1; exact hvch c' hc' heq.symm
  refine ⟨?_, ?_⟩
  · -- CInv
    have hpos : ∀ k ∈ ids, ∃ e, (gc.addEdge (BGraph.caseEdge v ch.length r' eh')).es[k]? = some e ∧ e.src = w := by
      intro k hk
      rcases hids with rfl | rfl
      · simp at hk; subst hk; exact ⟨eh', getElem?_addEdge_lt gc _ _ eh' heh, hsh⟩
      · simp at hk
        rcases hk with rfl | rfl
        · exact ⟨eh', getElem?_addEdge_lt gc _ _ eh' heh, hsh⟩
        · exact ⟨el', getElem?_addEdge_lt gc _ _ el' hel, hsl⟩
    have hsurv : ∀ x ∈ (gc.addEdge (BGraph.caseEdge v ch.length r' eh')).es, x.src ≠ w →
        x ∈ ((gc.addEdge (BGraph.caseEdge v ch.length r' eh')).delEdges ids).es := by
      intro x hx hs
      apply mem_delEdges_of_ne _ _ _ hx
      intro k hk heq
      obtain ⟨e, he, hes⟩ := hpos k hk
      rw [he] at heq
      have : e = x := by simpa using heq
      exact hs (by rw [← this]; exact hes)
    refine ⟨by rw [delEdges_vs, addEdge_vs]; exact hinv.vs, ?_, ?_, ?_⟩
    · intro x hx
      have hx' := mem_of_mem_delEdges _ _ _ hx
      rcases (mem_addEdge gc _ x).mp hx' with h1 | h1
      · rcases hinv.up x h1 with h2 | ⟨j, c', hj, rfl⟩
        · exact Or.inl h2
        · exact Or.inr ⟨j, c', by rw [List.getElem?_append_left (List.getElem?_eq_some_iff.mp hj).1]; exact hj, rfl⟩
      · exact Or.inr ⟨ch.length, c, by simp, h1⟩
    · intro e he hsrc
      have h1 : e ∈ gc.es := hinv.keep e he (fun c' hc' => hsrc c' (List.mem_append_left _ hc'))
      exact hsurv e ((mem_addEdge gc _ e).mpr (Or.inl h1)) (hsrc c (by simp))
    · intro j c' hj
      rcases Nat.lt_or_ge j ch.length with hlt | hge
      · rw [List.getElem?_append_left hlt] at hj
        exact hsurv _ ((mem_addEdge gc _ _).mpr (Or.inl (hinv.copies j c' hj))) (fun hh => hwv hh.symm)
      · rw [List.getElem?_append_right hge] at hj
        have hj0 : j - ch.length = 0 := by
          rcases Nat.eq_zero_or_pos (j - ch.length) with h0 | h0
          · exact h0
          · rw [List.getElem?_eq_none (by simp; omega)] at hj; cases hj
        rw [hj0] at hj
        have hc' : c' = c := by simpa using hj.symm
        have hjl : j = ch.length := by omega
        subst hc' hjl
        exact hsurv _ ((mem_addEdge gc _ _).mpr (Or.inr rfl)) (fun hh => hwv hh.symm)
  · -- Chain
    have hmapw : (ch ++ [c]).map (·.w) = ch.map (·.w) ++ [w] := by simp [c]
    refine ⟨?_, ?_, ?_, ?_, ?_, ?_, ?_⟩
    · intro c' hc'
      rcases List.mem_append.mp hc' with h1 | h1
      · exact hch.elem c' h1
      · simp at h1; subst h1; exact helem
    · intro c' hc' e he hd
      rw [hmapw]
      rcases List.mem_append.mp hc' with h1 | h1
      · rcases hch.inn c' h1 e he hd with h2 | h2 | h2
        · exact Or.inl h2
        · exact Or.inr (Or.inl (List.mem_append_left _ h2))
        · exact Or.inr (Or.inr h2)
      · simp at h1; subst h1
        by_cases hsrc : e.src ∈ ch.map (·.w)
        · exact Or.inr (Or.inl (List.mem_append_left _ hsrc))
        · have hgc : e ∈ gc.es := hinv.keep e he (fun c' hc' heq => hsrc (List.mem_map.mpr ⟨c', hc', heq.symm⟩))
          rcases hdeadS e hgc hd with h2 | h2
          · rcases List.mem_append.mp h2 with h3 | h3
            · exact Or.inl h3
            · exact absurd h3 hsrc
          · exact Or.inr (Or.inr (by rw [← hign]; exact h2))
    · intro c1 hc1 c2 hc2
      rcases List.mem_append.mp hc1 with h1 | h1 <;> rcases List.mem_append.mp hc2 with h2 | h2
      · exact hch.tgt c1 h1 c2 h2
      · simp at h2; subst h2
        intro heq
        obtain ⟨j, hj⟩ := List.getElem?_of_mem h1
        have hcp := hinv.copies j c1 hj
        rcases hdeadS _ hcp heq with h3 | h3
        · exact hv_notdc h3
        · rw [caseEdge_not_ignored] at h3; cases h3
      · simp at h1; subst h1
        intro heq
        rcases hch.inn c2 h2 eh' ehg heq with h3 | h3 | h3
        · rw [hsh] at h3; exact hwdel h3
        · rw [hsh] at h3
          obtain ⟨c', hc', heq'⟩ := List.mem_map.mp h3
          exact hwch c' hc' heq'.symm
        · unfold BGraph.ignoredE at h3
          rw [hsh, hwsw] at h3; simp at h3
      · simp at h1 h2; subst h1 h2
        intro heq
        rcases hdeadS eh' (List.mem_of_getElem? heh) heq with h3 | h3
        · rw [hsh] at h3; exact hwd h3
        · rw [hign] at h3
          unfold BGraph.ignoredE at h3
          rw [hsh, hwsw] at h3; simp at h3
    · rw [hmapw, List.nodup_append]
      refine ⟨hch.nodup, by simp, ?_⟩
      intro a ha b hb
      simp at hb; subst hb
      intro heq; subst heq
      obtain ⟨c', hc', heq'⟩ := List.mem_map.mp ha
      exact hwch c' hc' heq'.symm
    · intro j c1 c2 hj1 hj2
      rcases Nat.lt_or_ge (j + 1) ch.length with hlt | hge
      · rw [List.getElem?_append_left (by omega)] at hj1
        rw [List.getElem?_append_left hlt] at hj2
        exact hch.link j c1 c2 hj1 hj2
      · have hj2len : j + 1 < (ch ++ [c]).length := (List.getElem?_eq_some_iff.mp hj2).1
        simp at hj2len
        have hjeq : j + 1 = ch.length := by omega
        rw [List.getElem?_append_right hge, show j + 1 - ch.length = 0 by omega] at hj2
        have hc2 : c2 = c := by simpa using hj2.symm
        rw [List.getElem?_append_left (by omega)] at hj1
        have hlast := hch.last
        rw [getLast?_eq_getElem?, show ch.length - 1 = j by omega, hj1] at hlast
        subst hc2
        exact hlast.symm
    · intro c1 hc1
      cases hcl : ch with
      | nil =>
        rw [hcl] at hc1
        have : c1 = c := by simpa using hc1.symm
        subst this
        have hlast := hch.last
        rw [hcl] at hlast
        simpa using hlast
      | cons x xs =>
        rw [hcl] at hc1
        exact hch.head c1 (by rw [hcl]; simpa using hc1)
    · simp

end ESV.Decomp.Sw
