import ESV.Decomp.ResolveTable
import ESV.Decomp.ResolveLayout
import ESV.Props.Tables
/-
The resolver's output as a layout of the input: every op becomes one item (`conv`), preceded by a label
item when its offset is a key of the final table.  Plus the opcode-table facts the step comparison needs.
-/
namespace ESV.Decomp
open ESV.Beh ESV.Decomp.Layout

def fl (rs : List (List MOp)) : List FOp :=
  rs.zipIdx.flatMap fun (ops, r) => ops.map fun o => ⟨r, o⟩

theorem flatten_eq (rs : List (List MOp)) : flatten rs = (fl rs).toArray := rfl

def lblOf (K : List Lbl) (off : Int) : Option Item :=
  (K.find? fun l => l.off == off).map fun l => .label l.id

def preI (K : List Lbl) (f : FOp) : Option FItem := (lblOf K f.op.off).map fun it => ⟨f.rtn, it⟩
def mainI (K : List Lbl) (f : FOp) : FItem := ⟨f.rtn, conv K f.op⟩

theorem conv_cases (K : List Lbl) (o : MOp) :
    conv K o = .op o ∨ ∃ root lid c, conv K o = .ljump root lid c ∧ root.off = o.off ∧ jumpIndex o.name ≠ none := by
  unfold conv
  cases hj : jumpIndex o.name with
  | none => left; rfl
  | some idx =>
    simp only
    cases hp : o.params[idx]? with
    | none => left; rfl
    | some p =>
      cases p with
      | int t => right; exact ⟨_, _, _, rfl, rfl, by simp⟩
      | _ => left; rfl

theorem itemOff_conv (K : List Lbl) (o : MOp) : itemOff (conv K o) = o.off := by
  rcases conv_cases K o with h | ⟨root, lid, c, h, hoff, _⟩
  · rw [h]; rfl
  · rw [h]; exact hoff

theorem interleave_conv (K : List Lbl) (os : List MOp) :
    interleave K (os.map (conv K)) = os.flatMap fun o => (lblOf K o.off).toList ++ [conv K o] := by
  induction os with
  | nil => rfl
  | cons o os ih =>
    simp only [List.map_cons, List.flatMap_cons, interleave, itemOff_conv, lblOf]
    cases hk : K.find? fun l => l.off == o.off with
    | none => simp [ih, lblOf]
    | some l => simp [ih, lblOf]

theorem routine_lay (K : List Lbl) (n : Nat) (os : List MOp) :
    (interleave K (os.map (conv K))).map (fun i => (⟨n, i⟩ : FItem)) =
      lay (preI K) (mainI K) (os.map fun o => (⟨n, o⟩ : FOp)) := by
  rw [interleave_conv]
  induction os with
  | nil => rfl
  | cons o os ih =>
    rw [List.flatMap_cons, List.map_append, ih, List.map_cons, lay_cons]
    congr 1
    simp only [blk, preI, mainI]
    cases lblOf K o.off <;> simp

theorem flat_lay (K : List Lbl) : ∀ (rs : List (List MOp)) (n : Nat),
    ((rs.map fun os => interleave K (os.map (conv K))).zipIdx n).flatMap
        (fun (p : List Item × Nat) => p.1.map fun i => (⟨p.2, i⟩ : FItem)) =
      lay (preI K) (mainI K)
        ((rs.zipIdx n).flatMap fun (p : List MOp × Nat) => p.1.map fun o => (⟨p.2, o⟩ : FOp)) := by
  intro rs
  induction rs with
  | nil => intro n; rfl
  | cons os rs ih =>
    intro n
    simp only [List.map_cons, List.zipIdx_cons, List.flatMap_cons]
    rw [lay_append, ih (n+1), routine_lay]

theorem flattenItems_eq (K : List Lbl) (rs : List (List MOp)) :
    flattenItems (rs.map fun os => interleave K (os.map (conv K))) =
      (lay (preI K) (mainI K) (fl rs)).toArray := by
  unfold flattenItems fl
  congr 1
  exact flat_lay K rs 0

/-! ## opcode table facts -/

theorem jumpIndex_none {n : String} (h : jumpIndex n = none) : isJump n = false ∧ isTest n = false := by
  unfold jumpIndex at h
  rw [ESV.TableTie.opsWithJump_eq] at h
  simp only [Option.map_eq_none_iff, List.find?_eq_none] at h
  have hj : isJump n = false := by
    have := h ("Jump", 0) (by decide)
    unfold isJump
    simp only [beq_iff_eq] at this
    simp only [beq_eq_false_iff_ne, ne_eq]
    intro hh; exact this hh.symm
  refine ⟨hj, ?_⟩
  unfold isTest
  have : (ESV.Spec.opsWithJump.any fun kv => kv.1 == n) = false := by
    rw [List.any_eq_false]
    intro kv hkv
    exact h kv hkv
  rw [this]; rfl

theorem ctx_of_withJump : ∀ kv ∈ ESV.Spec.opsWithJump, isCtx kv.1 = false := by decide

theorem jumpIndex_some {n : String} {idx : Nat} (h : jumpIndex n = some idx) :
    (isJump n || isTest n) = true ∧ isCtx n = false := by
  unfold jumpIndex at h
  rw [ESV.TableTie.opsWithJump_eq] at h
  simp only [Option.map_eq_some_iff] at h
  obtain ⟨kv, hf, _⟩ := h
  have hmem := List.mem_of_find?_eq_some hf
  have hp := List.find?_some hf
  simp only [beq_iff_eq] at hp
  subst hp
  refine ⟨?_, ctx_of_withJump kv hmem⟩
  unfold isTest
  have : (ESV.Spec.opsWithJump.any fun kv' => kv'.1 == kv.1) = true := by
    rw [List.any_eq_true]
    exact ⟨kv, hmem, by simp⟩
  rw [this]
  cases isJump kv.1 <;> rfl

end ESV.Decomp
