import ESV.Decomp.LpRelabel
/-
The raised flow levels of `remove_label_markers` (`raiseOk`) as an instance of `LpRelabel.lean`.
-/
namespace ESV.Decomp.Lp
open ESV.Beh ESV.Decomp ESV.Decomp.Opt ESV.Decomp.Gr ESV.Decomp.Sw

def raiseF (bs : List Byp) (e : BEdge) : BEdge := relF (raisedLevel bs) (fun e => e.loop) e

/-- the graph with the flow levels of the by-passed edges raised -/
def raisedG (g : BGraph) (bs : List Byp) : BGraph := relG g (raisedLevel bs) (fun e => e.loop)

variable (g : BGraph) (bs : List Byp)

/-- what `raiseOk` says about the out-edges of a level-read vertex -/
theorem raiseOk_spec (h : raiseOk g bs = true) (v : Nat) (hlr : g.levelRead v = true) (x y : BEdge)
    (hx : x ∈ g.es ∧ x.src = v) (hy : y ∈ g.es ∧ y.src = v) :
    (x.level < y.level ↔ raisedLevel bs x < raisedLevel bs y) := by
  unfold raiseOk at h
  rw [List.all_eq_true] at h
  have := h x hx.1
  rw [List.all_eq_true] at this
  have := this y hy.1
  simp only [Bool.or_eq_true, Bool.not_eq_true', Bool.and_eq_false_iff, beq_eq_false_iff_ne, beq_iff_eq] at this
  rcases this with (h1 | h1) | h1
  · exact absurd (hx.2.trans hy.2.symm) h1
  · rw [hx.2, hlr] at h1; cases h1
  · have := congrArg (· = true) h1
    simpa using this

variable {g bs}

theorem lvOk_of_raiseOk (h : raiseOk g bs = true) : LvOk g (raisedLevel bs) :=
  fun v hlr x y hx hy => raiseOk_spec g bs h v hlr x y hx hy

/-- **raising the flow levels of the by-passed edges does not change the step function** -/
theorem stepPL_raised (h : raiseOk g bs = true) (hsp : ∀ a, g.isSynV a = true → g.levelRead a = true) :
    (raisedG g bs).stepPL = g.stepPL := stepPL_rel (lvOk_of_raiseOk h) hsp

end ESV.Decomp.Lp
