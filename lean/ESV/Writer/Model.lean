import ESV.Beh.Spec
/-
Model of the decompilers' text writer and its line accounting (explorerscript/ssb_converting/ssb_decompiler.py:
write_stmnt, write_line, source_map_add_opcode, source_map_add_opcode_in_current_line; util.Blk changes `indent`;
the SsbScript decompiler has the same three methods).  Property C09 needs: the source-map entry recorded for an op
points at the place in the final text where the statement written next begins.
-/
namespace ESV.Writer

structure W where
  out : List Char              -- text written so far
  line : Nat                   -- `_line_number`
  indent : Nat
  map : List (Int × Nat × Nat) -- source map entries (offset, line, column) in recording order
deriving Repr

def init : W := ⟨[], 1, 0, []⟩

def countNl (s : List Char) : Nat := s.count '\n'

def spaces (n : Nat) : List Char := List.replicate n ' '

/-- `write_line` -/
def writeLine (w : W) : W :=
  { w with line := w.line + 1, out := w.out ++ '\n' :: spaces (w.indent * ESV.Spec.spacesPerIndent) }

/-- `write_stmnt(stmnt, line)` -/
def writeStmnt (w : W) (s : List Char) (nl : Bool) : W :=
  let w1 := if nl then writeLine w else w
  { w1 with line := w1.line + countNl s, out := w1.out ++ s }

/-- `source_map_add_opcode` (called before the statement is written on a new line); statements written for a label or
another marker of the decompiler carry the offset -1 and are not recorded (repo: `if op_offset < 0: return`) -/
def addOpcode (w : W) (off : Int) : W :=
  if off < 0 then w
  else { w with map := w.map ++ [(off, w.line, w.indent * ESV.Spec.spacesPerIndent)] }

/-- length of the text behind the last newline -/
def curCol (out : List Char) : Nat := (out.reverse.takeWhile (· != '\n')).length

/-- `source_map_add_opcode_in_current_line` (the statement continues the current line after one space) -/
def addOpcodeInline (w : W) (off : Int) : W :=
  { w with map := w.map ++ [(off, w.line - 1, curCol w.out + 1)] }

inductive Cmd where
  | setIndent (n : Nat)
  | stmnt (s : List Char) (nl : Bool)
  | line
  | opcode (off : Int)
  | opcodeInline (off : Int)
deriving Repr

def step (w : W) : Cmd → W
  | .setIndent n => { w with indent := n }
  | .stmnt s nl => writeStmnt w s nl
  | .line => writeLine w
  | .opcode off => addOpcode w off
  | .opcodeInline off => addOpcodeInline w off

def runCmds (cs : List Cmd) : W := cs.foldl step init

end ESV.Writer
