import ESV.SourceMap.Model
/-
Model of explorerscript/source_map.py `SourceMapBuilder` (the four tables, `_next_macro_called_in`, the macro
context stack; commands = its public methods) and of the part of explorerscript/macro.py
`ExplorerScriptMacro.build` / `_build_op` that talks to the builder and to the op counter.

Python lists used as stacks (`append` / `pop` / `[-1]`) are modelled with the top at the head.
Lists are values: since /repo commit 1dfd06a `SourceMapBuilder.build()` hands out copies (on the pinned tree a
macro's `source_map` and the builder it was expanded into could share one list object and `build` never returned:
`macro_posmark_nested_hang`).  Since /repo commit a2649b8 every macro has a builder of its own; nothing in the model
depends on how many builder objects exist (each one's recorded call sequence is replayed separately).
-/
namespace ESV.SmBuilder
open ESV ESV.SM

abbrev CalledIn := Option String × Int × Int
abbrev ParamMap := List (String × PVal)
/-- `(opcode_to_jump_to, parameter_mapping)` -/
abbrev Ctx := Int × ParamMap

structure B where
  tables : SourceMap
  next : Option CalledIn
  stack : List Ctx
deriving Repr, DecidableEq

def init : B := ⟨⟨[], [], [], []⟩, none, []⟩

inductive Err where
  | valueError       -- add_macro_opcode with an empty context stack
  | indexError       -- pop from an empty list
  | assertionError   -- `assert mapping is not None` in `_build_op`
deriving Repr, DecidableEq

inductive Cmd where
  | addOpcode (k : Int) (l c : Int)
  | addPosMark (p : PosMark)
  | push (ret : Int) (pm : ParamMap)
  | pop
  | calledIn (f : Option String) (l c : Int)
  | addMacroOpcode (k : Int) (f : Option String) (name : String) (l c : Int)
  | addMacroPosMark (f : Option String) (name : String) (p : PosMark)
deriving Repr, DecidableEq

/-- the entry `add_macro_opcode` writes in state `b` -/
def entryOf (b : B) (top : Ctx) (f : Option String) (name : String) (l c : Int) : MacroMapping :=
  ⟨f, name, l, c, b.next, some top.1, top.2⟩

def setMappings (b : B) (d : Dict Int Mapping) : B := { b with tables := { b.tables with mappings := d } }
def setMacros (b : B) (d : Dict Int MacroMapping) : B := { b with tables := { b.tables with macros := d } }

def step (b : B) : Cmd → Except Err B
  | .addOpcode k l c => .ok (setMappings b (Dict.set b.tables.mappings k ⟨l, c⟩))
  | .addPosMark p => .ok { b with tables := { b.tables with posMarks := b.tables.posMarks ++ [p] } }
  | .push ret pm => .ok { b with stack := (ret, pm) :: b.stack }
  | .pop =>
    match b.stack with
    | [] => .error .indexError
    | _ :: rest => .ok { b with stack := rest }
  | .calledIn f l c => .ok { b with next := some (f, l, c) }
  | .addMacroOpcode k f name l c =>
    match b.stack with
    | [] => .error .valueError
    | top :: _ =>
      .ok { setMacros b (Dict.set b.tables.macros k (entryOf b top f name l c)) with next := none }
  | .addMacroPosMark f name p =>
    .ok { b with tables := { b.tables with posMarksMacro := b.tables.posMarksMacro ++ [(f, name, p)] } }

def runFrom (b : B) : List Cmd → Except Err B
  | [] => .ok b
  | c :: cs => match step b c with
    | .ok b' => runFrom b' cs
    | .error e => .error e

def run (cs : List Cmd) : Except Err B := runFrom init cs

/-! ### `ExplorerScriptMacro.build`: what it does to the counter and to the builder -/

/-- what `self.source_map` says about the offset of a blueprint op -/
structure OpInfo where
  relay : Option MacroMapping     -- `get_op_line_and_col__macros(offset)`
  direct : Option Mapping         -- `get_op_line_and_col__direct(offset)`
deriving Repr, DecidableEq

/-- a blueprint item, as far as `build` distinguishes them -/
inductive Bp where
  | op (i : OpInfo)               -- SsbOperation / SsbLabelJump / `return` (each goes through `_build_op` once)
  | lbl                           -- plain SsbLabel
  | mstart (len : Nat) (pm : ParamMap)   -- MacroStartSsbLabel(length_of_macro, parameter_mapping)
  | mend                          -- MacroEndSsbLabel
deriving Repr, DecidableEq

structure MacroIn where
  name : String
  relpath : Option String         -- included__relative_path
  params : ParamMap               -- `_create_parameter_mapping(parameters)`: variable -> str(value)
  posDirect : List PosMark
  posMacros : List (Option String × String × PosMark)
deriving Repr

/-- `len([o for o in self.blueprints if not isinstance(o, SsbLabel)])` -/
def nReal : List Bp → Nat
  | [] => 0
  | .op _ :: r => nReal r + 1
  | _ :: r => nReal r

/-- `_replace_in_param_mapping` -/
def replaceParams (pm ours : ParamMap) : ParamMap :=
  pm.map fun kv =>
    match kv.2 with
    | .str s => match Dict.get? ours s with
      | some v => (kv.1, v)
      | none => kv
    | _ => kv

/-- `_build_op` (the builder calls it makes for the new index `k`) -/
def buildOp (m : MacroIn) (k : Int) (i : OpInfo) : Except Err (List Cmd) :=
  match i.relay with
  | some e =>
    let file := match e.relpath with
      | none => m.relpath
      | some f => some f
    let pre := match e.calledIn with
      | some (cf, l, c) =>
        [Cmd.calledIn (match cf with | none => m.relpath | some f => some f) l c]
      | none => []
    .ok (pre ++ [.addMacroOpcode k file e.macroName e.line e.col])
  | none =>
    match i.direct with
    | some d => .ok [.addMacroOpcode k m.relpath m.name d.line d.col]
    | none => .error .assertionError

/-- the loop over the blueprints; returns the builder calls and the final counter -/
def buildLoop (m : MacroIn) : Nat → List Bp → Except Err (List Cmd × Nat)
  | c, [] => .ok ([], c)
  | c, .lbl :: r => buildLoop m c r
  | c, .mstart len pm :: r =>
    match buildLoop m c r with
    | .ok (cs, c') => .ok (.push (Int.ofNat (c + len)) (replaceParams pm m.params) :: cs, c')
    | .error e => .error e
  | c, .mend :: r =>
    match buildLoop m c r with
    | .ok (cs, c') => .ok (.pop :: cs, c')
    | .error e => .error e
  | c, .op i :: r =>
    match buildOp m (Int.ofNat c + 1) i with
    | .error e => .error e
    | .ok pre =>
      match buildLoop m (c + 1) r with
      | .ok (cs, c') => .ok (pre ++ cs, c')
      | .error e => .error e

/-- `build`: push of the outer context, loop, position marks, pop -/
def build (m : MacroIn) (c : Nat) (bp : List Bp) : Except Err (List Cmd × Nat) :=
  match buildLoop m c bp with
  | .error e => .error e
  | .ok (cs, c') =>
    .ok ([.push (Int.ofNat (c + (nReal bp + 1))) m.params] ++ cs
          ++ m.posDirect.map (fun p => Cmd.addMacroPosMark m.relpath m.name p)
          -- (a null file in a relayed entry means OUR file, as for the opcode entries: /repo commit d39fded)
          ++ m.posMacros.map (fun y => Cmd.addMacroPosMark (match y.1 with | none => m.relpath | some f => some f) y.2.1 y.2.2)
          ++ [.pop], c')

/-- blueprint of the ops `build` returns (what an enclosing macro stores): start label carrying
`len_real_ops_in_blueprints`, the copied items, end label -/
def buildOut (pm : ParamMap) (bp : List Bp) : List Bp := .mstart (nReal bp + 1) pm :: bp ++ [.mend]

/-- copy of a blueprint item into the returned list: a nested start label carries the parameter mapping with the
parameters of THIS expansion substituted (what was pushed for it; /repo commit 4303b4a), everything else keeps its kind -/
def copyItem (ours : ParamMap) : Bp → Bp
  | .mstart len pm => .mstart len (replaceParams pm ours)
  | x => x

/-- the list `build` returns, as blueprint kinds (the op items stand for the new ops; their source-map data now lives
in the builder the macro was expanded into) -/
def buildItems (m : MacroIn) (bp : List Bp) : List Bp := buildOut m.params (bp.map (copyItem m.params))

/-! ### the counting machine behind the return addresses
Only counter, stack of return addresses and the offsets handed out matter. -/

/-- events of a run: (offset handed out, return address on top of the stack at that moment) -/
def events : Nat → List Nat → List Bp → List (Nat × Nat)
  | _, _, [] => []
  | c, stk, .lbl :: r => events c stk r
  | c, stk, .mstart len _ :: r => events c ((c + len) :: stk) r
  | c, stk, .mend :: r => events c stk.tail r
  | c, stk, .op _ :: r => (c + 1, stk.headD 0) :: events (c + 1) stk r

/-- run the segment; at every MacroEnd label the popped return address must be the number the counter hands out
next. `none` = a pop of an empty stack or a wrong return address. -/
def wfGo : Nat → List Nat → List Bp → Option (Nat × List Nat)
  | c, stk, [] => some (c, stk)
  | c, stk, .lbl :: r => wfGo c stk r
  | c, stk, .mstart len _ :: r => wfGo c ((c + len) :: stk) r
  | c, stk, .mend :: r =>
    match stk with
    | [] => none
    | top :: rest => if top = c + 1 then wfGo c rest r else none
  | c, stk, .op _ :: r => wfGo (c + 1) stk r

/-- decidable discipline of a whole blueprint list when expanded at counter `c` -/
def wfBlueprint (c : Nat) (bp : List Bp) : Bool :=
  wfGo c [c + (nReal bp + 1)] bp == some (c + nReal bp, [c + (nReal bp + 1)])

/-! ### decidable disciplines of a command sequence (checked on every recorded real run) -/

def directOffs : List Cmd → List Int
  | [] => []
  | .addOpcode k _ _ :: r => k :: directOffs r
  | _ :: r => directOffs r

def macroOffs : List Cmd → List Int
  | [] => []
  | .addMacroOpcode k _ _ _ _ :: r => k :: macroOffs r
  | _ :: r => macroOffs r

def disjointOffs (cs : List Cmd) : Bool := (directOffs cs).all fun k => !(macroOffs cs).contains k

/-- every pop and every add_macro_opcode happens at depth >= 1 (relative to an initial depth `d`) -/
def depthOk : Nat → List Cmd → Bool
  | _, [] => true
  | d, .push _ _ :: r => depthOk (d + 1) r
  | d, .pop :: r => d ≥ 1 && depthOk (d - 1) r
  | d, .addMacroOpcode _ _ _ _ _ :: r => d ≥ 1 && depthOk d r
  | d, _ :: r => depthOk d r

/-- pushes and pops are bracketed: the depth never goes below the start and ends where it started -/
def bracketed : Nat → List Cmd → Bool
  | d, [] => d == 0
  | d, .push _ _ :: r => bracketed (d + 1) r
  | d, .pop :: r => d ≥ 1 && bracketed (d - 1) r
  | d, _ :: r => bracketed d r

end ESV.SmBuilder
