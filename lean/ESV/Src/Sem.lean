import ESV.Beh.Lts
import ESV.Src.Ast
/-
Meaning of a core ExplorerScript program as a transition system (DESIGN §3.2): every statement is given the
node it starts at, by continuation-passing translation into a finite node table.  This is the "language
specification" side of C01/C02/C05/C13/C15: it knows nothing of the compiler's labels, jump elimination,
op numbering or layout.
-/
namespace ESV.Src
open ESV.Beh

abbrev Node := Step Nat Ev

structure B where
  nodes : Array Node

def B.push (b : B) (n : Node) : B × Nat := (⟨b.nodes.push n⟩, b.nodes.size)
def B.set (b : B) (i : Nat) (n : Node) : B := ⟨b.nodes.setIfInBounds i n⟩

structure Env where
  brk : Option Nat := none
  cont : Option Nat := none
  brkLoop : Option Nat := none
  ret : Option Nat := none
  labels : List (String × Nat) := []
  subst : List (String × Param) := []

def substParam (s : List (String × Param)) (p : Param) : Param :=
  match p with
  | .const n => match s.lookup n with
    | some v => v
    | none => p
  | _ => p

def substEv (s : List (String × Param)) (e : Ev) : Ev := ⟨e.name, e.params.map (substParam s)⟩

def invalid (b : B) (why : String) : B × Nat := b.push (.halt (evInvalid why))

def lookupLabel (env : Env) (b : B) (n : String) : B × Nat :=
  match env.labels.lookup n with
  | some i => (b, i)
  | none => invalid b ("undefined label " ++ n)

mutual
def labelsOf : Stmt → List String
  | .label n => [n]
  | .ite bs _ els => labelsOfBranches bs ++ labelsOfStmts els
  | .switch _ cs => labelsOfCases cs
  | .forever body => labelsOfStmts body
  | .while_ _ _ body => labelsOfStmts body
  | .for_ init _ inc body => labelsOf init ++ labelsOf inc ++ labelsOfStmts body
  | .ctx _ _ inner => labelsOf inner
  | _ => []
def labelsOfStmts : Stmts → List String
  | .nil => []
  | .cons s r => labelsOf s ++ labelsOfStmts r
def labelsOfBranches : Branches → List String
  | .nil => []
  | .cons _ _ body r => labelsOfStmts body ++ labelsOfBranches r
def labelsOfCases : Cases → List String
  | .nil => []
  | .cons _ _ body r => labelsOfStmts body ++ labelsOfCases r
end

/-- one placeholder node per label; until the label statement is reached it denotes "undefined" -/
def allocLabels (b : B) (names : List String) : B × List (String × Nat) :=
  names.foldl (fun (acc : B × List (String × Nat)) n =>
    if (acc.2.lookup n).isSome then acc
    else
      let (b', i) := acc.1.push (.halt (evInvalid ("undefined label " ++ n)))
      (b', acc.2 ++ [(n, i)])) (b, [])

/-- chain of header tests of one if/elseif branch; `onTaken` / `onNone`: where to go when a test is taken /
when none is -/
def testChain (s : List (String × Param)) (tests : List Ev) (onTaken onNone : Nat) (b : B) : B × Nat :=
  match tests with
  | [] => (b, onNone)
  | t :: rest =>
    let (b1, restEntry) := testChain s rest onTaken onNone b
    b1.push (.test (substEv s t) onTaken restEntry)

/-- the single statement of a with-block / inline context is executed right after the context op and then
never stops the routine; `none` = no special treatment (jump, call, break … behave as usual) -/
def afterCtxSpecial (env : Env) (s : Stmt) (k : Nat) (b : B) : Option (B × Nat) :=
  match s with
  | .op name ps => some (b.push (.emit (substEv env.subst ⟨name, ps⟩) k))
  | .ret =>
    match env.ret with
    | some r => some (b, r)
    | none => some (b.push (.emit ⟨ESV.Spec.op_return, []⟩ k))
  | .end_ => some (b.push (.emit ⟨ESV.Spec.op_end, []⟩ k))
  | .hold => some (b.push (.emit ⟨ESV.Spec.op_hold, []⟩ k))
  | _ => none

mutual
/-- `tr fuel ms env s k b` = (table extended with the nodes of `s`, entry node of `s`) where `k` is the node
at which execution continues after `s`. `fuel` bounds the macro expansion depth. -/
def tr (fuel : Nat) (ms : List Macro) (env : Env) (s : Stmt) (k : Nat) (b : B) : B × Nat :=
  match s with
  | .op name ps =>
    let e := substEv env.subst ⟨name, ps⟩
    if endsFlow name then b.push (.halt e) else b.push (.emit e k)
  | .ctx cname cps inner =>
    let (b1, innerEntry) := match afterCtxSpecial env inner k b with
      | some r => r
      | none => tr fuel ms env inner k b
    b1.push (.emit (substEv env.subst ⟨cname, cps⟩) innerEntry)
  | .label n =>
    match env.labels.lookup n with
    | some i => (b.set i (.silent k), i)
    | none => invalid b ("unallocated label " ++ n)
  | .jump n => lookupLabel env b n
  | .call n =>
    let (b1, t) := lookupLabel env b n
    b1.push (.test ⟨ESV.Spec.op_call, []⟩ t k)
  | .ret =>
    match env.ret with
    | some r => (b, r)
    | none => b.push (.halt ⟨ESV.Spec.op_return, []⟩)
  | .end_ => b.push (.halt ⟨ESV.Spec.op_end, []⟩)
  | .hold => b.push (.halt ⟨ESV.Spec.op_hold, []⟩)
  | .brk => match env.brk with
    | some t => (b, t)
    | none => invalid b "break outside of a switch case"
  | .cont => match env.cont with
    | some t => (b, t)
    | none => invalid b "continue outside of a loop"
  | .brkLoop => match env.brkLoop with
    | some t => (b, t)
    | none => invalid b "break_loop outside of a loop"
  | .ite bs hasElse els =>
    let (b1, elseEntry) := if hasElse then trStmts fuel ms env els k b else (b, k)
    trBranches fuel ms env bs k elseEntry b1
  | .switch hdr cs =>
    -- `nt`: where control goes when no case test is taken (the default body if there is one, else past the switch)
    let (b1, nt) := b.push (.halt (evInvalid "switch default"))
    let (b2, _firstBody, firstTest, dflt) := trCases fuel ms { env with brk := some k } cs k nt b1
    let b3 := b2.set nt (.silent (match dflt with | some d => d | none => k))
    b3.push (.emit (substEv env.subst hdr) firstTest)
  | .forever body =>
    let (b1, h) := b.push (.halt (evInvalid "loop head"))
    let (b2, bodyEntry) := trStmts fuel ms { env with cont := some h, brkLoop := some k } body h b1
    (b2.set h (.silent bodyEntry), h)
  | .while_ neg t body =>
    let (b1, h) := b.push (.halt (evInvalid "loop head"))
    let (b2, bodyEntry) := trStmts fuel ms { env with cont := some h, brkLoop := some k } body h b1
    let e := substEv env.subst t
    (b2.set h (if neg then .test e k bodyEntry else .test e bodyEntry k), h)
  | .for_ init t inc body =>
    let (b1, tn) := b.push (.halt (evInvalid "loop test"))
    let (b2, incEntry) := tr fuel ms env inc tn b1
    let (b3, bodyEntry) := trStmts fuel ms { env with cont := some incEntry, brkLoop := some k } body incEntry b2
    let b4 := b3.set tn (.test (substEv env.subst t) bodyEntry k)
    tr fuel ms env init tn b4
  | .macroCall name args =>
    match fuel with
    | 0 => invalid b "macro recursion"
    | fuel' + 1 =>
      match ms.find? (fun m => m.name == name) with
      | none => invalid b ("unknown macro " ++ name)
      | some m =>
        if args.length < m.vars.length then invalid b "too few macro arguments"
        else
          let args' := args.map (substParam env.subst)
          let (b1, labs) := allocLabels b (labelsOfStmts m.body)
          let env' : Env := { ret := some k, labels := labs, subst := m.vars.zip args' ++ env.subst }
          trStmts fuel' ms env' m.body k b1
termination_by (fuel, sizeOf s)

def trStmts (fuel : Nat) (ms : List Macro) (env : Env) (ss : Stmts) (k : Nat) (b : B) : B × Nat :=
  match ss with
  | .nil => (b, k)
  | .cons s r =>
    let (b1, restEntry) := trStmts fuel ms env r k b
    tr fuel ms env s restEntry b1
termination_by (fuel, sizeOf ss)

def trBranches (fuel : Nat) (ms : List Macro) (env : Env) (bs : Branches) (k elseEntry : Nat) (b : B) : B × Nat :=
  match bs with
  | .nil => (b, elseEntry)
  | .cons neg tests body r =>
    let (b1, restEntry) := trBranches fuel ms env r k elseEntry b
    let (b2, bodyEntry) := trStmts fuel ms env body k b1
    if neg then testChain env.subst tests restEntry bodyEntry b2
    else testChain env.subst tests bodyEntry restEntry b2
termination_by (fuel, sizeOf bs)

/-- cases right to left: bodies in source order each falling through into the next (`break` leaves to `k`);
tests in source order, a taken test enters its body, the last untaken test goes to `nt`.
Returns (table, entry of this body, entry of the first test, entry of the default body if any). -/
def trCases (fuel : Nat) (ms : List Macro) (env : Env) (cs : Cases) (k nt : Nat) (b : B) :
    B × Nat × Nat × Option Nat :=
  match cs with
  | .nil => (b, k, nt, none)
  | .cons isDefault t body r =>
    let (b1, nextBody, restTest, dflt) := trCases fuel ms env r k nt b
    let (b2, bodyEntry) := trStmts fuel ms env body nextBody b1
    if isDefault then (b2, bodyEntry, restTest, some bodyEntry)
    else
      let (b3, tn) := b2.push (.test (substEv env.subst t) bodyEntry restTest)
      (b3, bodyEntry, tn, dflt)
termination_by (fuel, sizeOf cs)
end

end ESV.Src

namespace ESV.Src
open ESV.Beh

structure Graph where
  nodes : Array Node
  entries : List (Option Nat)    -- per routine; `none` for `alias previous`

def allRoutineLabels (rs : List Routine) : List String :=
  rs.flatMap fun r => match r.body with
    | some b => labelsOfStmts b
    | none => []

/-- labels are global to the file's routines (one label table for all routines, as in the language) -/
def Program.graph (p : Program) : Graph :=
  let b0 : B := ⟨#[]⟩
  let (b1, fell) := b0.push (.halt evReturn)          -- falling off the end of a routine body
  let (b2, labs) := allocLabels b1 (allRoutineLabels p.routines)
  let env : Env := { labels := labs }
  let fuel := p.macros.length + 1
  let (b3, entries) := p.routines.foldl (fun (acc : B × List (Option Nat)) r =>
    match r.body with
    | none => (acc.1, acc.2 ++ [none])
    | some body =>
      let (b', e) := trStmts fuel p.macros env body fell acc.1
      (b', acc.2 ++ [some e])) (b2, [])
  ⟨b3.nodes, entries⟩

def Graph.step (g : Graph) (i : Nat) : Node :=
  match g.nodes[i]? with
  | some n => n
  | none => .halt (evInvalid "no such node")

def Graph.lts (g : Graph) : LTS Ev := ⟨Nat, g.step⟩

end ESV.Src
