import ESV.Beh.Event
/-
Core abstract syntax of ExplorerScript as far as control flow is concerned.  Headers, assignments and message
switches arrive already lowered to their documented opcode + parameter list (harness/spec_ops.py, written
from docs/language_spec.rst); everything that decides *which* operations and tests run in which order is here.
-/
namespace ESV.Src
open ESV.Beh

mutual
inductive Stmt where
  | op (name : String) (params : List Param)
  | ctx (cname : String) (cparams : List Param) (inner : Stmt)
  | label (n : String)
  | jump (n : String)
  | call (n : String)
  | ret | end_ | hold | brk | cont | brkLoop
  | ite (branches : Branches) (hasElse : Bool) (els : Stmts)
  | switch (hdr : Ev) (cases : Cases)
  | forever (body : Stmts)
  | while_ (neg : Bool) (test : Ev) (body : Stmts)
  | for_ (init : Stmt) (test : Ev) (inc : Stmt) (body : Stmts)
  | macroCall (name : String) (args : List Param)
inductive Stmts where
  | nil
  | cons (s : Stmt) (r : Stmts)
inductive Branches where
  | nil
  | cons (neg : Bool) (tests : List Ev) (body : Stmts) (r : Branches)
inductive Cases where
  | nil
  | cons (isDefault : Bool) (test : Ev) (body : Stmts) (r : Cases)
end

structure Macro where
  name : String
  vars : List String
  body : Stmts

structure Routine where
  body : Option Stmts     -- `none` = alias previous

structure Program where
  macros : List Macro
  routines : List Routine

end ESV.Src
