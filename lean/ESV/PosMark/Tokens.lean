import ESV.Props.C16
/-
The printed form of a position mark (`str(SsbOpParamPositionMarker)`, ESV.Lit.posMarkStr) as a token sequence of the C16 lexer
model: eight tokens `Position < 'name' , x , y >` with blanks after the commas, each a classified token, every inner
boundary safe.  The name must need no escaping (`NameOk`): the printer does not escape it (C04 known finding).
-/
namespace ESV.PosMark
open ESV ESV.Lit ESV.Lex

/-- names for which `'name'` (printed verbatim between single quotes) is exactly one STRING_LITERAL token: no single quote,
no line break, and `lexSafe`: taking every backslash together with the character after it (as the token rule does), no
backslash is left over at the end and none stands before a quote; no raw `\r` / `\f`.  Backslashes followed by an ordinary
character, and doubled backslashes, are allowed. -/
def NameOk (name : Str) : Bool := !name.contains SQ && !name.contains NL && lexSafe SQ name

theorem nameOk_spec (name : Str) (h : NameOk name = true) : SQ ∉ name ∧ NL ∉ name ∧ lexSafe SQ name = true := by
  simp only [NameOk, Bool.and_eq_true, Bool.not_eq_true', List.contains_eq_mem, decide_eq_false_iff_not] at h
  exact ⟨h.1.1, h.1.2, h.2⟩

def quoted (name : Str) : Str := [SQ] ++ name ++ [SQ]

theorem quoted_single (name : Str) (h : NameOk name = true) : tokSingle (quoted name) = some (quoted name).length := by
  obtain ⟨h1, h2, h3⟩ := nameOk_spec name h
  have := tokSingle_enc SQ (Or.inl rfl) false name [] h3 (Or.inr h2)
  rw [C04.enc_quote_free SQ name h1] at this
  simpa [quoted] using this

theorem classify_quoted (name : Str) (h : NameOk name = true) : classify (quoted name) = some .str1 := by
  have hs := quoted_single name h
  have hsym : isSym (quoted name) = false := by
    cases hx : isSym (quoted name) with
    | false => rfl
    | true =>
      simp only [isSym, Bool.and_eq_true, List.any_eq_true, decide_eq_true_eq] at hx
      obtain ⟨⟨l0, hl0, he⟩, -⟩ := hx
      have hok := lit_ok l0 hl0
      rw [he] at hok
      simp [quoted, litOk] at hok
  have hm : tokMulti (quoted name) ≠ some (quoted name).length := by
    cases name with
    | nil => simp [quoted, tokMulti]
    | cons c cs =>
      have hc : c ≠ SQ := by
        have := (nameOk_spec _ h).1
        intro hc; subst hc; simp at this
      cases cs with
      | nil => simp [quoted, tokMulti, hc]
      | cons d ds => simp [quoted, tokMulti, hc]
  have hi : intLen (quoted name) = none := intLen_head SQ _ (by decide) (by decide)
  have hd : decLen (quoted name) = none := decLen_head SQ _ (by decide) (by decide) (by decide)
  simp only [classify, hsym, Bool.false_eq_true, if_false]
  have e0 : isIdStart SQ = false := by decide
  have e1 : (decide (SQ = '$') || decide (SQ = '~')) = false := by decide
  have hw : isWord (quoted name) = false := by simp [quoted, isWord, e0]
  have hsg : isSigil (quoted name) = false := by simp [quoted, isSigil, e1]
  simp [hw, hsg, isInt, isDec, isStr3, isStr1, hi, hd, hm, hs]

/-! ### the two coordinate spellings -/

theorem showInt_numHead (i : Int) : NumHead (showInt i) := by
  have hint := (C04.int_roundtrip i).1
  have := isInt_of_isIntegerTok _ hint
  simp only [isInt, Bool.and_eq_true, decide_eq_true_eq] at this
  exact numHead_of_int _ _ this.2

theorem classify_num (t : Str) (hn : NumHead t) :
    classify t = if isInt t then some .int else if isDec t then some .dec
      else if isStr3 t then some .str3 else if isStr1 t then some .str1 else none := by
  obtain ⟨c, r, rfl, hc⟩ := hn
  have hnotsym : isSym (c :: r) = false := by
    cases hs : isSym (c :: r) with
    | false => rfl
    | true =>
      simp only [isSym, Bool.and_eq_true, List.any_eq_true, decide_eq_true_eq] at hs
      obtain ⟨⟨l0, hl0, he⟩, -⟩ := hs
      have := litRule_num l0.1 (lit_ok l0 hl0) (c :: r) ⟨c, r, rfl, hc⟩
      rw [he] at this
      simp [litRule] at this
  have hst : isIdStart c = false := by
    rcases hc with (h | h) | ⟨h, -⟩
    · cases hs : isIdStart c with
      | false => rfl
      | true => rw [idStart_not_digit c hs] at h; cases h
    · subst h; decide
    · subst h; decide
  have hsig : isSigil (c :: r) = false := by
    have : c ≠ '$' ∧ c ≠ '~' := by
      rcases hc with (h | h) | ⟨h, -⟩
      · constructor <;> (rintro rfl; revert h; decide)
      · subst h; exact ⟨by decide, by decide⟩
      · subst h; exact ⟨by decide, by decide⟩
    simp [isSigil, this.1, this.2]
  simp [classify, hnotsym, isWord, hst, hsig]

theorem classify_showInt (i : Int) : classify (showInt i) = some .int := by
  rw [classify_num _ (showInt_numHead i)]
  simp [isInt_of_isIntegerTok _ (C04.int_roundtrip i).1]

theorem udecLen_half (ds : Str) (hd : ds.all isDigit = true) : udecLen (ds ++ ['.', '5']) = some (ds ++ ['.', '5']).length := by
  simp only [udecLen]
  rw [takeWhile_all_append isDigit ds _ hd]
  have h1 : (['.', '5'] : Str).takeWhile isDigit = [] := by decide
  simp only [h1, List.append_nil, List.drop_left']
  have h2 : (['5'] : Str).takeWhile isDigit = ['5'] := by decide
  simp [h2]

theorem decLen_showInt_half (i : Int) : decLen (showInt i ++ ['.', '5']) = some (showInt i ++ ['.', '5']).length := by
  have hall : ∀ n, (showNat n).all isDigit = true := fun n => by rw [List.all_eq_true]; exact showNat_all_digits n
  cases i with
  | ofNat n =>
    simp only [showInt]
    cases hs : showNat n with
    | nil => exact absurd hs (showNat_ne_nil _)
    | cons c cs =>
      have hc : c ≠ '-' := showNat_head_ne_minus _ c cs hs
      have := udecLen_half (c :: cs) (hs ▸ hall n)
      simp only [List.cons_append, decLen, hc, if_false]
      exact this
  | negSucc n =>
    simp only [showInt, List.cons_append, decLen, if_true]
    rw [udecLen_half _ (hall (n + 1))]
    simp

theorem classify_half (i : Int) : classify (showInt i ++ ['.', '5']) = some .dec := by
  have hn : NumHead (showInt i ++ ['.', '5']) := numHead_append _ _ (showInt_numHead i)
  rw [classify_num _ hn]
  have hni : isInt (showInt i ++ ['.', '5']) = false := by
    cases hx : isInt (showInt i ++ ['.', '5']) with
    | false => rfl
    | true =>
      simp only [isInt, Bool.and_eq_true, decide_eq_true_eq] at hx
      obtain ⟨x, hx1, hx2⟩ := int_last _ hx.2
      -- all characters after an optional sign are identifier characters; the dot is not
      have : ∀ t : Str, intLen t = some t.length → ∀ c ∈ t, c = '-' ∨ isIdChar c = true := by
        intro t ht c hc
        cases t with
        | nil => simp at hc
        | cons a r =>
          simp only [intLen] at ht
          split at ht
          · rename_i ha
            cases hu : uintLen r with
            | none => simp [hu] at ht
            | some k =>
              simp [hu] at ht; subst ht
              rcases List.mem_cons.mp hc with h | h
              · exact Or.inl (h.trans ha)
              · have := (uintLen_full_idChars r hu).2
                rw [List.all_eq_true] at this
                exact Or.inr (this c h)
          · have := (uintLen_full_idChars _ ht).2
            rw [List.all_eq_true] at this
            exact Or.inr (this c hc)
      have hdot := this _ hx.2 '.' (by simp)
      rcases hdot with h | h
      · exact absurd h (by decide)
      · exact absurd h (by decide)
  have hdec : isDec (showInt i ++ ['.', '5']) = true := by
    simp only [isDec, Bool.and_eq_true, Bool.not_eq_true', decide_eq_true_eq]
    refine ⟨by cases h : showInt i ++ ['.', '5'] <;> simp_all, decLen_showInt_half i⟩
  simp [hni, hdec]

theorem classify_posFinal (rel off : Int) : ∃ cls, classify (posFinal rel off) = some cls ∧ (cls = .int ∨ cls = .dec) := by
  unfold posFinal
  split
  · exact ⟨.dec, classify_half rel, Or.inr rfl⟩
  · simp only [List.append_nil]; exact ⟨.int, classify_showInt rel, Or.inl rfl⟩

/-! ### the printed mark as pieces -/

/-- `Position<'name', x, y>` followed by the separator `us` -/
def posPieces (p : PosMark) (us : List SepUnit) : List Piece :=
  [("Position".toList, []), ("<".toList, []), (quoted p.name, []), (",".toList, [.spaces [' ']]),
   (posFinal p.xRel p.xOff, []), (",".toList, [.spaces [' ']]), (posFinal p.yRel p.yOff, []), (">".toList, us)]

theorem render_posPieces (p : PosMark) (us : List SepUnit) (tail : Str) :
    render (posPieces p us) tail = posMarkStr p ++ sepText us ++ tail := by
  simp [posPieces, render, sepText, posMarkStr, posPrefix, quoted, SepUnit.text, SP]

theorem safeBoundary_head (t : Str) (c : Char) (r : Str) : safeBoundary t (c :: r) = safeBoundary t [c] := by
  simp [safeBoundary]

theorem safe_num_before (t : Str) (cls : Cls) (h : classify t = some cls) (hc : cls = .int ∨ cls = .dec) (c : Char) (r : Str)
    (h1 : isIdChar c = false) (h2 : c ≠ '.') : safeBoundary t (c :: r) = true := by
  rcases hc with rfl | rfl <;> simp [safeBoundary, h, h1, h2]

/-- the printed mark is an admissible rendering when what follows the closing `>` is admissible -/
theorem posPieces_admissible (p : PosMark) (us : List SepUnit) (B : List Piece) (tail : Str) (hn : NameOk p.name = true)
    (hus : ∀ u ∈ us, u.ok = true) (hlast : us ≠ [] ∨ safeBoundary ">".toList (render B tail) = true)
    (hB : Admissible B tail) : Admissible (posPieces p us ++ B) tail := by
  obtain ⟨cx, hcx, hcx'⟩ := classify_posFinal p.xRel p.xOff
  obtain ⟨cy, hcy, hcy'⟩ := classify_posFinal p.yRel p.yOff
  have hsp : ∀ u ∈ [SepUnit.spaces [' ']], u.ok = true := by intro u hu; simp at hu; subst hu; decide
  simp only [posPieces, List.cons_append, List.nil_append, Admissible, render]
  refine ⟨by decide +kernel, by simp, Or.inr ?_, by decide +kernel, by simp, Or.inr ?_, ?_, by simp, Or.inr ?_,
    by decide +kernel, hsp, Or.inl (by simp), ?_, by simp, Or.inr ?_, by decide +kernel, hsp, Or.inl (by simp), ?_, by simp, Or.inr ?_,
    by decide +kernel, hus, ?_, hB⟩
  · -- Position | <
    rw [show ("<".toList ++ sepText [] ++ _ : Str) = '<' :: _ from rfl, safeBoundary_head]; decide +kernel
  · -- < | 'name'
    rw [show (quoted p.name ++ sepText [] ++ _ : Str) = SQ :: _ from rfl, safeBoundary_head]; decide +kernel
  · rw [classify_quoted p.name hn]; rfl
  · -- 'name' | ,
    rw [show (",".toList ++ sepText [SepUnit.spaces [' ']] ++ _ : Str) = ',' :: _ from rfl]
    simp only [safeBoundary, classify_quoted p.name hn]
    simp [quoted]
    right; decide
  · rw [hcx]; rfl
  · -- x | ,
    rw [show (",".toList ++ sepText [SepUnit.spaces [' ']] ++ _ : Str) = ',' :: _ from rfl]
    exact safe_num_before _ cx hcx hcx' ',' _ (by decide) (by decide)
  · rw [hcy]; rfl
  · -- y | >
    rw [show (">".toList ++ sepText us ++ _ : Str) = '>' :: _ from rfl]
    exact safe_num_before _ cy hcy hcy' '>' _ (by decide) (by decide)
  · exact hlast

end ESV.PosMark
