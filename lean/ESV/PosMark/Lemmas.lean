import ESV.PosMark.Model
import ESV.Lex.Lemmas
/-
Span arithmetic: the (line, column) ANTLR gives to a character and `offsetOf` are inverse to each other, hence replacing
the span of a literal (first character … last character, inclusive) by a new text is `pre ++ new ++ post`.
-/
namespace ESV.PosMark
open ESV.Lex (takeWhile_all_append takeWhile_all length_takeWhile_le)

theorem foldl_advance_shift (pre : Str) (l c k : Nat) :
    pre.foldl advance (l + k, c) = ((pre.foldl advance (l, c)).1 + k, (pre.foldl advance (l, c)).2) := by
  induction pre generalizing l c with
  | nil => rfl
  | cons ch pre ih =>
    simp only [List.foldl_cons, advance]
    split
    · have : l + k + 1 = (l + 1) + k := by omega
      rw [this, ih]
    · exact ih l (c + 1)

/-- a run without line breaks only moves the column -/
theorem foldl_advance_line (w : Str) (l c : Nat) (hw : w.all notNl = true) : w.foldl advance (l, c) = (l, c + w.length) := by
  induction w generalizing c with
  | nil => rfl
  | cons ch w ih =>
    simp only [List.all_cons, Bool.and_eq_true, notNl, decide_eq_true_eq] at hw
    simp only [List.foldl_cons, advance, hw.1, if_false]
    rw [ih (c + 1) hw.2]
    simp; omega

theorem dropWhile_all_append_nl (u r : Str) (hu : u.all notNl = true) : (u ++ '\n' :: r).dropWhile notNl = '\n' :: r := by
  induction u with
  | nil => simp [notNl]
  | cons x u ih => simp only [List.all_cons, Bool.and_eq_true] at hu; simp [hu.1, ih hu.2]

theorem takeWhile_all_append_nl (u r : Str) (hu : u.all notNl = true) : (u ++ '\n' :: r).takeWhile notNl = u := by
  rw [takeWhile_all_append notNl u _ hu]; simp [notNl]

/-- the position computed for the character after `pre` (on a line that already holds `u`) is found again by `offsetOf` -/
theorem offsetOf_pos (pre u : Str) (x : Char) (post : Str) (hu : u.all notNl = true) (hx : x ≠ '\n') :
    offsetOf (u ++ pre ++ x :: post) (pre.foldl advance (0, u.length)).1 (pre.foldl advance (0, u.length)).2 =
      some (u.length + pre.length) := by
  induction pre generalizing u with
  | nil =>
    simp only [List.foldl_nil, List.append_nil, offsetOf]
    rw [takeWhile_all_append notNl u _ hu]
    have : notNl x = true := by simp [notNl, hx]
    simp [this]
  | cons ch pre ih =>
    by_cases hch : ch = '\n'
    · subst hch
      have hf : (('\n' :: pre).foldl advance (0, u.length)) =
          ((pre.foldl advance (0, 0)).1 + 1, (pre.foldl advance (0, 0)).2) := by
        simp only [List.foldl_cons, advance, if_true]
        have := foldl_advance_shift pre 0 0 1
        simpa using this
      rw [hf]
      have e : u ++ '\n' :: pre ++ x :: post = u ++ '\n' :: (pre ++ x :: post) := by simp
      rw [e]
      simp only [offsetOf, dropWhile_all_append_nl u _ hu, takeWhile_all_append_nl u _ hu]
      have := ih [] (by simp)
      simp only [List.nil_append, List.length_nil, Nat.zero_add] at this
      rw [this]
      simp; omega
    · have hf : ((ch :: pre).foldl advance (0, u.length)) = pre.foldl advance (0, (u ++ [ch]).length) := by
        simp [advance, hch]
      rw [hf]
      have e : u ++ ch :: pre ++ x :: post = (u ++ [ch]) ++ pre ++ x :: post := by simp
      rw [e, ih (u ++ [ch]) (by simp [hu, notNl, hch])]
      simp; omega

/-- `offsetOf` inverts ANTLR's position bookkeeping -/
theorem offsetOf_posOf (pre : Str) (x : Char) (post : Str) (hx : x ≠ '\n') :
    offsetOf (pre ++ x :: post) (posOf pre).1 (posOf pre).2 = some pre.length := by
  have := offsetOf_pos pre [] x post (by simp) hx
  simpa [posOf] using this

theorem take_takeWhile_all {α} (p : α → Bool) (s : List α) (c : Nat) (hc : c ≤ (s.takeWhile p).length) :
    (s.take c).all p = true ∧ (s.take c).length = c := by
  induction s generalizing c with
  | nil => simp at hc; subst hc; simp
  | cons a s ih =>
    cases c with
    | zero => simp
    | succ c =>
      simp only [List.takeWhile_cons] at hc
      split at hc
      · rename_i ha
        simp only [List.length_cons, Nat.add_le_add_iff_right] at hc
        have := ih c hc
        simp [ha, this.1, this.2]
      · simp at hc

theorem takeWhile_sat {α} (p : α → Bool) (l : List α) : (l.takeWhile p).all p = true := by
  induction l with
  | nil => rfl
  | cons a l ih => simp only [List.takeWhile_cons]; split <;> simp [*]

theorem dropWhile_head_fails {α} (p : α → Bool) (l : List α) (y : α) (r : List α) (h : l.dropWhile p = y :: r) : p y = false := by
  induction l with
  | nil => simp at h
  | cons a l ih =>
    simp only [List.dropWhile_cons] at h
    split at h
    · exact ih h
    · rename_i ha; simp at h; rw [← h.1]; simpa using ha

/-- … and conversely: the character `offsetOf` finds has exactly that ANTLR position -/
theorem offsetOf_sound (text : Str) (l c n : Nat) (h : offsetOf text l c = some n) :
    posOf (text.take n) = (l, c) ∧ n < text.length := by
  induction l generalizing text n with
  | zero =>
    simp only [offsetOf] at h
    split at h
    · rename_i hc
      simp only [Option.some.injEq] at h
      subst h
      obtain ⟨h1, h2⟩ := take_takeWhile_all notNl text c (Nat.le_of_lt hc)
      refine ⟨?_, ?_⟩
      · simp only [posOf, foldl_advance_line _ 0 0 h1, h2, Nat.zero_add]
      · have := length_takeWhile_le notNl text; omega
    · simp at h
  | succ l ih =>
    simp only [offsetOf] at h
    cases hd : text.dropWhile notNl with
    | nil => simp [hd] at h
    | cons y r =>
      simp only [hd] at h
      cases ho : offsetOf r l c with
      | none => simp [ho] at h
      | some m =>
        simp only [ho, Option.map_some, Option.some.injEq] at h
        obtain ⟨ih1, ih2⟩ := ih r m ho
        have hsplit := List.takeWhile_append_dropWhile (p := notNl) (l := text)
        rw [hd] at hsplit
        have hy : y = '\n' := by
          have := dropWhile_head_fails notNl text y r hd
          simpa [notNl] using this
        subst hy
        have hall : (text.takeWhile notNl).all notNl = true := takeWhile_sat notNl text
        generalize text.takeWhile notNl = a at hsplit hall h
        have htake : text.take n = a ++ '\n' :: r.take m := by
          rw [← hsplit, ← h]
          have : m + (a.length + 1) = a.length + (m + 1) := by omega
          rw [this, List.take_append, List.take_of_length_le (by omega)]
          simp
        refine ⟨?_, ?_⟩
        · rw [htake]
          simp only [posOf, List.foldl_append, List.foldl_cons, foldl_advance_line a 0 0 hall, advance, if_true]
          have hs := foldl_advance_shift (r.take m) 0 0 1
          simp only [Nat.zero_add] at hs
          rw [hs]
          simp only [posOf] at ih1
          rw [ih1]
        · rw [← hsplit, ← h]; simp; omega

/-- **splice_local**: the literal `p :: mid ++ [g]` (first character `p`, last character `g`, neither a line break;
anything, line breaks and non-ASCII characters included, in between) stands between `pre` and `post`.  The listing reports
`start` = position of `p` and `stop` = position of `g`.  Replacing that span by `new` gives `pre ++ new ++ post`. -/
theorem splice_local (pre mid post new : Str) (p g : Char) (hp : p ≠ '\n') (hg : g ≠ '\n') :
    replaceSpan (pre ++ (p :: mid ++ [g]) ++ post) (posOf pre) (posOf (pre ++ p :: mid)) new = some (pre ++ new ++ post) := by
  have e1 : pre ++ (p :: mid ++ [g]) ++ post = pre ++ p :: (mid ++ g :: post) := by simp
  have e2 : pre ++ (p :: mid ++ [g]) ++ post = (pre ++ p :: mid) ++ g :: post := by simp
  have h1 := offsetOf_posOf pre p (mid ++ g :: post) hp
  have h2 := offsetOf_posOf (pre ++ p :: mid) g post hg
  rw [← e1] at h1
  rw [← e2] at h2
  simp only [replaceSpan, h1, h2]
  have hle : pre.length ≤ (pre ++ p :: mid).length := by simp
  simp only [hle, if_true]
  congr 1
  have t1 : (pre ++ (p :: mid ++ [g]) ++ post).take pre.length = pre := by
    rw [e1]; simp
  have t2 : (pre ++ (p :: mid ++ [g]) ++ post).drop ((pre ++ p :: mid).length + 1) = post := by
    have : (pre ++ (p :: mid ++ [g]) ++ post) = (pre ++ p :: mid ++ [g]) ++ post := by simp
    rw [this]
    have hl : (pre ++ p :: mid).length + 1 = (pre ++ p :: mid ++ [g]).length := by
      simp only [List.length_append, List.length_cons, List.length_nil]
    rw [hl, List.drop_left' rfl]
  rw [t1, t2]

end ESV.PosMark
