/-
Text positions and the span splice used with the position-mark listing (property C18), on `List Char` (a `Char` is a
Unicode code point: ANTLR's Python runtime counts columns in code points of the `str`, as does Python slicing).

  * `posOf pre`     — the (line, column) ANTLR assigns to the character that follows the prefix `pre`: both 0-based here
                      (`ctx.start.line - 1`, `ctx.start.column`); only `\n` starts a new line (antlr4 `LexerATNSimulator.consume`).
  * `offsetOf`      — index of the character at (line, column), walking the lines of the text; `none` when the line does
                      not exist or the column is not inside it.
  * `replaceSpan`   — what an editor does with one entry of the listing: the text from (l₁, c₁) up to AND INCLUDING the
                      character at (l₂, c₂) is replaced by `new`.
-/
namespace ESV.PosMark

abbrev Str := List Char

def notNl (c : Char) : Bool := c ≠ '\n'

/-- line/column bookkeeping of the ANTLR input stream when `c` is consumed -/
def advance (p : Nat × Nat) (c : Char) : Nat × Nat := if c = '\n' then (p.1 + 1, 0) else (p.1, p.2 + 1)

/-- (line, column), both 0-based, of the character following `pre` -/
def posOf (pre : Str) : Nat × Nat := pre.foldl advance (0, 0)

/-- index of the character at line `l`, column `c` -/
def offsetOf : Str → Nat → Nat → Option Nat
  | s, 0, c => if c < (s.takeWhile notNl).length then some c else none
  | s, l + 1, c =>
    match s.dropWhile notNl with
    | [] => none
    | _ :: r => (offsetOf r l c).map (· + ((s.takeWhile notNl).length + 1))

/-- replace the characters from `start` to `stop` (inclusive) by `new` -/
def replaceSpan (text : Str) (start stop : Nat × Nat) (new : Str) : Option Str :=
  match offsetOf text start.1 start.2, offsetOf text stop.1 stop.2 with
  | some a, some b => if a ≤ b then some (text.take a ++ new ++ text.drop (b + 1)) else none
  | _, _ => none

end ESV.PosMark
