import ESV.Static.Wf
/-
Lemmas about the static model: a failing occurrence makes the whole body fail (both phases), the classes of the
collect phase, cycles survive peeling, import chains.
-/
namespace ESV.Static

@[simp] theorem ok?_seq (x y : Res) : (x >>> y).ok? = (x.ok? && y.ok?) := by
  cases x <;> simp [seq, Res.ok?]

@[simp] theorem ok?_failIf (b : Bool) (e : ErrKind) : (failIf b e).ok? = !b := by
  cases b <;> simp [failIf, Res.ok?]

@[simp] theorem ok?_ok : Res.ok? (Except.ok ()) = true := rfl
@[simp] theorem ok?_ssb : ssb.ok? = false := rfl
@[simp] theorem ok?_vErr : vErr.ok? = false := rfl

theorem ok?_false_iff (x : Res) : x.ok? = false ↔ ∃ e, x = .error e := by
  cases x <;> simp [Res.ok?]

/-! ### collect phase: a failing occurrence fails the body -/
mutual
theorem collectS_fail (env : Env) : ∀ (t : Stmt) (l c : Bool) (o : Occ), o ∈ subsS l c t →
    (collectS env o.1 o.2.1 o.2.2).ok? = false → (collectS env l c t).ok? = false
  | .with_ inner, l, c, o, hm, hf => by
    simp only [subsS, List.mem_cons] at hm
    rcases hm with rfl | hm
    · exact hf
    · have := collectS_fail env inner l c o hm hf
      simp [collectS, this]
  | .ite bs els, l, c, o, hm, hf => by
    simp only [subsS, List.mem_cons, List.mem_append] at hm
    rcases hm with rfl | hm | hm
    · exact hf
    · have := collectB_fail env bs l c o hm hf
      simp only [collectS, ok?_seq]
      cases h1 : (pass1 env l c bs).ok? <;> cases h2 : (pass2 env l c bs).ok? <;> simp_all
    · have := collectSs_fail env els l c o hm hf
      simp [collectS, this]
  | .switch cs, l, c, o, hm, hf => by
    simp only [subsS, List.mem_cons] at hm
    rcases hm with rfl | hm
    · exact hf
    · have := collectC_fail env cs l o hm hf
      simp [collectS, this]
  | .forever body, l, c, o, hm, hf => by
    simp only [subsS, List.mem_cons] at hm
    rcases hm with rfl | hm
    · exact hf
    · simpa [collectS] using collectSs_fail env body true c o hm hf
  | .while_ h body, l, c, o, hm, hf => by
    simp only [subsS, List.mem_cons] at hm
    rcases hm with rfl | hm
    · exact hf
    · simpa [collectS] using collectSs_fail env body true c o hm hf
  | .for_ init h inc body, l, c, o, hm, hf => by
    simp only [subsS, List.mem_cons, List.mem_append] at hm
    rcases hm with rfl | hm | hm | hm
    · exact hf
    · have := collectS_fail env init true c o hm hf
      simp [collectS, this]
    · have := collectSs_fail env body true c o hm hf
      simp [collectS, this]
    · have := collectS_fail env inc true c o hm hf
      simp [collectS, this]
  | .op i, l, c, o, hm, hf => by simp only [subsS, List.mem_singleton] at hm; subst hm; exact hf
  | .label n, l, c, o, hm, hf => by simp only [subsS, List.mem_singleton] at hm; subst hm; exact hf
  | .jump n, l, c, o, hm, hf => by simp only [subsS, List.mem_singleton] at hm; subst hm; exact hf
  | .call n, l, c, o, hm, hf => by simp only [subsS, List.mem_singleton] at hm; subst hm; exact hf
  | .ret, l, c, o, hm, hf => by simp only [subsS, List.mem_singleton] at hm; subst hm; exact hf
  | .end_, l, c, o, hm, hf => by simp only [subsS, List.mem_singleton] at hm; subst hm; exact hf
  | .hold, l, c, o, hm, hf => by simp only [subsS, List.mem_singleton] at hm; subst hm; exact hf
  | .brk, l, c, o, hm, hf => by simp only [subsS, List.mem_singleton] at hm; subst hm; exact hf
  | .cont, l, c, o, hm, hf => by simp only [subsS, List.mem_singleton] at hm; subst hm; exact hf
  | .brkLoop, l, c, o, hm, hf => by simp only [subsS, List.mem_singleton] at hm; subst hm; exact hf
  | .msgSwitch cs, l, c, o, hm, hf => by simp only [subsS, List.mem_singleton] at hm; subst hm; exact hf
  | .macroCall n k, l, c, o, hm, hf => by simp only [subsS, List.mem_singleton] at hm; subst hm; exact hf
theorem collectSs_fail (env : Env) : ∀ (t : Stmts) (l c : Bool) (o : Occ), o ∈ subsSs l c t →
    (collectS env o.1 o.2.1 o.2.2).ok? = false → (collectSs env l c t).ok? = false
  | .nil, l, c, o, hm, hf => by simp [subsSs] at hm
  | .cons s r, l, c, o, hm, hf => by
    simp only [subsSs, List.mem_append] at hm
    rcases hm with hm | hm
    · have := collectS_fail env s l c o hm hf
      simp [collectSs, this]
    · have := collectSs_fail env r l c o hm hf
      simp [collectSs, this]
theorem collectB_fail (env : Env) : ∀ (t : Branches) (l c : Bool) (o : Occ), o ∈ subsB l c t →
    (collectS env o.1 o.2.1 o.2.2).ok? = false → ((pass1 env l c t).ok? && (pass2 env l c t).ok?) = false
  | .nil, l, c, o, hm, hf => by simp [subsB] at hm
  | .cons neg hdrs body r, l, c, o, hm, hf => by
    simp only [subsB, List.mem_append] at hm
    rcases hm with hm | hm
    · have := collectSs_fail env body l c o hm hf
      cases neg <;> simp [pass1, pass2, this]
    · have := collectB_fail env r l c o hm hf
      simp only [pass1, pass2, ok?_seq]
      cases h1 : (pass1 env l c r).ok? <;> cases h2 : (pass2 env l c r).ok? <;> simp_all
theorem collectC_fail (env : Env) : ∀ (t : Cases) (l : Bool) (o : Occ), o ∈ subsC l t →
    (collectS env o.1 o.2.1 o.2.2).ok? = false → (collectC env l t).ok? = false
  | .nil, l, o, hm, hf => by simp [subsC] at hm
  | .cons d i s body r, l, o, hm, hf => by
    simp only [subsC, List.mem_append] at hm
    rcases hm with hm | hm
    · have := collectSs_fail env body l true o hm hf
      simp [collectC, this]
    · have := collectC_fail env r l o hm hf
      simp [collectC, this]
end

/-! ### add phase: a failing occurrence fails the body -/
mutual
theorem addOkS_fail (perf : String) : ∀ (t : Stmt) (l c : Bool) (o : Occ), o ∈ subsS l c t →
    addOkS perf o.2.2 = false → addOkS perf t = false
  | .with_ inner, l, c, o, hm, hf => by
    simp only [subsS, List.mem_cons] at hm
    rcases hm with rfl | hm
    · exact hf
    · have := addOkS_fail perf inner l c o hm hf
      simp [addOkS, this]
  | .ite bs els, l, c, o, hm, hf => by
    simp only [subsS, List.mem_cons, List.mem_append] at hm
    rcases hm with rfl | hm | hm
    · exact hf
    · have := addOkB_fail perf bs l c o hm hf
      simp [addOkS, this]
    · have := addOkSs_fail perf els l c o hm hf
      simp [addOkS, this]
  | .switch cs, l, c, o, hm, hf => by
    simp only [subsS, List.mem_cons] at hm
    rcases hm with rfl | hm
    · exact hf
    · have := addOkC_fail perf cs l o hm hf
      simp [addOkS, this]
  | .forever body, l, c, o, hm, hf => by
    simp only [subsS, List.mem_cons] at hm
    rcases hm with rfl | hm
    · exact hf
    · simpa [addOkS] using addOkSs_fail perf body true c o hm hf
  | .while_ h body, l, c, o, hm, hf => by
    simp only [subsS, List.mem_cons] at hm
    rcases hm with rfl | hm
    · exact hf
    · have := addOkSs_fail perf body true c o hm hf
      simp [addOkS, this]
  | .for_ init h inc body, l, c, o, hm, hf => by
    simp only [subsS, List.mem_cons, List.mem_append] at hm
    rcases hm with rfl | hm | hm | hm
    · exact hf
    · have := addOkS_fail perf init true c o hm hf
      simp [addOkS, this]
    · have := addOkSs_fail perf body true c o hm hf
      simp [addOkS, this]
    · have := addOkS_fail perf inc true c o hm hf
      simp [addOkS, this]
  | .op i, l, c, o, hm, hf => by simp only [subsS, List.mem_singleton] at hm; subst hm; exact hf
  | .label n, l, c, o, hm, hf => by simp only [subsS, List.mem_singleton] at hm; subst hm; exact hf
  | .jump n, l, c, o, hm, hf => by simp only [subsS, List.mem_singleton] at hm; subst hm; exact hf
  | .call n, l, c, o, hm, hf => by simp only [subsS, List.mem_singleton] at hm; subst hm; exact hf
  | .ret, l, c, o, hm, hf => by simp only [subsS, List.mem_singleton] at hm; subst hm; exact hf
  | .end_, l, c, o, hm, hf => by simp only [subsS, List.mem_singleton] at hm; subst hm; exact hf
  | .hold, l, c, o, hm, hf => by simp only [subsS, List.mem_singleton] at hm; subst hm; exact hf
  | .brk, l, c, o, hm, hf => by simp only [subsS, List.mem_singleton] at hm; subst hm; exact hf
  | .cont, l, c, o, hm, hf => by simp only [subsS, List.mem_singleton] at hm; subst hm; exact hf
  | .brkLoop, l, c, o, hm, hf => by simp only [subsS, List.mem_singleton] at hm; subst hm; exact hf
  | .msgSwitch cs, l, c, o, hm, hf => by simp only [subsS, List.mem_singleton] at hm; subst hm; exact hf
  | .macroCall n k, l, c, o, hm, hf => by simp only [subsS, List.mem_singleton] at hm; subst hm; exact hf
theorem addOkSs_fail (perf : String) : ∀ (t : Stmts) (l c : Bool) (o : Occ), o ∈ subsSs l c t →
    addOkS perf o.2.2 = false → addOkSs perf t = false
  | .nil, l, c, o, hm, hf => by simp [subsSs] at hm
  | .cons s r, l, c, o, hm, hf => by
    simp only [subsSs, List.mem_append] at hm
    rcases hm with hm | hm
    · have := addOkS_fail perf s l c o hm hf
      simp [addOkSs, this]
    · have := addOkSs_fail perf r l c o hm hf
      simp [addOkSs, this]
theorem addOkB_fail (perf : String) : ∀ (t : Branches) (l c : Bool) (o : Occ), o ∈ subsB l c t →
    addOkS perf o.2.2 = false → addOkB perf t = false
  | .nil, l, c, o, hm, hf => by simp [subsB] at hm
  | .cons neg hdrs body r, l, c, o, hm, hf => by
    simp only [subsB, List.mem_append] at hm
    rcases hm with hm | hm
    · have := addOkSs_fail perf body l c o hm hf
      simp [addOkB, this]
    · have := addOkB_fail perf r l c o hm hf
      simp [addOkB, this]
theorem addOkC_fail (perf : String) : ∀ (t : Cases) (l : Bool) (o : Occ), o ∈ subsC l t →
    addOkS perf o.2.2 = false → addOkC perf t = false
  | .nil, l, o, hm, hf => by simp [subsC] at hm
  | .cons d i s body r, l, o, hm, hf => by
    simp only [subsC, List.mem_append] at hm
    rcases hm with hm | hm
    · have := addOkSs_fail perf body l true o hm hf
      simp [addOkC, this]
    · have := addOkC_fail perf r l o hm hf
      simp [addOkC, this]
end

/-! ### classes of the collect phase -/
/-- every error of `r` is one of the documented classes -/
def Doc (r : Res) : Prop := ∀ e, r = .error e → e ∈ documented

theorem doc_ok : Doc (.ok ()) := by intro e h; cases h
theorem doc_ssb : Doc ssb := by intro e h; cases h; simp [documented]
theorem doc_vErr : Doc vErr := by intro e h; cases h; simp [documented]
theorem doc_failIf_ssb (b : Bool) : Doc (failIf b .ssbCompilerError) := by
  intro e h; cases b <;> simp [failIf] at h; subst h; simp [documented]
theorem doc_failIf_val (b : Bool) : Doc (failIf b .valueError) := by
  intro e h; cases b <;> simp [failIf] at h; subst h; simp [documented]
theorem doc_seq {x y : Res} (hx : Doc x) (hy : Doc y) : Doc (x >>> y) := by
  intro e h
  cases x with
  | ok u => exact hy e h
  | error e' => exact hx e h
theorem doc_ite {b : Bool} {x y : Res} (hx : Doc x) (hy : Doc y) : Doc (if b then x else y) := by
  cases b <;> simp [hx, hy]

mutual
theorem collectS_doc (env : Env) : ∀ (t : Stmt) (l c : Bool), Doc (collectS env l c t)
  | .brk, l, c => by simpa [collectS] using doc_failIf_ssb _
  | .cont, l, c => by simpa [collectS] using doc_failIf_ssb _
  | .brkLoop, l, c => by simpa [collectS] using doc_failIf_ssb _
  | .with_ inner, l, c => by
    simp only [collectS]; exact doc_seq (collectS_doc env inner l c) (doc_failIf_ssb _)
  | .ite bs els, l, c => by
    simp only [collectS]
    exact doc_seq (pass1_doc env bs l c) (doc_seq (collectSs_doc env els l c) (pass2_doc env bs l c))
  | .switch cs, l, c => by
    simp only [collectS]
    exact doc_seq (doc_failIf_ssb _) (doc_seq (collectC_doc env cs l) (doc_failIf_ssb _))
  | .msgSwitch cs, l, c => by simpa [collectS] using doc_failIf_ssb _
  | .forever body, l, c => by simpa [collectS] using collectSs_doc env body true c
  | .while_ h body, l, c => by simpa [collectS] using collectSs_doc env body true c
  | .for_ init h inc body, l, c => by
    simp only [collectS]
    exact doc_seq (collectS_doc env init true c) (doc_seq (collectSs_doc env body true c) (collectS_doc env inc true c))
  | .macroCall name k, l, c => by
    simp only [collectS]
    split
    · exact doc_ssb
    · exact doc_failIf_val _
  | .op i, l, c => by simpa [collectS] using doc_ok
  | .label n, l, c => by simpa [collectS] using doc_ok
  | .jump n, l, c => by simpa [collectS] using doc_ok
  | .call n, l, c => by simpa [collectS] using doc_ok
  | .ret, l, c => by simpa [collectS] using doc_ok
  | .end_, l, c => by simpa [collectS] using doc_ok
  | .hold, l, c => by simpa [collectS] using doc_ok
theorem collectSs_doc (env : Env) : ∀ (t : Stmts) (l c : Bool), Doc (collectSs env l c t)
  | .nil, l, c => by simpa [collectSs] using doc_ok
  | .cons s r, l, c => by
    simp only [collectSs]; exact doc_seq (collectS_doc env s l c) (collectSs_doc env r l c)
theorem pass1_doc (env : Env) : ∀ (t : Branches) (l c : Bool), Doc (pass1 env l c t)
  | .nil, l, c => by simpa [pass1] using doc_ok
  | .cons neg hdrs body r, l, c => by
    simp only [pass1]
    exact doc_seq (doc_failIf_ssb _) (doc_seq (doc_ite (collectSs_doc env body l c) doc_ok) (pass1_doc env r l c))
theorem pass2_doc (env : Env) : ∀ (t : Branches) (l c : Bool), Doc (pass2 env l c t)
  | .nil, l, c => by simpa [pass2] using doc_ok
  | .cons neg hdrs body r, l, c => by
    simp only [pass2]
    exact doc_seq (doc_ite doc_ok (collectSs_doc env body l c)) (pass2_doc env r l c)
theorem collectC_doc (env : Env) : ∀ (t : Cases) (l : Bool), Doc (collectC env l t)
  | .nil, l => by simpa [collectC] using doc_ok
  | .cons d i s body r, l => by
    simp only [collectC]; exact doc_seq (collectSs_doc env body l true) (collectC_doc env r l)
end

theorem bodyCheck_doc (env : Env) (b : Stmts) : Doc (bodyCheck env b) := by
  unfold bodyCheck; exact doc_ite (collectSs_doc env b false false) doc_ssb

theorem checkBodies_doc (env : Env) : ∀ bs : List Stmts, Doc (checkBodies env bs)
  | [] => by simpa [checkBodies] using doc_ok
  | b :: r => by simp only [checkBodies]; exact doc_seq (bodyCheck_doc env b) (checkBodies_doc env r)

/-! ### bodies -/
theorem bodyCheck_fail_add (env : Env) (b : Stmts) (o : Occ) (hm : o ∈ occs b)
    (hf : addOkS env.perf o.2.2 = false) : (bodyCheck env b).ok? = false := by
  have := addOkSs_fail env.perf b false false o hm hf
  simp [bodyCheck, this]

theorem bodyCheck_fail_collect (env : Env) (b : Stmts) (o : Occ) (hm : o ∈ occs b)
    (hf : (collectS env o.1 o.2.1 o.2.2).ok? = false) : (bodyCheck env b).ok? = false := by
  have := collectSs_fail env b false false o hm hf
  unfold bodyCheck
  split <;> simp [this]

theorem checkBodies_fail (env : Env) : ∀ (bs : List Stmts) (b : Stmts), b ∈ bs →
    (bodyCheck env b).ok? = false → (checkBodies env bs).ok? = false
  | [], b, hm, _ => by cases hm
  | x :: r, b, hm, hf => by
    rcases List.mem_cons.mp hm with rfl | hm
    · simp [checkBodies, hf]
    · simp [checkBodies, checkBodies_fail env r b hm hf]

/-- a sequence whose first part is documented and fails, fails with a documented class -/
theorem seq_fail_left {x y : Res} (hd : Doc x) (hf : x.ok? = false) : ∃ e, (x >>> y) = .error e ∧ e ∈ documented := by
  cases x with
  | ok u => simp [Res.ok?] at hf
  | error e => exact ⟨e, rfl, hd e rfl⟩

theorem seq_ok_left {x y : Res} (h : x.ok? = true) : (x >>> y) = y := by
  cases x with
  | ok u => rfl
  | error e => simp [Res.ok?] at h

theorem res_cases (x : Res) : x.ok? = true ∨ x.ok? = false := by cases x <;> simp [Res.ok?]

/-! ### the per-file check -/
def File.bodies (f : File) : List Stmts := (f.macros.map fun m => m.body) ++ f.routineBodies

theorem doc_optBody (r : Routine) (g : Stmts → Res) (h : ∀ b, Doc (g b)) : Doc (optBody r g) := by
  unfold optBody; split
  · exact h _
  · exact doc_ok

theorem routinesGo_doc (env : Env) : ∀ (rs : List Routine) (active : Int) (n : Nat), Doc (routinesGo env active n rs)
  | [], _, _ => by simpa [routinesGo] using doc_ok
  | r :: rest, active, n => by
    simp only [routinesGo]
    exact doc_seq (doc_failIf_ssb _) (doc_seq (doc_optBody r _ fun _ => doc_failIf_ssb _)
      (doc_seq (doc_failIf_ssb _) (doc_seq (doc_optBody r _ fun b => collectSs_doc env b false false) (routinesGo_doc env rest _ _))))

/-- a routine whose body fails its check (add or collect phase) makes the routine phase fail -/
theorem routinesGo_fail (env : Env) (r : Routine) (b : Stmts) (hb : r.body = some b)
    (hf : (bodyCheck env b).ok? = false) : ∀ (rs : List Routine) (active : Int) (n : Nat), r ∈ rs →
    (routinesGo env active n rs).ok? = false
  | [], _, _, hm => by cases hm
  | x :: rest, active, n, hm => by
    rcases List.mem_cons.mp hm with rfl | hm
    · simp only [routinesGo, ok?_seq, ok?_failIf, optBody, hb]
      unfold bodyCheck at hf
      cases ha : addOkSs env.perf b
      · simp
      · simp only [ha, if_true] at hf
        simp [hf]
    · have := routinesGo_fail env r b hb hf rest (x.newId active) (if x.newId active ≥ (n : Int) then (x.newId active).toNat + 1 else n) hm
      simp only [routinesGo, ok?_seq, this, Bool.and_false]

theorem mem_routineBodies {f : File} {b : Stmts} (h : b ∈ f.routineBodies) : ∃ r ∈ f.routines, r.body = some b := by
  unfold File.routineBodies at h
  rw [List.mem_filterMap] at h
  exact h

theorem checkRoutines_doc (cfg : Cfg) (ms : List Macro) (f : File) : Doc (checkRoutines cfg ms f) := by
  unfold checkRoutines
  exact doc_seq (routinesGo_doc _ _ _ _) (doc_failIf_ssb _)

/-- every error of the compilation of one file is a documented class -/
theorem checkLocal_doc (cfg : Cfg) (imported : List Macro) (f : File) (mo : Bool) : Doc (checkLocal cfg imported f mo) := by
  unfold checkLocal
  exact doc_seq (doc_failIf_ssb _) (doc_seq (checkBodies_doc _ _) (doc_ite (doc_failIf_ssb _) (checkRoutines_doc _ _ _)))

theorem fail_doc {x : Res} (hd : Doc x) (hf : x.ok? = false) : ∃ e, x = .error e ∧ e ∈ documented := by
  obtain ⟨e, he⟩ := (ok?_false_iff x).mp hf
  exact ⟨e, he, hd e he⟩

theorem checkLocal_fail_of_body (cfg : Cfg) (imported : List Macro) (f : File) (b : Stmts) (hb : b ∈ f.bodies)
    (hf : (bodyCheck ⟨cfg.perfVar, imported ++ f.macros⟩ b).ok? = false) :
    ∃ e, checkLocal cfg imported f false = .error e ∧ e ∈ documented := by
  refine fail_doc (checkLocal_doc cfg imported f false) ?_
  unfold checkLocal
  simp only [Bool.false_eq_true, if_false, ok?_seq]
  rcases List.mem_append.mp hb with hb | hb
  · simp [checkBodies_fail _ _ b hb hf]
  · obtain ⟨r, hr, hrb⟩ := mem_routineBodies hb
    unfold checkRoutines
    simp [routinesGo_fail _ r b hrb hf f.routines (-1) 0 hr]

/-- macros-only compilation (an imported file) fails on a defective macro body too -/
theorem checkLocal_fail_of_macro_body (cfg : Cfg) (imported : List Macro) (f : File) (mo : Bool) (m : Macro)
    (hm : m ∈ f.macros) (hf : (bodyCheck ⟨cfg.perfVar, imported ++ f.macros⟩ m.body).ok? = false) :
    ∃ e, checkLocal cfg imported f mo = .error e ∧ e ∈ documented := by
  refine fail_doc (checkLocal_doc cfg imported f mo) ?_
  unfold checkLocal
  simp [checkBodies_fail _ _ m.body (List.mem_map.mpr ⟨m, hm, rfl⟩) hf]

theorem checkLocal_fail_of_labels (cfg : Cfg) (imported : List Macro) (f : File)
    (h : labelsBad (imported ++ f.macros) f = true) :
    ∃ e, checkLocal cfg imported f false = .error e ∧ e ∈ documented := by
  refine fail_doc (checkLocal_doc cfg imported f false) ?_
  unfold checkLocal checkRoutines
  simp [h]

theorem checkLocal_fail_of_cycle (cfg : Cfg) (imported : List Macro) (f : File) (mo : Bool)
    (h : macroCycle f.macros = true) : ∃ e, checkLocal cfg imported f mo = .error e ∧ e ∈ documented := by
  refine fail_doc (checkLocal_doc cfg imported f mo) ?_
  unfold checkLocal
  simp [h]

/-- a file with routines does not pass a macros-only compilation -/
theorem checkLocal_macrosOnly_fail_of_routines (cfg : Cfg) (imported : List Macro) (f : File) (h : f.hasRoutines = true) :
    ∃ e, checkLocal cfg imported f true = .error e ∧ e ∈ documented := by
  refine fail_doc (checkLocal_doc cfg imported f true) ?_
  unfold checkLocal
  simp [h]

/-! ### macro cycles survive peeling -/
/-- a non-empty set of names, each defined in `ms` by a macro that calls a member of the set -/
def ClosedCycle (ms : List Macro) (C : List String) : Prop :=
  C ≠ [] ∧ ∀ x ∈ C, (∃ m ∈ ms, m.name = x) ∧ ∃ y ∈ C, y ∈ callees ms x

theorem peel_keeps (ms : List Macro) (C R : List String) (hc : ∀ x ∈ C, ∃ y ∈ C, y ∈ callees ms x)
    (hs : ∀ x ∈ C, x ∈ R) : ∀ x ∈ C, x ∈ peel ms R := by
  intro x hx
  unfold peel
  rw [List.mem_filter]
  refine ⟨hs x hx, ?_⟩
  rcases hc x hx with ⟨y, hy, hyc⟩
  rw [List.any_eq_true]
  exact ⟨y, hyc, by simpa using hs y hy⟩

theorem peelN_keeps (ms : List Macro) (C : List String) (hc : ∀ x ∈ C, ∃ y ∈ C, y ∈ callees ms x) :
    ∀ (n : Nat) (R : List String), (∀ x ∈ C, x ∈ R) → ∀ x ∈ C, x ∈ peelN ms n R
  | 0, R, hs => by simpa [peelN] using hs
  | n + 1, R, hs => by
    simp only [peelN]
    exact peelN_keeps ms C hc n (peel ms R) (peel_keeps ms C R hc hs)

theorem macroCycle_of_closed (ms : List Macro) (C : List String) (h : ClosedCycle ms C) : macroCycle ms = true := by
  obtain ⟨hne, hall⟩ := h
  have hkeep := peelN_keeps ms C (fun x hx => (hall x hx).2) ms.length (ms.map fun m => m.name)
    (fun x hx => by
      rcases (hall x hx).1 with ⟨m, hm, rfl⟩
      exact List.mem_map.mpr ⟨m, hm, rfl⟩)
  unfold macroCycle
  cases C with
  | nil => exact absurd rfl hne
  | cons a r =>
    have := hkeep a (List.mem_cons_self ..)
    cases hp : peelN ms ms.length (ms.map fun m => m.name) with
    | nil => rw [hp] at this; cases this
    | cons _ _ => rfl

/-! ### imports -/
theorem importAll_fail (sub : String → Except ErrKind (List Macro)) (rc : List String) (s : String) :
    ∀ (imps : List (Option String)) (acc : List Macro), some s ∈ imps →
      (rc.contains s = true ∨ ∃ e, sub s = .error e) → ∃ e, importAll sub rc imps acc = .error e
  | [], _, hm, _ => by cases hm
  | none :: r, acc, _, _ => ⟨_, rfl⟩
  | some t :: r, acc, hm, hs => by
    simp only [importAll]
    by_cases hc : rc.contains t = true
    · rw [if_pos hc]; exact ⟨_, rfl⟩
    · rw [if_neg hc]
      cases hsub : sub t with
      | error e => exact ⟨e, rfl⟩
      | ok ms =>
        simp only []
        rcases List.mem_cons.mp hm with heq | hm
        · cases heq
          rcases hs with hs | ⟨e, he⟩
          · exact absurd hs hc
          · rw [he] at hsub; cases hsub
        · exact importAll_fail sub rc s r _ hm hs

theorem importAll_doc (sub : String → Except ErrKind (List Macro)) (rc : List String)
    (hsub : ∀ s e, sub s = .error e → e ∈ documented) :
    ∀ (imps : List (Option String)) (acc : List Macro) (e : ErrKind), importAll sub rc imps acc = .error e → e ∈ documented
  | [], _, e, h => by simp [importAll] at h
  | none :: r, acc, e, h => by simp [importAll] at h; subst h; simp [documented]
  | some t :: r, acc, e, h => by
    simp only [importAll] at h
    split at h
    · cases h; simp [documented]
    · split at h
      · rename_i e' he'
        cases h
        exact hsub t e he'
      · exact importAll_doc sub rc hsub r _ e h

/-- every error of a compilation, of the compiled file or of an imported one at any depth, is documented -/
theorem checkFile_doc (cfg : Cfg) (w : World) : ∀ (fuel : Nat) (rc : List String) (k : String) (mo : Bool) (e : ErrKind),
    checkFile cfg w fuel rc k mo = .error e → e ∈ documented
  | 0, rc, k, mo, e, h => by simp [checkFile] at h; subst h; simp [documented]
  | fuel + 1, rc, k, mo, e, h => by
    simp only [checkFile] at h
    split at h
    · cases h; simp [documented]
    · split at h
      · split at h
        · cases h; simp [documented]
        · cases h
      · split at h
        · cases h; simp [documented]
        · split at h
          · rename_i e' he'
            cases h
            exact importAll_doc _ rc (fun s e hs => checkFile_doc cfg w fuel (rc ++ [k]) s true e hs) _ _ e he'
          · split at h
            · rename_i e' he'
              cases h
              exact checkLocal_doc cfg _ _ mo e he'
            · cases h

theorem checkFile_macrosOnly_doc (cfg : Cfg) (w : World) (fuel : Nat) (rc : List String) (k : String) (e : ErrKind)
    (h : checkFile cfg w fuel rc k true = .error e) : e ∈ documented := checkFile_doc cfg w fuel rc k true e h

/-- `a` is an ExplorerScript file of the world with an import statement resolving to `b` -/
def Imports (w : World) (a b : String) : Prop :=
  ∃ f, w.get? a = some f ∧ f.isSsbScript = false ∧ some b ∈ f.resolved w

def IsImportChain (w : World) : List String → Prop
  | [] => True
  | [_] => True
  | a :: b :: r => Imports w a b ∧ IsImportChain w (b :: r)

/-- the errors of the import phase of the file being compiled are documented -/
theorem import_phase_doc (cfg : Cfg) (w : World) (fuel : Nat) (rc : List String) (k : String) (imps : List (Option String))
    (e : ErrKind) (h : importAll (fun s => checkFile cfg w fuel (rc ++ [k]) s true) rc imps [] = .error e) : e ∈ documented :=
  importAll_doc _ rc (fun s e hs => checkFile_macrosOnly_doc cfg w fuel (rc ++ [k]) s e hs) imps [] e h

/-- compiling `a`, which imports `b`, fails whenever `b` is on the stack or compiling `b` fails -/
theorem checkFile_fail_of_import (cfg : Cfg) (w : World) (fuel : Nat) (rc : List String) (a b : String) (mo : Bool)
    (hi : Imports w a b)
    (hb : rc.contains b = true ∨ ∃ e, checkFile cfg w fuel (rc ++ [a]) b true = .error e) :
    ∃ e, checkFile cfg w (fuel + 1) rc a mo = .error e ∧ e ∈ documented := by
  obtain ⟨f, hf, hs, hm⟩ := hi
  obtain ⟨e, he⟩ := importAll_fail (fun s => checkFile cfg w fuel (rc ++ [a]) s true) rc b (f.resolved w) [] hm hb
  have hd := import_phase_doc cfg w fuel rc a (f.resolved w) e he
  simp only [checkFile, hf, hs, Bool.false_eq_true, if_false, he]
  split
  · exact ⟨_, rfl, by simp [documented]⟩
  · exact ⟨_, rfl, hd⟩

theorem checkFile_zero (cfg : Cfg) (w : World) (rc : List String) (k : String) (mo : Bool) :
    ∃ e, checkFile cfg w 0 rc k mo = .error e ∧ e ∈ documented :=
  ⟨.ssbCompilerError, by simp [checkFile], by simp [documented]⟩

theorem exists_error_of_doc {α} {x : Except ErrKind α} (h : ∃ e, x = .error e ∧ e ∈ documented) : ∃ e, x = .error e := by
  obtain ⟨e, he, _⟩ := h; exact ⟨e, he⟩

/-- an import chain `a → b → …` whose last file is one of the files before it or already on the stack -/
theorem checkFile_fail_of_chain (cfg : Cfg) (w : World) : ∀ (chain : List String) (fuel : Nat) (rc : List String)
    (a b : String) (mo : Bool), IsImportChain w (a :: b :: chain) →
    (a :: b :: chain).getLast (by simp) ∈ rc ++ (a :: b :: chain).dropLast →
    ∃ e, checkFile cfg w fuel rc a mo = .error e ∧ e ∈ documented
  | [], 0, rc, a, b, mo, _, _ => checkFile_zero ..
  | [], fuel + 1, rc, a, b, mo, hc, hl => by
    simp only [List.getLast_cons_cons, List.getLast_singleton, List.dropLast_cons_cons, List.dropLast_singleton,
      List.mem_append, List.mem_singleton] at hl
    rcases hl with hl | rfl
    · exact checkFile_fail_of_import cfg w fuel rc a b mo hc.1 (Or.inl (by simpa using hl))
    · -- the file imports itself: one level further down it is on the stack
      refine checkFile_fail_of_import cfg w fuel rc b b mo hc.1 (Or.inr ?_)
      cases fuel with
      | zero => exact exists_error_of_doc (checkFile_zero ..)
      | succ n => exact exists_error_of_doc (checkFile_fail_of_import cfg w n (rc ++ [b]) b b true hc.1 (Or.inl (by simp)))
  | c :: r, 0, rc, a, b, mo, _, _ => checkFile_zero ..
  | c :: r, fuel + 1, rc, a, b, mo, hc, hl => by
    refine checkFile_fail_of_import cfg w fuel rc a b mo hc.1 (Or.inr (exists_error_of_doc ?_))
    refine checkFile_fail_of_chain cfg w r fuel (rc ++ [a]) b c true hc.2 ?_
    simp only [List.getLast_cons (l := b :: c :: r) (by simp)] at hl
    simp only [List.dropLast_cons_cons, List.append_assoc, List.cons_append, List.nil_append] at hl ⊢
    exact hl

end ESV.Static
