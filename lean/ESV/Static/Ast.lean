/-
Static AST of ExplorerScript for C10: the control skeleton of a source file as the compiler's rejection sites see
it.  It keeps what the core AST of ESV/Src/Ast.lean has lost (two defaults, message switches and the kind of
their cases, `not` on a bit test together with the variable name, inline contexts, the argument COUNT of a macro
call, imports, macros-only compilation) and drops what no rejection site looks at (opcode names, parameters).
The harness produces it from the surface AST (harness/gen/invalid.py: `to_static`); `ofCore` in
ESV/Static/Wf.lean embeds the core AST.  Core Lean only.
-/
namespace ESV.Static

/-- header of an `if` / `elseif` / `while` / `for` as far as a rejection site cares -/
inductive Hdr where
  | plain                               -- any header that compiles (comparison, scn, debug/edit/variation, branch operation)
  | bit (neg : Bool) (var : String)     -- `[not] var[i]`; `var` = name of the variable/constant ("" for a number)
deriving Repr, DecidableEq, Inhabited

mutual
inductive Stmt where
  | op (inlineCtx : Bool)               -- operation or assignment; `inlineCtx`: `name<actor 1>(…)` (two ops)
  | label (n : String)
  | jump (n : String)
  | call (n : String)
  | ret | end_ | hold | brk | cont | brkLoop
  | with_ (inner : Stmt)                -- `with (actor 1) { simple_stmt }` — the grammar also admits a label
  | ite (branches : Branches) (els : Stmts)      -- first branch = `if`, others = `elseif`; no else = empty else
  | switch (cases : Cases)
  | msgSwitch (cases : Cases)           -- message_SwitchTalk / message_SwitchMonologue: same case grammar
  | forever (body : Stmts)
  | while_ (h : Hdr) (body : Stmts)
  | for_ (init : Stmt) (h : Hdr) (inc : Stmt) (body : Stmts)
  | macroCall (name : String) (nargs : Nat)
inductive Stmts where
  | nil
  | cons (s : Stmt) (r : Stmts)
inductive Branches where
  | nil
  | cons (neg : Bool) (hdrs : List Hdr) (body : Stmts) (r : Branches)   -- `if not (h₁ || h₂) { body }`
inductive Cases where
  | nil
  /-- `case hdr: body` / `default: body`; `isStr`: the case holds one string instead of statements
  (message-switch form); `intHdr`: the case header is a plain integer-like (the only kind a message switch takes) -/
  | cons (isDefault intHdr isStr : Bool) (body : Stmts) (r : Cases)
end

deriving instance DecidableEq for Stmt, Stmts, Branches, Cases

structure Macro where
  name : String
  vars : List String
  body : Stmts
deriving DecidableEq

/-- one routine. `id`: the written id of `def ID …`, `none` for `coro NAME` (which takes the previous id + 1);
`fixedTarget`: `def ID for actor 1.5` (a decimal literal as target); `body`: `none` = `alias previous`. -/
structure Routine where
  id : Option Int := none
  fixedTarget : Bool := false
  body : Option Stmts := none

/-- one import statement, as `_resolve_imported_file` sees it. Keys are normalised paths of the world (the harness
does the path arithmetic: joining with the importing file's directory and the lookup paths, `..`, absolute paths).
`direct`: the import starts with `.` or `/` and names exactly one path; `lookup`: any other import, one candidate per
lookup path, in the order of the lookup paths (none when there is no lookup path); `invalid`: a lookup-style import with
a `.` or `..` component ("must not contain relative paths"). -/
inductive Import where
  | direct (cand : String)
  | lookup (cands : List String)
  | invalid
deriving Repr, DecidableEq, Inhabited

/-- one source file. `imports`: the import statements in source order; `routines` in source order. `isSsbScript`: the `//?: is-ssb-script` attribute is
set, `compile` hands the text to the SsbScript compiler (the compiled file only; an imported file is rejected). -/
structure File where
  imports : List Import := []
  macros : List Macro := []
  routines : List Routine := []
  isSsbScript : Bool := false

/-- all files an import can reach, by key (absolute real path in the implementation) -/
abbrev World := List (String × File)

def World.get? (w : World) (k : String) : Option File := List.lookup k w

/-- a path is importable iff it is a file of the world (`os.path.isfile`; directories are not files) -/
def World.isFile (w : World) (k : String) : Bool := (w.get? k).isSome

/-- `_resolve_imported_file` for ONE import statement: a direct import is its path if that is a file; a lookup import is
the first candidate that is a file (`abs_path = None` … `break`), none if no lookup path has it -/
def Import.resolve (w : World) : Import → Option String
  | .direct c => if w.isFile c then some c else none
  | .lookup cs => cs.find? w.isFile
  | .invalid => none

/-- all import statements of a file, each resolved on its own -/
def File.resolved (w : World) (f : File) : List (Option String) := f.imports.map (Import.resolve w)

/-- exception classes. `other`: anything outside the documented three (ParseError cannot arise from an AST). -/
inductive ErrKind where
  | ssbCompilerError
  | valueError
  | other (cls : String)
deriving Repr, DecidableEq, Inhabited

def documented : List ErrKind := [.ssbCompilerError, .valueError]

structure Cfg where
  /-- name of the performance progress list variable (compiler constructor argument) -/
  perfVar : String := "$PERFORMANCE_PROGRESS_LIST"

def Stmts.ofList : List Stmt → Stmts
  | [] => .nil
  | s :: r => .cons s (Stmts.ofList r)

def Stmts.isNil : Stmts → Bool
  | .nil => true
  | .cons _ _ => false

end ESV.Static
