import ESV.Static.Ast
import ESV.Src.Ast
/-
C10 — model of the rejection sites of `ExplorerScriptSsbCompiler.compile` on the static AST: WHERE the real
compiler raises and WITH WHICH CLASS, in the order in which the real phases run.

  compile(file) = _compile(...) with RecursionError -> SsbCompilerError            ssb_compiler.py
    is-ssb-script attribute: macros_only → SsbCompilerError, else SsbScript compiler, return
    _resolve_imported_file: every import, each on its own, must resolve to a file (Import.resolve)   SsbCompilerError "was not found"
    per import, in order: path in recursion_check          SsbCompilerError "Infinite recursion"
                          compile(sub, macros_only=True)   whatever the sub-compilation raises
    MacroResolutionOrderVisitor._check_cycles              SsbCompilerError
    MacroVisitor: per macro  visit (add phase) ; collect   (a fresh CompilerCtx: loop / case stacks empty)
    macros_only: HasRoutinesVisitor().visit(tree)          SsbCompilerError "must not contain any routines"
    RoutineVisitor: per routine  _enlarge_routine_info (0 <= id <= routines so far, else SsbCompilerError) ;
                    visit (add phase) ; collect: a fixed-point target → SsbCompilerError, then the statements
    routine_op_offsets_are_ordered                         SsbCompilerError (NOT modelled, see below)
    strip_last_label / LabelFinalizer                      raise nothing
    OpsLabelJumpToRemover: label without offset            SsbCompilerError "Label … does not exist"

Add phase  = errors raised by `add()` while the handler tree is built (StatementVisitor._push_handler_and_add):
             label in a with-block, a second `default`, and `while`/`for` headers, which are collected on add.
Collect phase = errors raised by `collect()`, in the order in which the handlers collect their children
             (an `if` collects a positive block AFTER the else block, `for` collects its init statement with the
             loop already on the stack, a switch first looks at all case kinds, then collects the bodies, then
             finds the trailing empty case).  The only ValueError of the phase is `ExplorerScriptMacro.build`.
Not modelled: the back end (op numbering, LabelFinalizer); the order check on op offsets (routines written twice /
             out of id order: SsbCompilerError, the generators write ascending ids), `with`/`for` target words,
             position-mark fractions, `scn` indices, non-branch operations in headers (all SsbCompilerError).
Core Lean only.
-/
namespace ESV.Static

abbrev Res := Except ErrKind Unit

instance : DecidableEq Res
  | .ok (), .ok () => isTrue rfl
  | .error a, .error b => if h : a = b then isTrue (by rw [h]) else isFalse (by intro h'; cases h'; exact h rfl)
  | .ok _, .error _ => isFalse (by intro h; cases h)
  | .error _, .ok _ => isFalse (by intro h; cases h)

def Res.ok? : Res → Bool
  | .ok _ => true
  | .error _ => false

/-- sequencing of two phases: the first error wins -/
def seq (x y : Res) : Res :=
  match x with
  | .ok _ => y
  | .error e => .error e

infixl:60 " >>> " => seq

def ssb : Res := .error .ssbCompilerError
def vErr : Res := .error .valueError
def failIf (b : Bool) (e : ErrKind) : Res := if b then .error e else .ok ()

/-! ### occurrences: every statement of a body that is collected, with the lexical flags it is collected under
(`l` = inside a loop, `c` = inside a switch case).  Loops keep the case flag, cases keep the loop flag; the
statements of a `for` header are collected with the loop already on the stack.  Message-switch cases hold no
collected statements. -/
abbrev Occ := Bool × Bool × Stmt

mutual
def subsS (l c : Bool) : Stmt → List Occ
  | .with_ inner => (l, c, .with_ inner) :: subsS l c inner
  | .ite bs els => (l, c, .ite bs els) :: (subsB l c bs ++ subsSs l c els)
  | .switch cs => (l, c, .switch cs) :: subsC l cs
  | .forever body => (l, c, .forever body) :: subsSs true c body
  | .while_ h body => (l, c, .while_ h body) :: subsSs true c body
  | .for_ init h inc body => (l, c, .for_ init h inc body) :: (subsS true c init ++ (subsSs true c body ++ subsS true c inc))
  | .op i => [(l, c, .op i)]
  | .label n => [(l, c, .label n)]
  | .jump n => [(l, c, .jump n)]
  | .call n => [(l, c, .call n)]
  | .ret => [(l, c, .ret)]
  | .end_ => [(l, c, .end_)]
  | .hold => [(l, c, .hold)]
  | .brk => [(l, c, .brk)]
  | .cont => [(l, c, .cont)]
  | .brkLoop => [(l, c, .brkLoop)]
  | .msgSwitch cs => [(l, c, .msgSwitch cs)]
  | .macroCall n k => [(l, c, .macroCall n k)]
def subsSs (l c : Bool) : Stmts → List Occ
  | .nil => []
  | .cons s r => subsS l c s ++ subsSs l c r
def subsB (l c : Bool) : Branches → List Occ
  | .nil => []
  | .cons _ _ body r => subsSs l c body ++ subsB l c r
def subsC (l : Bool) : Cases → List Occ
  | .nil => []
  | .cons _ _ _ body r => subsSs l true body ++ subsC l r
end

/-- the statements of a routine or macro body: both start with empty loop and case stacks -/
def occs (body : Stmts) : List Occ := subsSs false false body

def callsOf (body : Stmts) : List String :=
  (occs body).filterMap fun o => match o.2.2 with
    | .macroCall n _ => some n
    | _ => none

/-- names of the labels a body jumps to or calls -/
def usesOf (body : Stmts) : List String :=
  (occs body).filterMap fun o => match o.2.2 with
    | .jump n => some n
    | .call n => some n
    | _ => none

/-- names of the labels a body places -/
def defsOf (body : Stmts) : List String :=
  (occs body).filterMap fun o => match o.2.2 with
    | .label n => some n
    | _ => none

/-! ### headers -/
/-- bit.py: `not` is only possible on the performance progress list -/
def Hdr.ok (perf : String) : Hdr → Bool
  | .plain => true
  | .bit neg var => !(neg && var != perf)

def hdrsOk (perf : String) (hs : List Hdr) : Bool := hs.all (Hdr.ok perf)

/-! ### add phase (every error is an SsbCompilerError, so only success matters) -/
def Stmt.isLabel : Stmt → Bool
  | .label _ => true
  | _ => false

def Stmt.isInlineOp : Stmt → Bool
  | .op true => true
  | _ => false

def Cases.defaults : Cases → Nat
  | .nil => 0
  | .cons isD _ _ _ r => (if isD then 1 else 0) + r.defaults

mutual
def addOkS (perf : String) : Stmt → Bool
  | .with_ inner => !inner.isLabel && addOkS perf inner                 -- ctx_block.py add: "can not contain labels"
  | .ite bs els => addOkB perf bs && addOkSs perf els
  | .switch cs => decide (cs.defaults ≤ 1) && addOkC perf cs            -- switch_block.py add: single default
  | .msgSwitch cs => decide (cs.defaults ≤ 1) && addOkC perf cs         -- message_switch.py add: single default
  | .forever body => addOkSs perf body
  | .while_ h body => h.ok perf && addOkSs perf body                    -- while_block.py add: obj.collect()
  | .for_ init h inc body => addOkS perf init && (h.ok perf && (addOkS perf inc && addOkSs perf body))
  | .op _ => true
  | .label _ => true
  | .jump _ => true
  | .call _ => true
  | .ret => true
  | .end_ => true
  | .hold => true
  | .brk => true
  | .cont => true
  | .brkLoop => true
  | .macroCall _ _ => true
def addOkSs (perf : String) : Stmts → Bool
  | .nil => true
  | .cons s r => addOkS perf s && addOkSs perf r
def addOkB (perf : String) : Branches → Bool
  | .nil => true
  | .cons _ _ body r => addOkSs perf body && addOkB perf r
def addOkC (perf : String) : Cases → Bool
  | .nil => true
  | .cons _ _ _ body r => addOkSs perf body && addOkC perf r
end

/-! ### collect phase -/
structure Env where
  perf : String
  macros : List Macro        -- imported macros, then the file's own: a later definition of a name wins

def findMacro (ms : List Macro) (n : String) : Option Macro := ms.reverse.find? (fun m => m.name == n)

/-- macro.py build: `for var_name in self.variables: if var_name not in parameters.keys()` with
`parameters = dict(zip(macro.variables, args))` -/
def tooFew (vars : List String) (nargs : Nat) : Bool := vars.any fun v => !(vars.take nargs).contains v

/-- switch_block.py 3c: after the last case there are cases waiting for a block -/
def Cases.endsEmpty : Cases → Bool
  | .nil => false
  | .cons _ _ _ body .nil => body.isNil
  | .cons _ _ _ _ (.cons d i s b r) => (Cases.cons d i s b r).endsEmpty

/-- switch_block.py 1: a (non-default) case of an ordinary switch holds a string -/
def Cases.strCase : Cases → Bool
  | .nil => false
  | .cons isD _ isStr _ r => (!isD && isStr) || r.strCase

/-- message_switch.py collect: every case holds a string, every non-default header is an integer-like -/
def Cases.msgOk : Cases → Bool
  | .nil => true
  | .cons isD intH isStr _ r => isStr && ((isD || intH) && r.msgOk)

mutual
def collectS (env : Env) (l c : Bool) : Stmt → Res
  | .brk => failIf (!c) .ssbCompilerError                               -- CompilerCtx.break_case
  | .cont => failIf (!l) .ssbCompilerError                              -- CompilerCtx.continue_loop
  | .brkLoop => failIf (!l) .ssbCompilerError                           -- CompilerCtx.break_loop
  | .with_ inner => collectS env l c inner >>> failIf inner.isInlineOp .ssbCompilerError   -- len(sub_ops) != 1
  | .ite bs els => pass1 env l c bs >>> (collectSs env l c els >>> pass2 env l c bs)
  | .switch cs =>
    failIf cs.strCase .ssbCompilerError >>> (collectC env l cs >>> failIf cs.endsEmpty .ssbCompilerError)
  | .msgSwitch cs => failIf (!cs.msgOk) .ssbCompilerError
  | .forever body => collectSs env true c body
  | .while_ _ body => collectSs env true c body
  | .for_ init _ inc body => collectS env true c init >>> (collectSs env true c body >>> collectS env true c inc)
  | .macroCall name k =>
    match findMacro env.macros name with
    | none => ssb                                                       -- macro_call.py "Macro … not found"
    | some m => failIf (tooFew m.vars k) .valueError                    -- macro.py build
  | .op _ => .ok ()
  | .label _ => .ok ()
  | .jump _ => .ok ()
  | .call _ => .ok ()
  | .ret => .ok ()
  | .end_ => .ok ()
  | .hold => .ok ()
def collectSs (env : Env) (l c : Bool) : Stmts → Res
  | .nil => .ok ()
  | .cons s r => collectS env l c s >>> collectSs env l c r
/-- if_block.py 1/2: the headers of every branch in order; a negated branch is written out at once -/
def pass1 (env : Env) (l c : Bool) : Branches → Res
  | .nil => .ok ()
  | .cons neg hdrs body r =>
    failIf (!hdrsOk env.perf hdrs) .ssbCompilerError >>>
      ((if neg then collectSs env l c body else .ok ()) >>> pass1 env l c r)
/-- if_block.py 4/5: the blocks of the positive branches, after the else block -/
def pass2 (env : Env) (l c : Bool) : Branches → Res
  | .nil => .ok ()
  | .cons neg _ body r => (if neg then .ok () else collectSs env l c body) >>> pass2 env l c r
/-- switch_block.py 3a: the bodies in source order (default at its written position), case stack pushed -/
def collectC (env : Env) (l : Bool) : Cases → Res
  | .nil => .ok ()
  | .cons _ _ _ body r => collectSs env l true body >>> collectC env l r
end

/-- one routine or macro body: visit (add phase), then collect with empty stacks -/
def bodyCheck (env : Env) (body : Stmts) : Res :=
  if addOkSs env.perf body then collectSs env false false body else ssb

def checkBodies (env : Env) : List Stmts → Res
  | [] => .ok ()
  | b :: r => bodyCheck env b >>> checkBodies env r

/-! ### macro dependency cycles (MacroResolutionOrderVisitor._check_cycles)
The graph has one vertex per name; an edge for every call written in a macro body of THIS file.  Model: peel off,
`length` times, every name none of whose definitions calls a remaining name; a cycle never loses a member. -/
def callees (ms : List Macro) (x : String) : List String :=
  (ms.filter fun m => m.name == x).flatMap fun m => callsOf m.body

def peel (ms : List Macro) (R : List String) : List String :=
  R.filter fun x => (callees ms x).any fun y => R.contains y

def peelN (ms : List Macro) : Nat → List String → List String
  | 0, R => R
  | n + 1, R => peelN ms n (peel ms R)

def macroCycle (ms : List Macro) : Bool := !(peelN ms ms.length (ms.map fun m => m.name)).isEmpty

/-! ### labels: OpsLabelJumpToRemover -/
/-- the body jumps to a label it does not place itself (labels are private to one macro expansion) -/
def unserved (body : Stmts) : Bool := (usesOf body).any fun n => !(defsOf body).contains n

/-- the blueprint of the macro carries a jump without label: its own, or one of a macro it calls -/
def badMacro (ms : List Macro) : Nat → String → Bool
  | 0, _ => false
  | f + 1, n => match findMacro ms n with
    | none => false
    | some m => unserved m.body || (callsOf m.body).any (badMacro ms f)

def File.routineBodies (f : File) : List Stmts := f.routines.filterMap fun r => r.body

def labelsBad (ms : List Macro) (f : File) : Bool :=
  let placed := f.routineBodies.flatMap defsOf
  f.routineBodies.any fun b =>
    (usesOf b).any (fun n => !placed.contains n) || (callsOf b).any (badMacro ms (ms.length + 1))

/-! ### one file, given the macros its imports delivered -/
def File.hasRoutines (f : File) : Bool := !f.routines.isEmpty

def optBody (r : Routine) (g : Stmts → Res) : Res :=
  match r.body with
  | some b => g b
  | none => .ok ()

/-- the id the routine is stored under: the written one, or the previous id + 1 for a coroutine -/
def Routine.newId (r : Routine) (active : Int) : Int :=
  match r.id with
  | some i => i
  | none => active + 1

/-- RoutineVisitor: `active` = id of the previous routine (−1 at the start), `n` = len(routine_infos) -/
def routinesGo (env : Env) : Int → Nat → List Routine → Res
  | _, _, [] => .ok ()
  | active, n, r :: rest =>
    let id := r.newId active
    failIf (decide (id < 0) || decide (id > (n : Int))) .ssbCompilerError >>>            -- _enlarge_routine_info
      (optBody r (fun b => failIf (!addOkSs env.perf b) .ssbCompilerError) >>>           -- visitChildren: add phase
        (failIf r.fixedTarget .ssbCompilerError >>>                                      -- for_target_def.py collect
          (optBody r (fun b => collectSs env false false b) >>>                          -- collect_ops
            routinesGo env id (if id ≥ (n : Int) then id.toNat + 1 else n) rest)))

def checkRoutines (cfg : Cfg) (ms : List Macro) (f : File) : Res :=
  routinesGo ⟨cfg.perfVar, ms⟩ (-1) 0 f.routines >>> failIf (labelsBad ms f) .ssbCompilerError

def checkLocal (cfg : Cfg) (imported : List Macro) (f : File) (macrosOnly : Bool) : Res :=
  let ms := imported ++ f.macros
  failIf (macroCycle f.macros) .ssbCompilerError >>>
    (checkBodies ⟨cfg.perfVar, ms⟩ (f.macros.map fun m => m.body) >>>
      (if macrosOnly then failIf f.hasRoutines .ssbCompilerError
       else checkRoutines cfg ms f))

/-! ### imports -/
def importAll (sub : String → Except ErrKind (List Macro)) (rc : List String) :
    List (Option String) → List Macro → Except ErrKind (List Macro)
  | [], acc => .ok acc
  | none :: _, _ => .error .ssbCompilerError
  | some s :: r, acc =>
    if rc.contains s then .error .ssbCompilerError                      -- "Infinite recursion detected"
    else match sub s with
      | .error e => .error e
      | .ok ms => importAll sub rc r (acc ++ ms)

/-- `compile(file k, recursion_check = rc, macros_only)`; returns `self.macros`.  Fuel = nesting depth left:
the stack holds pairwise different files of the world, so a depth above the number of files means a file repeats
on the stack, which the implementation reports as "Infinite recursion" one level earlier. -/
def checkFile (cfg : Cfg) (w : World) : Nat → List String → String → Bool → Except ErrKind (List Macro)
  | 0, _, _, _ => .error .ssbCompilerError
  | fuel + 1, rc, k, macrosOnly =>
    match w.get? k with
    | none => .error .ssbCompilerError
    | some f =>
      if f.isSsbScript then (if macrosOnly then .error .ssbCompilerError else .ok [])
      else if (f.resolved w).any Option.isNone then .error .ssbCompilerError  -- "The file to import … was not found"
      else
        match importAll (fun s => checkFile cfg w fuel (rc ++ [k]) s true) rc (f.resolved w) [] with
        | .error e => .error e
        | .ok imported =>
          match checkLocal cfg imported f macrosOnly with
          | .error e => .error e
          | .ok _ => .ok (imported ++ f.macros)

def checkWorld (cfg : Cfg) (w : World) (root : String) : Res :=
  match checkFile cfg w (w.length + 1) [] root false with
  | .error e => .error e
  | .ok _ => .ok ()

/-! ### the core AST of ESV/Src/Ast.lean, embedded -/
open ESV.Src in
mutual
def ofStmt : Src.Stmt → Stmt
  | .op _ _ => .op false
  | .ctx _ _ inner => .with_ (ofStmt inner)
  | .label n => .label n
  | .jump n => .jump n
  | .call n => .call n
  | .ret => .ret
  | .end_ => .end_
  | .hold => .hold
  | .brk => .brk
  | .cont => .cont
  | .brkLoop => .brkLoop
  | .ite bs hasElse els => .ite (ofBranches bs) (if hasElse then ofStmts els else .nil)
  | .switch _ cs => .switch (ofCases cs)
  | .forever body => .forever (ofStmts body)
  | .while_ _ _ body => .while_ .plain (ofStmts body)
  | .for_ init _ inc body => .for_ (ofStmt init) .plain (ofStmt inc) (ofStmts body)
  | .macroCall name args => .macroCall name args.length
def ofStmts : Src.Stmts → Stmts
  | .nil => .nil
  | .cons s r => .cons (ofStmt s) (ofStmts r)
def ofBranches : Src.Branches → Branches
  | .nil => .nil
  | .cons neg tests body r => .cons neg (tests.map fun _ => Hdr.plain) (ofStmts body) (ofBranches r)
def ofCases : Src.Cases → Cases
  | .nil => .nil
  | .cons isDefault _ body r => .cons isDefault true false (ofStmts body) (ofCases r)
end

def ofCore (p : Src.Program) : File :=
  { macros := p.macros.map fun m => ⟨m.name, m.vars, ofStmts m.body⟩,
    routines := (List.range p.routines.length).zip p.routines |>.map fun (i, r) =>
      { id := some (i : Int), body := r.body.map ofStmts } }

/-- static check of a core program (one file, no imports) -/
def check (p : Src.Program) : Res := checkLocal {} [] (ofCore p) false

end ESV.Static
