import ESV.Lit.Num
/-
Lemmas about the literal model, part 4: `SsbOpParamFixedPoint.from_str` and `parse_position_marker_arg`.
-/
namespace ESV.Lit
open ESV

/-! ### split / strip primitives -/

theorem splitFirst_at (sep : Char) (a b : Str) (h : sep ∉ a) : splitFirst sep (a ++ sep :: b) = (a, some b) := by
  induction a with
  | nil => simp [splitFirst]
  | cons c cs ih =>
    have hc : c ≠ sep := fun hh => h (hh ▸ List.mem_cons_self)
    have := ih (fun hh => h (List.mem_cons_of_mem _ hh))
    simp [splitFirst, hc, this]

theorem splitAux_id (sep : Char) (b : Str) (h : sep ∉ b) : splitAux sep b = (b, []) := by
  induction b with
  | nil => rfl
  | cons c cs ih =>
    have hc : c ≠ sep := fun hh => h (hh ▸ List.mem_cons_self)
    have := ih (fun hh => h (List.mem_cons_of_mem _ hh))
    simp [splitAux, hc, this]

theorem splitOn_at (sep : Char) (a b : Str) (ha : sep ∉ a) (hb : sep ∉ b) : splitOn sep (a ++ sep :: b) = [a, b] := by
  have : splitAux sep (a ++ sep :: b) = (a, [b]) := by
    induction a with
    | nil => simp [splitAux, splitAux_id sep b hb]
    | cons c cs ih =>
      have hc : c ≠ sep := fun hh => ha (hh ▸ List.mem_cons_self)
      have := ih (fun hh => ha (List.mem_cons_of_mem _ hh))
      simp [splitAux, hc, this]
  simp [splitOn, this]

theorem lstripC_keep (c x : Char) (l : Str) (h : x ≠ c) : lstripC c (x :: l) = x :: l := by
  simp [lstripC, h]

theorem lstripC_replicate (c : Char) (k : Nat) (l : Str) : lstripC c (List.replicate k c ++ l) = lstripC c l := by
  induction k with
  | zero => simp
  | succ k ih =>
    simp only [List.replicate_succ, List.cons_append, lstripC, List.dropWhile_cons, decide_true, ↓reduceIte] at ih ⊢
    exact ih

theorem takeWhile_eq_replicate (c : Char) (l : Str) : ∃ k, l.takeWhile (· = c) = List.replicate k c := by
  induction l with
  | nil => exact ⟨0, rfl⟩
  | cons a r ih =>
    by_cases h : a = c
    · obtain ⟨k, hk⟩ := ih
      exact ⟨k + 1, by simp [h, hk, List.replicate_succ]⟩
    · exact ⟨0, by simp [h]⟩

/-- `rstrip(c)` removes a block of `c` at the end, nothing else -/
theorem rstripC_spec (c : Char) (l : Str) : ∃ z, l = rstripC c l ++ List.replicate z c := by
  obtain ⟨k, hk⟩ := takeWhile_eq_replicate c l.reverse
  refine ⟨k, ?_⟩
  have h := List.takeWhile_append_dropWhile (p := (· = c)) (l := l.reverse)
  have h2 : l = (l.reverse.dropWhile (· = c)).reverse ++ (l.reverse.takeWhile (· = c)).reverse := by
    rw [← List.reverse_append, h, List.reverse_reverse]
  rw [hk, List.reverse_replicate] at h2
  exact h2

theorem rstripC_snoc_block (c x : Char) (k : Nat) (h : x ≠ c) : rstripC c (x :: List.replicate k c) = [x] := by
  have : (x :: List.replicate k c).reverse = List.replicate k c ++ [x] := by
    simp [List.reverse_cons, List.reverse_replicate]
  have h2 := lstripC_replicate c k [x]
  simp only [lstripC] at h2
  simp [rstripC, this, h2, h]

/-! ### `int(s)` on spellings with leading zeros -/

theorem foldl_readStep_zeros (k : Nat) (l : Str) :
    (List.replicate k '0' ++ l).foldl readStep (some 0) = l.foldl readStep (some 0) := by
  induction k with
  | zero => simp
  | succ k ih =>
    have h0 : readStep (some 0) '0' = some 0 := by decide
    simp only [List.replicate_succ, List.cons_append, List.foldl_cons, h0]
    exact ih

theorem readNat_zeros_showNat (k n : Nat) : readNat (List.replicate k '0' ++ showNat n) = some n := by
  unfold readNat
  have hne : (List.replicate k '0' ++ showNat n).isEmpty = false := by
    cases h : showNat n with
    | nil => exact absurd h (showNat_ne_nil n)
    | cons a as => cases k <;> simp [List.replicate_succ]
  rw [hne]
  simp only [Bool.false_eq_true, ↓reduceIte]
  rw [foldl_readStep_zeros, foldl_readStep_showNat]

theorem pyInt10_showInt (i : Int) : pyInt10 (showInt i) = some i := readInt_showInt i

theorem pyInt10_neg_zeros (k n : Nat) : pyInt10 ('-' :: (List.replicate k '0' ++ showNat n)) = some (-(n : Int)) := by
  simp [pyInt10, readInt, readNat_zeros_showNat]

/-! ### fixed point -/

theorem fixedMk_ok (w : Option Int) (f : Str) (hf : f.all isDigit = true) :
    fixedMk w f = .ok ((match w with | none => ['-', '0'] | some i => showInt i) ++ '.' :: f) := by
  cases w <;> simp [fixedMk, hf]

theorem not_all_zero_of_showNat (k n : Nat) (hn : 0 < n) (z : Nat) : List.replicate k '0' ++ showNat n ≠ List.replicate z '0' := by
  intro h
  cases hs : showNat n with
  | nil => exact absurd hs (showNat_ne_nil n)
  | cons c cs =>
    have hc : c ≠ '0' := showNat_head_nonzero n hn c cs hs
    have hm : c ∈ List.replicate k '0' ++ showNat n := by simp [hs]
    rw [h] at hm
    exact hc (List.eq_of_mem_replicate hm)

/-- the whole part of a decimal spelling: optional sign, leading zeros, then the digits of `n` (none for 0) -/
def wholeSpelling (neg : Bool) (k n : Nat) : Str :=
  (if neg then ['-'] else []) ++ (List.replicate k '0' ++ (if n = 0 then [] else showNat n))

/-- the whole part `from_str` arrives at: no leading zeros, `0` for nothing, `-0` for a negative zero -/
def wholeNormal (neg : Bool) (n : Nat) : Str :=
  if n = 0 then (if neg then ['-', '0'] else ['0']) else showInt (if neg then -(n : Int) else (n : Int))

theorem wholeSpelling_not_dot (neg : Bool) (k n : Nat) : '.' ∉ wholeSpelling neg k n := by
  intro h
  simp only [wholeSpelling, List.mem_append] at h
  rcases h with h | h | h
  · cases neg <;> simp at h
  · exact absurd (List.eq_of_mem_replicate h) (by decide)
  · split at h
    · simp at h
    · exact showNat_not_mem n '.' (by decide) h

theorem fixedFromStr_spelling (neg : Bool) (k n : Nat) (frac : Str) (hf : frac.all isDigit = true) :
    fixedFromStr (wholeSpelling neg k n ++ '.' :: frac) = .ok (wholeNormal neg n ++ '.' :: frac) := by
  unfold fixedFromStr
  rw [splitFirst_at '.' _ frac (wholeSpelling_not_dot neg k n)]
  simp only
  cases neg with
  | false =>
    simp only [wholeSpelling, Bool.false_eq_true, ↓reduceIte, List.nil_append, wholeNormal]
    rw [lstripC_replicate]
    by_cases hn : n = 0
    · subst hn
      simp [lstripC, fixedMk_ok _ _ hf, pyInt10, readInt, readNat, readStep, isDigit, showInt, showNat_zero]
    · have hpos : 0 < n := Nat.pos_of_ne_zero hn
      simp only [hn, ↓reduceIte]
      cases hs : showNat n with
      | nil => exact absurd hs (showNat_ne_nil n)
      | cons c cs =>
        have hc0 : c ≠ '0' := showNat_head_nonzero n hpos c cs hs
        have hcm : c ≠ '-' := showNat_head_ne_minus n c cs hs
        rw [lstripC_keep '0' c cs hc0]
        have hr : rstripC '0' (c :: cs) ≠ ['-'] := by
          intro hh
          obtain ⟨z, hz⟩ := rstripC_spec '0' (c :: cs)
          rw [hh] at hz
          simp at hz
          exact hcm hz.1
        have hw : (c :: cs) ≠ ['-', '0'] := by
          intro hh; simp at hh; exact hcm hh.1
        simp only [reduceCtorEq, ↓reduceIte, hr, hw]
        have hp : pyInt10 (showNat n) = some (n : Int) := pyInt10_showInt (Int.ofNat n)
        rw [← hs, hp]
        simp only
        rw [fixedMk_ok _ _ hf]
  | true =>
    simp only [wholeSpelling, ↓reduceIte, List.cons_append, List.nil_append, wholeNormal]
    rw [lstripC_keep '0' '-' _ (by decide)]
    by_cases hn : n = 0
    · subst hn
      simp only [↓reduceIte, List.append_nil]
      rw [rstripC_snoc_block '0' '-' k (by decide)]
      simp [fixedMk_ok _ _ hf]
    · have hpos : 0 < n := Nat.pos_of_ne_zero hn
      simp only [hn, ↓reduceIte]
      have hr : rstripC '0' ('-' :: (List.replicate k '0' ++ showNat n)) ≠ ['-'] := by
        intro hh
        obtain ⟨z, hz⟩ := rstripC_spec '0' ('-' :: (List.replicate k '0' ++ showNat n))
        rw [hh] at hz
        simp at hz
        exact not_all_zero_of_showNat k n hpos z hz
      have hw : ('-' :: (List.replicate k '0' ++ showNat n)) ≠ ['-', '0'] := by
        intro hh
        simp at hh
        exact not_all_zero_of_showNat k n hpos 1 (by simpa using hh)
      simp only [reduceCtorEq, ↓reduceIte, hr, hw]
      rw [pyInt10_neg_zeros]
      simp only
      rw [fixedMk_ok _ _ hf]

/-! ### position-mark arguments -/

theorem isUIntegerTok_with_dot (n : Nat) (f : Str) : isUIntegerTok (showNat n ++ '.' :: f) = false := by
  cases hs : showNat n with
  | nil => exact absurd hs (showNat_ne_nil n)
  | cons c cs =>
    by_cases hc : c = '0'
    · have hn : n = 0 := by
        cases Nat.eq_zero_or_pos n with
        | inl h0 => exact h0
        | inr hp => exact absurd hc (showNat_head_nonzero n hp c cs hs)
      subst hn
      rw [showNat_zero] at hs
      simp at hs
      obtain ⟨rfl, rfl⟩ := hs
      simp [isUIntegerTok]
    · have hd : isDigit '.' = false := by decide
      simp [isUIntegerTok, hc, hd]

theorem isIntegerTok_with_dot (i : Int) (f : Str) : isIntegerTok (showInt i ++ '.' :: f) = false := by
  cases i with
  | ofNat n =>
    simp only [showInt]
    cases hs : showNat n with
    | nil => exact absurd hs (showNat_ne_nil n)
    | cons c cs =>
      have hc := showNat_head_ne_minus n c cs hs
      unfold isIntegerTok
      split
      · rename_i heq; simp at heq; exact absurd heq.1 hc
      · rw [← hs]; exact isUIntegerTok_with_dot n f
  | negSucc n =>
    simp only [showInt, List.cons_append, isIntegerTok]
    exact isUIntegerTok_with_dot _ f

theorem stripMinus_showNat (n : Nat) (l : Str) : stripMinus (showNat n ++ l) = showNat n ++ l := by
  cases hs : showNat n with
  | nil => exact absurd hs (showNat_ne_nil n)
  | cons c cs =>
    have hc := showNat_head_ne_minus n c cs hs
    unfold stripMinus
    split
    · rename_i heq; simp at heq; exact absurd heq.1 hc
    · rfl

theorem isDecimalTok_showInt_frac (i : Int) (f : Str) (hf : f.all isDigit = true) (hne : f ≠ []) :
    isDecimalTok (showInt i ++ '.' :: f) = true := by
  have key : ∀ n, (splitFirst '.' (showNat n ++ '.' :: f)) = (showNat n, some f) :=
    fun n => splitFirst_at '.' (showNat n) f (showNat_not_mem n '.' (by decide))
  have hd : ∀ n, (showNat n).all isDigit = true := fun n => List.all_eq_true.mpr (showNat_all_digits n)
  have he : f.isEmpty = false := by cases f with
    | nil => exact absurd rfl hne
    | cons _ _ => rfl
  cases i with
  | ofNat n =>
    simp only [showInt, isDecimalTok]
    rw [stripMinus_showNat, key n]
    simp [hd n, hf, he]
  | negSucc n =>
    simp only [showInt, List.cons_append, isDecimalTok, stripMinus]
    rw [key (n + 1)]
    simp [hd (n + 1), hf, he]

theorem isDecimalTok_half (i : Int) : isDecimalTok (showInt i ++ ['.', '5']) = true :=
  isDecimalTok_showInt_frac i ['5'] (by decide) (by simp)

/-- `parse_position_marker_arg` on what `x_final` / `y_final` print -/
theorem parsePosArg_posFinal (rel off : Int) :
    parsePosArg (posFinal rel off) = .ok (rel, if off > 1 then 2 else 0) := by
  unfold posFinal
  by_cases h : off > 1
  · simp only [h, ↓reduceIte]
    unfold parsePosArg
    rw [isIntegerTok_with_dot, isDecimalTok_half]
    simp only [Bool.false_eq_true, ↓reduceIte]
    rw [splitOn_at '.' (showInt rel) ['5'] (showInt_not_dot rel) (by decide)]
    have hne : showInt rel ≠ [] := by
      cases rel with
      | ofNat n => exact showNat_ne_nil n
      | negSucc n => simp [showInt]
    have h5 : pyInt10 (if ¬rstripC '0' ['5'] = [] then rstripC '0' ['5'] else ['0']) = some 5 := by decide
    simp only [ne_eq, hne, not_false_eq_true, ↓reduceIte, pyInt10_showInt, h5]
    rfl
  · simp only [h, ↓reduceIte, List.append_nil]
    unfold parsePosArg
    rw [isIntegerTok_showInt, expsInt_showInt]
    rfl

end ESV.Lit
