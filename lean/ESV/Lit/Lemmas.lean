import ESV.Lit.Model
/-
Lemmas about the literal model, part 1: `str.replace`, escaping, the STRING_LITERAL rule, single-line strings.
-/
namespace ESV.Lit

/-! ### quotes are ordinary characters -/

theorem quote_facts (q : Char) (hq : q = SQ ∨ q = DQ) :
    q ≠ BS ∧ q ≠ NL ∧ q ≠ CR ∧ q ≠ FF ∧ q ≠ 'n' ∧ q ≠ SP := by
  rcases hq with rfl | rfl <;> decide

theorem otherQuote_ne (q : Char) (hq : q = SQ ∨ q = DQ) : otherQuote q ≠ q ∧ (otherQuote q = SQ ∨ otherQuote q = DQ) := by
  rcases hq with rfl | rfl <;> decide

theorem quoteOf_quote (b : Bool) : quoteOf b = SQ ∨ quoteOf b = DQ := by
  cases b <;> simp [quoteOf]

/-! ### `replaceGo` with a two-character pattern `\x ↦ y` and a one-character pattern -/

theorem un_step (x y a : Char) (l : Str) (h : a ≠ BS ∨ l.head? ≠ some x) :
    replaceGo [BS, x] [y] 0 (a :: l) = a :: replaceGo [BS, x] [y] 0 l := by
  have hp : List.isPrefixOf [BS, x] (a :: l) = false := by
    cases l with
    | nil => simp [List.isPrefixOf]
    | cons b r =>
      simp only [List.isPrefixOf, Bool.and_true, Bool.and_eq_false_imp, beq_iff_eq]
      intro hab
      rcases h with h | h
      · exact absurd hab.symm h
      · simp at h
        simpa using fun hxb => h hxb.symm
  simp [replaceGo, hp]

theorem un_match (x y : Char) (l : Str) :
    replaceGo [BS, x] [y] 0 (BS :: x :: l) = y :: replaceGo [BS, x] [y] 0 l := by
  simp [replaceGo, List.isPrefixOf]

theorem replace1_eq_flatMap (a : Char) (rep : Str) (s : Str) :
    replaceGo [a] rep 0 s = s.flatMap (fun c => if c = a then rep else [c]) := by
  induction s with
  | nil => simp [replaceGo]
  | cons c cs ih =>
    by_cases h : c = a
    · subst h
      simp [replaceGo, List.isPrefixOf, ih]
    · have : (a == c) = false := by simpa using fun h' => h h'.symm
      simp [replaceGo, List.isPrefixOf, ih, h, this]

/-! ### the printer's escaping as a character-wise encoding -/

/-- what the printers do to one character: `qo` = quote being escaped (if any), `nl` = newlines escaped too -/
def encChar (qo : Option Char) (nl : Bool) (c : Char) : Str :=
  if qo = some c then [BS, c] else if nl && c = NL then [BS, 'n'] else [c]

def enc (qo : Option Char) (nl : Bool) (s : Str) : Str := s.flatMap (encChar qo nl)

@[simp] theorem enc_nil (qo nl) : enc qo nl [] = [] := rfl
theorem enc_cons (qo nl) (c : Char) (s : Str) : enc qo nl (c :: s) = encChar qo nl c ++ enc qo nl s := by
  simp [enc]

theorem escapeQuotes_eq_enc (q : Char) (s : Str) : escapeQuotes s (some q) = enc (some q) false s := by
  simp only [escapeQuotes, replaceAll, List.isEmpty_cons, Bool.false_eq_true, ↓reduceIte, replace1_eq_flatMap, enc]
  congr 1
  funext c
  by_cases h : c = q
  · subst h; simp [encChar]
  · have : ¬ (q = c) := fun h' => h h'.symm
    simp [encChar, h, this]

theorem escapeNewlines_enc (q : Char) (hq : q ≠ NL) (s : Str) :
    escapeNewlines (enc (some q) false s) = enc (some q) true s := by
  simp only [escapeNewlines, replaceAll, List.isEmpty_cons, Bool.false_eq_true, ↓reduceIte, replace1_eq_flatMap, enc,
    List.flatMap_assoc]
  congr 1
  funext c
  by_cases h1 : q = c
  · subst h1
    have : BS ≠ NL := by decide
    simp [encChar, hq, this]
  · by_cases h2 : c = NL
    · subst h2; simp [encChar, h1]
    · simp [encChar, h1, h2]

theorem enc_none_false (s : Str) : enc none false s = s := by
  induction s with
  | nil => rfl
  | cons c cs ih => simp [enc_cons, encChar, ih]

/-- the encoding never starts with a character `x ≠ \` unless the value does, unescaped -/
theorem enc_head_ne (qo : Option Char) (nl : Bool) (s : Str) (x : Char) (hx : x ≠ BS) (h : s.head? ≠ some x) :
    (enc qo nl s).head? ≠ some x := by
  cases s with
  | nil => simp
  | cons c cs =>
    simp only [List.head?_cons, ne_eq, Option.some.injEq] at h
    simp only [enc_cons, encChar]
    split
    · simpa using fun h' => hx h'.symm
    · split
      · simpa using fun h' => hx h'.symm
      · simpa using h

theorem enc_head_ne_quote (q : Char) (hq : q ≠ BS) (nl : Bool) (s : Str) : (enc (some q) nl s).head? ≠ some q := by
  cases s with
  | nil => simp
  | cons c cs =>
    by_cases h : q = c
    · subst h
      simpa [enc_cons, encChar] using fun h' => hq h'.symm
    · apply enc_head_ne _ _ _ _ hq
      simpa using fun h' => h h'.symm

theorem noPair_tail (a b c : Char) (s : Str) (h : noPair a b (c :: s) = true) : noPair a b s = true := by
  cases s with
  | nil => simp [noPair]
  | cons d r => simp [noPair] at h; exact h.2

theorem noPair_head (a b : Char) (s : Str) (h : noPair a b (a :: s) = true) : s.head? ≠ some b := by
  cases s with
  | nil => simp
  | cons d r => simp [noPair] at h; simpa using h.1

/-- un-escaping a sequence that is not the escaped quote leaves the encoding alone, when the value has no such pair -/
theorem un_enc_other (qo : Option Char) (nl : Bool) (x y : Char) (s : Str)
    (hq : qo ≠ some BS) (hxq : qo ≠ some x) (hxn : x ≠ 'n') (hxb : x ≠ BS) (hg : noPair BS x s = true) :
    replaceGo [BS, x] [y] 0 (enc qo nl s) = enc qo nl s := by
  induction s with
  | nil => simp [replaceGo]
  | cons c cs ih =>
    have ih' := ih (noPair_tail _ _ _ _ hg)
    simp only [enc_cons, encChar]
    split
    · rename_i hc
      have hcb : c ≠ BS := fun h => hq (h ▸ hc)
      have hcx : c ≠ x := fun h => hxq (h ▸ hc)
      rw [List.cons_append, List.cons_append, List.nil_append,
        un_step _ _ _ _ (Or.inr (by simpa using hcx)), un_step _ _ _ _ (Or.inl hcb), ih']
    · split
      · have h1 : ('n' : Char) ≠ x := fun h => hxn h.symm
        have h2 : ('n' : Char) ≠ BS := by decide
        rw [List.cons_append, List.cons_append, List.nil_append,
          un_step _ _ _ _ (Or.inr (by simpa using h1)), un_step _ _ _ _ (Or.inl h2), ih']
      · rw [List.cons_append, List.nil_append]
        by_cases hc : c = BS
        · subst hc
          rw [un_step _ _ _ _ (Or.inr (enc_head_ne _ _ _ _ hxb (noPair_head _ _ _ hg))), ih']
        · rw [un_step _ _ _ _ (Or.inl hc), ih']

/-- un-escaping the escaped quote gives the encoding without quote escapes: no condition on the value -/
theorem un_enc_own (q : Char) (nl : Bool) (s : Str) (hq : q ≠ BS) (hqn : q ≠ 'n') (hqNL : q ≠ NL) :
    replaceGo [BS, q] [q] 0 (enc (some q) nl s) = enc none nl s := by
  induction s with
  | nil => simp [replaceGo]
  | cons c cs ih =>
    simp only [enc_cons, encChar]
    split
    · rename_i hc
      have hc' : q = c := by simpa using hc
      subst hc'
      rw [List.cons_append, List.cons_append, List.nil_append, un_match, ih]
      simp [hqNL]
    · rename_i hc
      have hc' : ¬ q = c := by simpa using hc
      split
      · have h1 : ('n' : Char) ≠ q := fun h => hqn h.symm
        have h2 : ('n' : Char) ≠ BS := by decide
        rw [List.cons_append, List.cons_append, List.nil_append,
          un_step _ _ _ _ (Or.inr (by simpa using h1)), un_step _ _ _ _ (Or.inl h2), ih]
        simp
      · rw [List.cons_append, List.nil_append]
        have : replaceGo [BS, q] [q] 0 (c :: enc (some q) nl cs) = c :: replaceGo [BS, q] [q] 0 (enc (some q) nl cs) := by
          by_cases hcb : c = BS
          · subst hcb
            exact un_step _ _ _ _ (Or.inr (enc_head_ne_quote q hq nl cs))
          · exact un_step _ _ _ _ (Or.inl hcb)
        rw [this, ih]
        simp

/-- un-escaping `\n` gives the value back, when the value has no backslash directly before an `n` -/
theorem un_n_enc (nl : Bool) (s : Str) (hg : noPair BS 'n' s = true) :
    replaceGo [BS, 'n'] [NL] 0 (enc none nl s) = s := by
  induction s with
  | nil => simp [replaceGo]
  | cons c cs ih =>
    have ih' := ih (noPair_tail _ _ _ _ hg)
    simp only [enc_cons, encChar]
    split
    · rename_i h; simp at h
    · split
      · rename_i h
        have hc : c = NL := by
          simp at h; exact h.2
        subst hc
        rw [List.cons_append, List.cons_append, List.nil_append, un_match, ih']
      · rw [List.cons_append, List.nil_append]
        by_cases hcb : c = BS
        · subst hcb
          have h3 : ('n' : Char) ≠ BS := by decide
          rw [un_step _ _ _ _ (Or.inr (enc_head_ne _ _ _ _ h3 (noPair_head _ _ _ hg))), ih']
        · rw [un_step _ _ _ _ (Or.inl hcb), ih']

/-! ### the STRING_LITERAL rule on the printed text -/

theorem lexSafe_nl_tail (nl : Bool) (c : Char) (cs : Str) (h : nl = true ∨ NL ∉ c :: cs) : nl = true ∨ NL ∉ cs := by
  rcases h with h | h
  · exact Or.inl h
  · exact Or.inr (fun hm => h (List.mem_cons_of_mem _ hm))

theorem tokSingleBody_plain (q c : Char) (cs : Str) (n : Nat) (h1 : c ≠ q) (h2 : c ≠ BS) (h3 : c ≠ CR) (h4 : c ≠ NL)
    (h5 : c ≠ FF) : tokSingleBody q (c :: cs) n = tokSingleBody q cs (n + 1) := by
  cases cs <;> simp [tokSingleBody, h1, h2, h3, h4, h5]

theorem tokSingleBody_esc (q d : Char) (cs : Str) (n : Nat) (hq : q ≠ BS) :
    tokSingleBody q (BS :: d :: cs) n = tokSingleBody q cs (n + 2) := by
  have : BS ≠ q := fun h => hq h.symm
  simp [tokSingleBody, this]

/-- the token rule consumes the whole printed body and stops at the closing quote -/
theorem tok_body_enc (q : Char) (hq : q = SQ ∨ q = DQ) (nl : Bool) (s rest : Str) (n : Nat)
    (hs : lexSafe q s = true) (hnl : nl = true ∨ NL ∉ s) :
    tokSingleBody q (enc (some q) nl s ++ q :: rest) n = some (n + (enc (some q) nl s).length + 1) := by
  obtain ⟨hqb, hqnl, hqcr, hqff, hqn, _⟩ := quote_facts q hq
  induction s using lexSafe.induct generalizing n with
  | case1 => cases rest <;> simp [tokSingleBody]
  | case2 => simp [lexSafe] at hs
  | case3 d cs' ih =>
    simp only [lexSafe, ↓reduceIte, Bool.and_eq_true, decide_eq_true_eq] at hs
    obtain ⟨hdq, hs'⟩ := hs
    have hnl' := lexSafe_nl_tail nl _ _ (lexSafe_nl_tail nl _ _ hnl)
    have hb : encChar (some q) nl BS = [BS] := by
      have : ¬ q = BS := hqb
      have h2 : BS ≠ NL := by decide
      simp [encChar, this, h2]
    rw [enc_cons, enc_cons, hb]
    have hdq' : ¬ q = d := fun h => hdq h.symm
    by_cases hd : nl = true ∧ d = NL
    · have he : encChar (some q) nl d = [BS, 'n'] := by
        obtain ⟨hnlt, rfl⟩ := hd
        simp [encChar, hqnl, hnlt]
      rw [he]
      simp only [List.cons_append, List.nil_append, List.length_cons]
      rw [tokSingleBody_esc _ _ _ _ hqb,
        tokSingleBody_plain q 'n' _ _ (fun h => hqn h.symm) (by decide) (by decide) (by decide) (by decide),
        ih _ hs' hnl']
      congr 1; omega
    · have he : encChar (some q) nl d = [d] := by
        simp only [encChar, Option.some.injEq, hdq', ↓reduceIte, Bool.and_eq_true, decide_eq_true_eq]
        rw [if_neg hd]
      rw [he]
      simp only [List.cons_append, List.nil_append, List.length_cons]
      rw [tokSingleBody_esc _ _ _ _ hqb, ih _ hs' hnl']
      congr 1; omega
  | case4 c cs hcb hsep =>
    unfold lexSafe at hs
    simp [hcb] at hs
    simp at hsep
    rcases hsep with h | h <;> simp [h] at hs
  | case5 c cs hcb hsep ih =>
    have hs' : lexSafe q cs = true := by
      unfold lexSafe at hs
      simp only [hcb, ↓reduceIte] at hs
      simp at hsep
      simpa [hsep.1, hsep.2] using hs
    have hnl' := lexSafe_nl_tail nl _ _ hnl
    have hccr : c ≠ CR := by simpa using (fun h => hsep (by simp [h]))
    have hcff : c ≠ FF := by simpa using (fun h => hsep (by simp [h]))
    rw [enc_cons]
    by_cases hcq : q = c
    · subst hcq
      have he : encChar (some q) nl q = [BS, q] := by simp [encChar]
      rw [he]
      simp only [List.cons_append, List.nil_append, List.length_cons]
      rw [tokSingleBody_esc _ _ _ _ hqb, ih _ hs' hnl']
      congr 1; omega
    · by_cases hcn : c = NL
      · subst hcn
        have hnlt : nl = true := by
          rcases hnl with h | h
          · exact h
          · exact absurd (List.mem_cons_self) h
        have he : encChar (some q) nl NL = [BS, 'n'] := by simp [encChar, hcq, hnlt]
        rw [he]
        simp only [List.cons_append, List.nil_append, List.length_cons]
        rw [tokSingleBody_esc _ _ _ _ hqb, ih _ hs' hnl']
        congr 1; omega
      · have he : encChar (some q) nl c = [c] := by simp [encChar, hcq, hcn]
        rw [he]
        simp only [List.cons_append, List.nil_append, List.length_cons]
        rw [tokSingleBody_plain q c _ _ (fun h => hcq h.symm) hcb hccr hcn hcff, ih _ hs' hnl']
        congr 1; omega


/-! ### single-line form: read ∘ print -/

theorem slice1_quoted (q : Char) (t : Str) : slice1 ([q] ++ t ++ [q]) = t := by
  simp [slice1]

/-- `singleline_string_literal` undoes the printer's encoding (with or without escaped newlines) -/
theorem readSingle_enc (q : Char) (hq : q = SQ ∨ q = DQ) (nl : Bool) (s : Str)
    (h1 : noPair BS (otherQuote q) s = true) (h2 : noPair BS 'n' s = true) :
    readSingle ([q] ++ enc (some q) nl s ++ [q]) = s := by
  unfold readSingle
  rw [slice1_quoted]
  simp only [replaceAll, List.isEmpty_cons, Bool.false_eq_true, ↓reduceIte]
  rcases hq with rfl | rfl
  · have ho : otherQuote SQ = DQ := by decide
    rw [ho] at h1
    rw [un_enc_other (some SQ) nl DQ DQ s (by decide) (by decide) (by decide) (by decide) h1,
      un_enc_own SQ nl s (by decide) (by decide) (by decide), un_n_enc nl s h2]
  · have ho : otherQuote DQ = SQ := by decide
    rw [ho] at h1
    rw [un_enc_own DQ nl s (by decide) (by decide) (by decide),
      un_enc_other none nl SQ SQ s (by simp) (by simp) (by decide) (by decide) h1, un_n_enc nl s h2]

theorem tokSingle_enc (q : Char) (hq : q = SQ ∨ q = DQ) (nl : Bool) (s rest : Str)
    (hs : lexSafe q s = true) (hnl : nl = true ∨ NL ∉ s) :
    tokSingle ([q] ++ enc (some q) nl s ++ [q] ++ rest) = some ([q] ++ enc (some q) nl s ++ [q]).length := by
  have hq' : (decide (q = SQ) || decide (q = DQ)) = true := by
    rcases hq with rfl | rfl <;> decide
  simp only [List.cons_append, List.nil_append, List.append_assoc, tokSingle, hq', ↓reduceIte]
  rw [tok_body_enc q hq nl s rest 1 hs hnl]
  simp only [List.length_cons, List.length_append, List.length_nil]
  congr 1; omega

theorem tokMulti_enc_none (q : Char) (hq : q = SQ ∨ q = DQ) (nl : Bool) (s rest : Str) (hr : rest.head? ≠ some q) :
    tokMulti ([q] ++ enc (some q) nl s ++ [q] ++ rest) = none := by
  obtain ⟨hqb, _⟩ := quote_facts q hq
  have hh := enc_head_ne_quote q hqb nl s
  cases he : enc (some q) nl s with
  | nil =>
    cases rest with
    | nil => simp [tokMulti]
    | cons r rs =>
      have : ¬ r = q := by simpa using hr
      simp [tokMulti, this]
  | cons x e' =>
    rw [he] at hh
    have : ¬ x = q := by simpa using hh
    cases e' <;> simp [tokMulti, this]

theorem lexString_of_single (t : Str) (n : Nat) (h1 : tokSingle t = some n) (h2 : tokMulti t = none) :
    lexString t = some (.single, n) := by
  simp [lexString, h1, h2]

theorem lexString_of_multi (t : Str) (a b : Nat) (h1 : tokSingle t = some a) (h2 : tokMulti t = some b) (h : a < b) :
    lexString t = some (.multi, b) := by
  simp [lexString, h1, h2, h]

/-! ### how `repr_string` chooses, in terms of the encoding -/

theorem reprString_single (s : Str) (indent : Nat) (single : Bool) (h : NL ∉ s) :
    reprString s indent single = [quoteOf single] ++ enc (some (quoteOf single)) false s ++ [quoteOf single] := by
  simp [reprString, h, escapeQuotes_eq_enc]

theorem reprString_fallback (s : Str) (indent : Nat) (single : Bool) (h : NL ∈ s)
    (h1 : hasSub (tripleOf (quoteOf single)) s = true) (h2 : hasSub (tripleOf (otherQuote (quoteOf single))) s = true) :
    reprString s indent single = [quoteOf single] ++ enc (some (quoteOf single)) true s ++ [quoteOf single] := by
  have hq := (quote_facts _ (quoteOf_quote single)).2.1
  simp [reprString, h, h1, h2, escapeQuotes_eq_enc, escapeNewlines_enc _ hq]

theorem reprString_multi (s : Str) (indent : Nat) (single : Bool) (h : NL ∈ s)
    (h12 : ¬ (hasSub (tripleOf (quoteOf single)) s = true ∧ hasSub (tripleOf (otherQuote (quoteOf single))) s = true)) :
    ∃ d, (d = SQ ∨ d = DQ) ∧ hasSub (tripleOf d) s = false ∧ reprString s indent single = reprMultiline s indent (tripleOf d) := by
  by_cases h1 : hasSub (tripleOf (quoteOf single)) s = true
  · have h2 : hasSub (tripleOf (otherQuote (quoteOf single))) s = false := by
      cases hh : hasSub (tripleOf (otherQuote (quoteOf single))) s with
      | false => rfl
      | true => exact absurd ⟨h1, hh⟩ h12
    exact ⟨otherQuote (quoteOf single), (otherQuote_ne _ (quoteOf_quote single)).2, h2, by simp [reprString, h, h1, h2]⟩
  · have h1' : hasSub (tripleOf (quoteOf single)) s = false := by simpa using h1
    exact ⟨quoteOf single, quoteOf_quote single, h1', by simp [reprString, h, h1']⟩

end ESV.Lit
