import ESV.Lit.Lemmas
/-
Lemmas about the literal model, part 3: integers in all bases, fixed-point numbers, position-mark arguments.
-/
namespace ESV.Lit
open ESV

/-! ### decimal digits of `showNat` -/

theorem showNat_zero : showNat 0 = ['0'] := by
  rw [showNat]; rfl

theorem showNat_all_digits (n : Nat) : ∀ c ∈ showNat n, isDigit c = true := by
  induction n using Nat.strongRecOn with
  | ind n ih =>
    intro c hc
    unfold showNat at hc
    split at hc
    · rename_i h
      simp at hc; subst hc
      exact isDigit_digitChar n h
    · rename_i h
      rcases List.mem_append.mp hc with hc | hc
      · exact ih (n / 10) (by omega) c hc
      · simp at hc; subst hc
        exact isDigit_digitChar _ (Nat.mod_lt _ (by decide))

theorem showNat_head_nonzero (n : Nat) (hn : 0 < n) : ∀ c rest, showNat n = c :: rest → c ≠ '0' := by
  induction n using Nat.strongRecOn with
  | ind n ih =>
    intro c rest h
    unfold showNat at h
    split at h
    · rename_i hlt
      simp at h
      obtain ⟨rfl, _⟩ := h
      intro hc
      have := digitChar_toNat n hlt
      rw [hc] at this
      simp at this
      omega
    · rename_i hlt
      cases h2 : showNat (n / 10) with
      | nil => exact absurd h2 (showNat_ne_nil _)
      | cons a as =>
        rw [h2] at h; simp at h
        exact h.1 ▸ ih (n / 10) (by omega) (by omega) a as h2

theorem isDigit_ne (c x : Char) (h : isDigit c = true) (hx : isDigit x = false) : c ≠ x := by
  intro hh; subst hh; simp [h] at hx

theorem showNat_not_mem (n : Nat) (x : Char) (hx : isDigit x = false) : x ∉ showNat n := by
  intro h
  have := showNat_all_digits n x h
  simp [this] at hx

theorem showInt_not_dot (i : Int) : '.' ∉ showInt i := by
  cases i with
  | ofNat n => exact showNat_not_mem n '.' (by decide)
  | negSucc n =>
    simp only [showInt]
    intro h
    rcases List.mem_cons.mp h with h | h
    · exact absurd h (by decide)
    · exact showNat_not_mem _ '.' (by decide) h

/-! ### `exps_int` on canonical decimal spellings -/

theorem expsNat_showNat (n : Nat) : expsNat (showNat n) = some n := by
  cases h : showNat n with
  | nil => exact absurd h (showNat_ne_nil n)
  | cons c cs =>
    by_cases hc : c = '0'
    · have hn : n = 0 := by
        cases Nat.eq_zero_or_pos n with
        | inl h0 => exact h0
        | inr hp => exact absurd hc (showNat_head_nonzero n hp c cs h)
      subst hn
      rw [showNat_zero] at h
      simp at h
      obtain ⟨rfl, rfl⟩ := h
      simp [expsNat]
    · unfold expsNat
      simp only [hc, ↓reduceIte]
      rw [← h, readNat_showNat]

theorem isUIntegerTok_showNat (n : Nat) : isUIntegerTok (showNat n) = true := by
  cases h : showNat n with
  | nil => exact absurd h (showNat_ne_nil n)
  | cons c cs =>
    by_cases hc : c = '0'
    · have hn : n = 0 := by
        cases Nat.eq_zero_or_pos n with
        | inl h0 => exact h0
        | inr hp => exact absurd hc (showNat_head_nonzero n hp c cs h)
      subst hn
      rw [showNat_zero] at h
      simp at h
      obtain ⟨rfl, rfl⟩ := h
      simp [isUIntegerTok]
    · have hd := showNat_all_digits n
      rw [h] at hd
      unfold isUIntegerTok
      simp only [hc, ↓reduceIte, Bool.and_eq_true, List.all_eq_true]
      exact ⟨hd c List.mem_cons_self, fun x hx => hd x (List.mem_cons_of_mem _ hx)⟩

theorem expsInt_showInt (i : Int) : expsInt (showInt i) = some i := by
  cases i with
  | ofNat n =>
    simp only [showInt]
    cases h : showNat n with
    | nil => exact absurd h (showNat_ne_nil n)
    | cons c rest =>
      have hc := showNat_head_ne_minus n c rest h
      unfold expsInt
      split
      · rename_i heq; simp at heq; exact absurd heq.1 hc
      · rw [← h, expsNat_showNat]; rfl
  | negSucc n =>
    simp only [showInt, expsInt, expsNat_showNat]
    simp [Int.negSucc_eq]

theorem isIntegerTok_showInt (i : Int) : isIntegerTok (showInt i) = true := by
  cases i with
  | ofNat n =>
    simp only [showInt]
    cases h : showNat n with
    | nil => exact absurd h (showNat_ne_nil n)
    | cons c rest =>
      have hc := showNat_head_ne_minus n c rest h
      unfold isIntegerTok
      split
      · rename_i heq; simp at heq; exact absurd heq.1 hc
      · rw [← h]; exact isUIntegerTok_showNat n
  | negSucc n =>
    simp only [showInt, isIntegerTok]
    exact isUIntegerTok_showNat _

/-- zero with any number of digits, with or without sign (`0`, `000`, `-0`, `-00`) -/
theorem expsInt_zeros (k : Nat) (neg : Bool) :
    expsInt ((if neg then ['-'] else []) ++ List.replicate (k + 1) '0') = some 0 ∧
    isIntegerTok ((if neg then ['-'] else []) ++ List.replicate (k + 1) '0') = true := by
  have hz : expsNat (List.replicate (k + 1) '0') = some 0 := by
    cases k with
    | zero => simp [expsNat]
    | succ k =>
      have : List.replicate (k + 1 + 1) '0' = '0' :: '0' :: List.replicate k '0' := by simp [List.replicate_succ]
      rw [this]
      simp [expsNat]
  have ht : isUIntegerTok (List.replicate (k + 1) '0') = true := by
    cases k with
    | zero => simp [isUIntegerTok]
    | succ k =>
      have : List.replicate (k + 1 + 1) '0' = '0' :: '0' :: List.replicate k '0' := by simp [List.replicate_succ]
      rw [this]
      simp [isUIntegerTok]
  cases neg with
  | true => simp [expsInt, isIntegerTok, hz, ht]
  | false =>
    have : List.replicate (k + 1) '0' = '0' :: List.replicate k '0' := by simp [List.replicate_succ]
    simp only [Bool.false_eq_true, ↓reduceIte, List.nil_append]
    rw [this] at hz ht ⊢
    simp [expsInt, isIntegerTok, hz, ht]

/-! ### other bases -/

/-- digit `d < 16` in the chosen letter case -/
def digitCh (upper : Bool) (d : Nat) : Char :=
  if d < 10 then Char.ofNat (48 + d) else Char.ofNat ((if upper then 55 else 87) + d)

/-- the digits of `n` in base `b` (most significant first, no prefix) -/
def showBase (b : Nat) (upper : Bool) (n : Nat) : Str :=
  if h : n < b ∨ b < 2 then [digitCh upper n] else showBase b upper (n / b) ++ [digitCh upper (n % b)]
termination_by n
decreasing_by
  have h1 : ¬ n < b := fun hh => h (Or.inl hh)
  have h2 : ¬ b < 2 := fun hh => h (Or.inr hh)
  exact Nat.div_lt_self (by omega) (by omega)

theorem digitVal_digitCh : ∀ d, d < 16 → ∀ up, digitVal (digitCh up d) = some d := by
  decide

theorem showBase_ne_nil (b : Nat) (up : Bool) (n : Nat) : showBase b up n ≠ [] := by
  unfold showBase; split <;> simp

theorem foldl_readBase_showBase (b : Nat) (hb : 2 ≤ b) (hb' : b ≤ 16) (up : Bool) (n : Nat) :
    (showBase b up n).foldl (readBaseStep b) (some 0) = some n := by
  induction n using Nat.strongRecOn with
  | ind n ih =>
    unfold showBase
    split
    · rename_i h
      have hn : n < b := by omega
      simp [readBaseStep, digitVal_digitCh n (by omega) up, hn]
    · rename_i h
      have hn : ¬ n < b := fun hh => h (Or.inl hh)
      have hm : n % b < b := Nat.mod_lt _ (by omega)
      rw [List.foldl_append, ih (n / b) (Nat.div_lt_self (by omega) (by omega))]
      simp only [List.foldl_cons, List.foldl_nil, readBaseStep, digitVal_digitCh (n % b) (by omega) up, hm, ↓reduceIte,
        Option.some.injEq]
      exact Nat.div_add_mod' n b

theorem readBase_showBase (b : Nat) (hb : 2 ≤ b) (hb' : b ≤ 16) (up : Bool) (n : Nat) :
    readBase b (showBase b up n) = some n := by
  unfold readBase
  cases h : showBase b up n with
  | nil => exact absurd h (showBase_ne_nil b up n)
  | cons a as =>
    have := foldl_readBase_showBase b hb hb' up n
    rw [h] at this
    simpa using this

theorem showBase_digits (b : Nat) (hb : 2 ≤ b) (up : Bool) (n : Nat) : ∀ c ∈ showBase b up n, ∃ d, d < b ∧ c = digitCh up d := by
  induction n using Nat.strongRecOn with
  | ind n ih =>
    intro c hc
    unfold showBase at hc
    split at hc
    · rename_i h
      simp at hc
      exact ⟨n, by omega, hc⟩
    · rename_i h
      have hn : ¬ n < b := fun hh => h (Or.inl hh)
      rcases List.mem_append.mp hc with hc | hc
      · exact ih (n / b) (Nat.div_lt_self (by omega) (by omega)) c hc
      · simp at hc
        exact ⟨n % b, Nat.mod_lt _ (by omega), hc⟩

theorem hex_ok : ∀ d, d < 16 → ∀ up, isHexDigit (digitCh up d) = true := by decide
theorem oct_ok : ∀ d, d < 8 → ∀ up, isOctDigit (digitCh up d) = true := by decide
theorem bin_ok : ∀ d, d < 2 → ∀ up, isBinDigit (digitCh up d) = true := by decide

/-- the base prefixes of the INTEGER token -/
def basePrefix (x : Char) (b : Nat) : Prop :=
  ((x = 'x' ∨ x = 'X') ∧ b = 16) ∨ ((x = 'o' ∨ x = 'O') ∧ b = 8) ∨ ((x = 'b' ∨ x = 'B') ∧ b = 2)

theorem expsNat_base (x : Char) (b : Nat) (hx : basePrefix x b) (up : Bool) (n : Nat) :
    expsNat ('0' :: x :: showBase b up n) = some n ∧ isUIntegerTok ('0' :: x :: showBase b up n) = true := by
  have hne : (showBase b up n).isEmpty = false := by
    cases h : showBase b up n with
    | nil => exact absurd h (showBase_ne_nil b up n)
    | cons _ _ => rfl
  rcases hx with ⟨hx, rfl⟩ | ⟨hx, rfl⟩ | ⟨hx, rfl⟩
  · have hall : (showBase 16 up n).all isHexDigit = true := by
      rw [List.all_eq_true]; intro c hc
      obtain ⟨d, hd, rfl⟩ := showBase_digits 16 (by decide) up n c hc
      exact hex_ok d hd up
    rcases hx with rfl | rfl <;>
      simp [expsNat, isUIntegerTok, readBase_showBase 16 (by decide) (by decide), hne, hall]
  · have hall : (showBase 8 up n).all isOctDigit = true := by
      rw [List.all_eq_true]; intro c hc
      obtain ⟨d, hd, rfl⟩ := showBase_digits 8 (by decide) up n c hc
      exact oct_ok d hd up
    rcases hx with rfl | rfl <;>
      simp [expsNat, isUIntegerTok, readBase_showBase 8 (by decide) (by decide), hne, hall]
  · have hall : (showBase 2 up n).all isBinDigit = true := by
      rw [List.all_eq_true]; intro c hc
      obtain ⟨d, hd, rfl⟩ := showBase_digits 2 (by decide) up n c hc
      exact bin_ok d hd up
    rcases hx with rfl | rfl <;>
      simp [expsNat, isUIntegerTok, readBase_showBase 2 (by decide) (by decide), hne, hall]

end ESV.Lit
