import ESV.Gen.Tables
import ESV.Base.Dec
/-
Model of the literal printers and readers of ExplorerScript (property C04), on `List Char`.

  printers   explorerscript/ssb_converting/ssb_data_types.py
             escape_quotes, escape_newlines, repr_string, _repr_multiline_string,
             SsbOpParamConstString.__str__, SsbOpParamLanguageString.__str__,
             SsbOpParamFixedPoint.__init__/from_str/__str__, SsbOpParamPositionMarker.__str__/x_final/y_final,
             DungeonModeConstants.get_explorerscript_constant_for
  readers    explorerscript/ssb_converting/compiler/utils.py  singleline_string_literal, multiline_string_literal,
             string_literal;  explorerscript/util.py exps_int;  explorerscript/common_syntax.py parse_position_marker_arg
  tokens     explorerscript/antlr/SsbCommon.g4  STRING_LITERAL, MULTILINE_STRING_LITERAL, INTEGER, DECIMAL

Python facts that are part of the model (each is compared with the real interpreter on every run, channel `unit`):
`str.replace` (non-overlapping, left to right), `str.split(sep)`, `str.split(sep, 1)`, `str.splitlines()` with its
full separator set, `str.lstrip/rstrip(chars)`, slicing `[1:-1]`, `[3:-3]`, `[n:]`, `int(s, 0)` and `int(s)` on the
token languages.
-/
namespace ESV.Lit

abbrev Str := List Char

def NL : Char := '\n'
def CR : Char := '\r'
def FF : Char := Char.ofNat 0x0c
def BS : Char := '\\'
def SQ : Char := '\''
def DQ : Char := '"'
def SP : Char := ' '

/-! ### Python string primitives -/

/-- `str.replace(pat, rep)` for a non-empty `pat`: scan left to right, `k` = characters of a match still to skip -/
def replaceGo (pat rep : Str) : Nat → Str → Str
  | _, [] => []
  | k + 1, _ :: cs => replaceGo pat rep k cs
  | 0, c :: cs =>
    if pat.isPrefixOf (c :: cs) then rep ++ replaceGo pat rep (pat.length - 1) cs
    else c :: replaceGo pat rep 0 cs

/-- `s.replace(pat, rep)` (for the empty pattern Python inserts `rep` around every character) -/
def replaceAll (pat rep s : Str) : Str :=
  if pat.isEmpty then rep ++ s.flatMap (fun c => c :: rep) else replaceGo pat rep 0 s

/-- `pat in s` -/
def hasSub (pat : Str) : Str → Bool
  | [] => pat.isEmpty
  | c :: cs => pat.isPrefixOf (c :: cs) || hasSub pat cs

/-- first piece and remaining pieces of `s.split(sep)` for a one-character separator -/
def splitAux (sep : Char) : Str → Str × List Str
  | [] => ([], [])
  | c :: cs =>
    let r := splitAux sep cs
    if c = sep then ([], r.1 :: r.2) else (c :: r.1, r.2)

/-- `s.split(sep)`; never empty -/
def splitOn (sep : Char) (s : Str) : List Str := (splitAux sep s).1 :: (splitAux sep s).2

/-- `s.split(sep, 1)`: text before the first separator, and the text after it if there is one -/
def splitFirst (sep : Char) : Str → Str × Option Str
  | [] => ([], none)
  | c :: cs => if c = sep then ([], some cs) else let r := splitFirst sep cs; (c :: r.1, r.2)

/-- `sep.join(parts)` -/
def joinWith (sep : Str) : List Str → Str
  | [] => []
  | h :: t => h ++ t.flatMap (fun l => sep ++ l)

def spaces (n : Nat) : Str := List.replicate n SP

def lstripC (c : Char) (s : Str) : Str := s.dropWhile (· = c)
def rstripC (c : Char) (s : Str) : Str := (s.reverse.dropWhile (· = c)).reverse

/-- the line boundaries of `str.splitlines()` -/
def isLineSep (c : Char) : Bool :=
  c.toNat = 0x0a || c.toNat = 0x0d || c.toNat = 0x0b || c.toNat = 0x0c || c.toNat = 0x1c || c.toNat = 0x1d ||
  c.toNat = 0x1e || c.toNat = 0x85 || c.toNat = 0x2028 || c.toNat = 0x2029

/-- scan for `splitlines`; `afterCR` = the previous character was `\r` (a directly following `\n` belongs to the
same boundary).  A boundary closes the line in progress; nothing is opened after the last boundary. -/
def splitlinesAux : Bool → Str → List Str
  | _, [] => []
  | afterCR, c :: cs =>
    if afterCR && c = NL then splitlinesAux false cs
    else if isLineSep c then [] :: splitlinesAux (c = CR) cs
    else
      match splitlinesAux false cs with
      | [] => [[c]]
      | l :: ls => (c :: l) :: ls

/-- `s.splitlines()`: `\r\n` is one boundary; no empty last element after a final boundary -/
def splitlines (s : Str) : List Str := splitlinesAux false s

/-- `s[1:-1]` -/
def slice1 (s : Str) : Str := (s.drop 1).dropLast
/-- `s[3:-3]` -/
def slice3 (s : Str) : Str := (s.take (s.length - 3)).drop 3

/-! ### printers -/

/-- `escape_quotes(string, which_quotes)` -/
def escapeQuotes (s : Str) (which : Option Char) : Str :=
  match which with
  | none => replaceAll [SQ] [BS, SQ] (replaceAll [DQ] [BS, DQ] s)
  | some q => replaceAll [q] [BS, q] s

/-- `escape_newlines(string)` -/
def escapeNewlines (s : Str) : Str := replaceAll [NL] [BS, 'n'] s

def spi : Nat := ESV.Gen.spacesPerIndent

/-- `_repr_multiline_string(string, indent, delimiter)` -/
def reprMultiline (s : Str) (indent : Nat) (delim : Str) : Str :=
  let lines := splitOn NL s
  let pre := spaces (spi * indent)
  let output := joinWith [NL] (lines.map fun o => pre ++ spaces spi ++ o)
  delim ++ [NL] ++ output ++ [NL] ++ pre ++ delim

def quoteOf (single : Bool) : Char := if single then SQ else DQ
def tripleOf (q : Char) : Str := [q, q, q]
def otherQuote (q : Char) : Char := if q = SQ then DQ else SQ

/-- `repr_string(string, indent, prefer_single_qoute)` -/
def reprString (s : Str) (indent : Nat) (single : Bool) : Str :=
  let q := quoteOf single
  let pm := tripleOf q
  let sm := tripleOf (otherQuote q)
  if !(s.contains NL) then [q] ++ escapeQuotes s (some q) ++ [q]
  else if hasSub pm s then
    if hasSub sm s then [q] ++ escapeNewlines (escapeQuotes s (some q)) ++ [q]
    else reprMultiline s indent sm
  else reprMultiline s indent pm

/-- `str(SsbOpParamConstString)` with `.indent = indent` -/
def constStr (s : Str) (indent : Nat) : Str := reprString s indent true

/-- `str(SsbOpParamLanguageString)` with `.indent = indent`; `items` = the dict in insertion order -/
def langStr (items : List (Str × Str)) (indent : Nat) : Str :=
  ['{', NL] ++
  items.flatMap (fun kv => spaces ((indent + 1) * spi) ++ kv.1 ++ ['='] ++ reprString kv.2 (indent + 1) false ++ [',', NL]) ++
  spaces (indent * spi) ++ ['}']

/-! ### token rules STRING_LITERAL / MULTILINE_STRING_LITERAL (length consumed at the start of the input) -/

/-- body of STRING_LITERAL after the opening quote `q`; `n` = characters consumed so far -/
def tokSingleBody (q : Char) : Str → Nat → Option Nat
  | [], _ => none
  | c :: cs, n =>
    if c = q then some (n + 1)
    else if c = BS then
      match cs with
      | [] => none
      | _ :: cs' => tokSingleBody q cs' (n + 2)
    else if c = CR || c = NL || c = FF then none
    else tokSingleBody q cs (n + 1)

def tokSingle : Str → Option Nat
  | c :: cs => if c = SQ || c = DQ then tokSingleBody c cs 1 else none
  | [] => none

/-- `.*? qqq`: the first occurrence of the closing delimiter; `n` = characters consumed so far -/
def findTriple (q : Char) : Str → Nat → Option Nat
  | [], _ => none
  | a :: tl, n =>
    match tl with
    | b :: c :: _ => if a = q && b = q && c = q then some (n + 3) else findTriple q tl (n + 1)
    | _ => none

def tokMulti : Str → Option Nat
  | a :: b :: c :: rest => if (a = SQ || a = DQ) && b = a && c = a then findTriple a rest 3 else none
  | _ => none

inductive StrKind where
  | single
  | multi
deriving DecidableEq, Repr

/-- the lexer takes the longest match; STRING_LITERAL is listed first -/
def lexString (t : Str) : Option (StrKind × Nat) :=
  match tokSingle t, tokMulti t with
  | some a, some b => if b > a then some (.multi, b) else some (.single, a)
  | some a, none => some (.single, a)
  | none, some b => some (.multi, b)
  | none, none => none

/-! ### readers -/

/-- `singleline_string_literal(token_text)` -/
def readSingle (tok : Str) : Str :=
  replaceAll [BS, 'n'] [NL] (replaceAll [BS, SQ] [SQ] (replaceAll [BS, DQ] [DQ] (slice1 tok)))

def leadSpaces (l : Str) : Nat := (l.takeWhile (· = SP)).length

/-- `min(counts, default=0)` -/
def minD : List Nat → Nat
  | [] => 0
  | [x] => x
  | x :: y :: r => min x (minD (y :: r))

/-- the case distinction on `len(all_lines)`: `first_line`, `lines`, `last_line` -/
def firstMidLast : List Str → Str × List Str × Str
  | [] => ([], [], [])
  | [a] => (a, [], [])
  | [a, b] => (a, [], b)
  | a :: b :: c :: r => (a, (b :: c :: r).dropLast, (c :: r).getLastD c)

/-- second half of `multiline_string_literal`: least indentation of `lines`, dedent, join behind `first_line` -/
def dedentJoin (first : Str) (lines : List Str) : Str :=
  let counts := lines.map leadSpaces
  let minc := minD counts
  let transformed := lines.map (·.drop minc)
  let nl : Str := if first ≠ [] ∧ transformed.length > 0 then [NL] else []
  first ++ nl ++ joinWith [NL] transformed

/-- first half: first / middle / last line; a last line with content counts as a normal line -/
def readMultiLines (all : List Str) : Str :=
  let flm := firstMidLast all
  let last := flm.2.2
  let lines := if lstripC SP last ≠ [] then flm.2.1 ++ [last] else flm.2.1
  dedentJoin flm.1 lines

/-- `multiline_string_literal(token_text)` -/
def readMulti (tok : Str) : Str := readMultiLines (splitlines (slice3 tok))

/-- `string_literal(ctx)` on the text starting at the string token: the lexer decides the kind -/
def readString (t : Str) : Option Str :=
  match lexString t with
  | some (.single, n) => some (readSingle (t.take n))
  | some (.multi, n) => some (readMulti (t.take n))
  | none => none

/-! ### integers: `exps_int(s)` = `int(s, 0)` on the INTEGER token language -/

def digitVal (c : Char) : Option Nat :=
  if 48 ≤ c.toNat ∧ c.toNat ≤ 57 then some (c.toNat - 48)
  else if 97 ≤ c.toNat ∧ c.toNat ≤ 102 then some (c.toNat - 87)
  else if 65 ≤ c.toNat ∧ c.toNat ≤ 70 then some (c.toNat - 55)
  else none

def readBaseStep (b : Nat) (acc : Option Nat) (c : Char) : Option Nat :=
  match acc, digitVal c with
  | some a, some d => if d < b then some (a * b + d) else none
  | _, _ => none

/-- all characters digits of base `b`, at least one -/
def readBase (b : Nat) (ds : Str) : Option Nat :=
  if ds.isEmpty then none else ds.foldl (readBaseStep b) (some 0)

def isHexDigit (c : Char) : Bool := (digitVal c).isSome
def isOctDigit (c : Char) : Bool := 48 ≤ c.toNat && c.toNat ≤ 55
def isBinDigit (c : Char) : Bool := c = '0' || c = '1'

/-- unsigned part of INTEGER: `[1-9][0-9]*`, `0+`, `0[oO][0-7]+`, `0[xX][0-9a-fA-F]+`, `0[bB][01]+` -/
def isUIntegerTok : Str → Bool
  | [] => false
  | c :: cs =>
    if c = '0' then
      match cs with
      | [] => true
      | x :: ds =>
        if x = 'x' || x = 'X' then !ds.isEmpty && ds.all isHexDigit
        else if x = 'o' || x = 'O' then !ds.isEmpty && ds.all isOctDigit
        else if x = 'b' || x = 'B' then !ds.isEmpty && ds.all isBinDigit
        else (x :: ds).all (· = '0')
    else isDigit c && cs.all isDigit

/-- the text is one INTEGER token -/
def isIntegerTok : Str → Bool
  | '-' :: r => isUIntegerTok r
  | s => isUIntegerTok s

/-- `int(s, 0)` for an unsigned spelling (prefix decides the base; decimal must not have a leading zero unless all zero) -/
def expsNat : Str → Option Nat
  | [] => none
  | c :: cs =>
    if c = '0' then
      match cs with
      | [] => some 0
      | x :: ds =>
        if x = 'x' || x = 'X' then readBase 16 ds
        else if x = 'o' || x = 'O' then readBase 8 ds
        else if x = 'b' || x = 'B' then readBase 2 ds
        else if (x :: ds).all (· = '0') then some 0 else none
    else readNat (c :: cs)

/-- `exps_int(s)`; `none` = ValueError.  Only claimed on `isIntegerTok` spellings (Python's `int` also accepts
blanks, `+`, and `_` between digits, which the INTEGER token never contains). -/
def expsInt : Str → Option Int
  | '-' :: r => (expsNat r).map fun n => - (Int.ofNat n)
  | s => (expsNat s).map Int.ofNat

/-- `int(s)` (base 10) on `-?[0-9]+`; `none` = ValueError -/
def pyInt10 (s : Str) : Option Int := readInt s

/-! ### fixed point numbers (the value is the string) -/

inductive LErr where
  | valueError
  | assertionError
  | compilerError
deriving DecidableEq, Repr

/-- `SsbOpParamFixedPoint(whole, fract).value`; `whole = none` is the NegativeZero marker -/
def fixedMk (whole : Option Int) (fract : Str) : Except LErr Str :=
  if fract.all isDigit then
    match whole with
    | none => .ok (['-', '0', '.'] ++ fract)
    | some i => .ok (showInt i ++ ['.'] ++ fract)
  else .error .assertionError

/-- `SsbOpParamFixedPoint.from_str(value).value` -/
def fixedFromStr (value : Str) : Except LErr Str :=
  let parts := splitFirst '.' value
  let w0 := lstripC '0' parts.1
  let w : Str := if w0 = [] then ['0'] else if rstripC '0' w0 = ['-'] then ['-', '0'] else w0
  if w = ['-', '0'] then
    match parts.2 with
    | none => fixedMk none ['0']
    | some f => fixedMk none f
  else
    match pyInt10 w with
    | none => .error .valueError
    | some i =>
      match parts.2 with
      | none => fixedMk (some i) ['0']
      | some f => fixedMk (some i) f

def stripMinus : Str → Str
  | '-' :: r => r
  | s => s

/-- DECIMAL: `-? [0-9]+ . [0-9]+` or `-? . [0-9]+` -/
def isDecimalTok (s : Str) : Bool :=
  match splitFirst '.' (stripMinus s) with
  | (a, some b) => a.all isDigit && !b.isEmpty && b.all isDigit
  | (_, none) => false

/-! ### position marks -/

/-- `parse_position_marker_arg(ctx)` where the token text is `t` (kind decided by the lexer) -/
def parsePosArg (t : Str) : Except LErr (Int × Int) :=
  if isIntegerTok t then
    match expsInt t with
    | some i => .ok (i, 0)
    | none => .error .valueError
  else if isDecimalTok t then
    let decOf (d : Str) : Except LErr Int :=
      let st := rstripC '0' d
      match pyInt10 (if st ≠ [] then st else ['0']) with
      | some i => .ok i
      | none => .error .valueError
    let fin (pos dec : Int) : Except LErr (Int × Int) :=
      if dec = 5 then .ok (pos, 2) else if dec = 0 then .ok (pos, 0) else .error .compilerError
    match splitOn '.' t with
    | [a] => do
      let dec ← decOf a
      fin 0 dec
    | [a, b] =>
      match pyInt10 (if a ≠ [] then a else ['0']) with
      | none => .error .valueError
      | some pos => do
        let dec ← decOf b
        fin pos dec
    | _ => .error .compilerError
  else .error .compilerError

/-- `x_final` / `y_final` -/
def posFinal (rel off : Int) : Str := showInt rel ++ (if off > 1 then ['.', '5'] else [])

structure PosMark where
  name : Str
  xOff : Int
  yOff : Int
  xRel : Int
  yRel : Int
deriving DecidableEq, Repr

def posPrefix : Str := ['P', 'o', 's', 'i', 't', 'i', 'o', 'n', '<']

/-- `str(SsbOpParamPositionMarker)`: `Position<'{name}', {x_final}, {y_final}>` -/
def posMarkStr (p : PosMark) : Str :=
  posPrefix ++ [SQ] ++ p.name ++ [SQ, ',', SP] ++ posFinal p.xRel p.xOff ++ [',', SP] ++ posFinal p.yRel p.yOff ++ ['>']

/-! ### dungeon mode constants -/

structure DMode where
  close : Str
  «open» : Str
  request : Str
  openRequest : Str
deriving DecidableEq, Repr

/-- `get_explorerscript_constant_for(idx)` -/
def dmodeConst (c : DMode) (idx : Int) : Str :=
  if idx = 0 then c.close else if idx = 1 then c.open else if idx = 2 then c.request else if idx = 3 then c.openRequest
  else ESV.showInt idx      -- not one of the four modes: the number stands for itself (`str(idx)`)

/-! ### guards: the values on which print-then-read is the identity (see ESV/Props/C04.lean) -/

/-- no occurrence of the two characters `a b` in sequence -/
def noPair (a b : Char) : Str → Bool
  | x :: y :: r => !(x = a && y = b) && noPair a b (y :: r)
  | _ => true

/-- the STRING_LITERAL rule reaches the closing quote: every backslash takes the next character of the value with
it (so it must not be last, and the next character must not be the quote, whose own escape would be split),
and no raw `\r` / `\f` outside such a pair.  `\n` is fine: it is only present in the fall-back form, escaped. -/
def lexSafe (q : Char) : Str → Bool
  | [] => true
  | c :: cs =>
    if c = BS then
      match cs with
      | [] => false
      | d :: cs' => d ≠ q && lexSafe q cs'
    else if c = CR || c = FF then false
    else lexSafe q cs

/-- single-line form with quote `q`: lexes as one token, and the three `replace` calls of the reader only undo
the printer's escapes (a backslash in front of the other quote or of the letter `n` would be eaten) -/
def GuardS (q : Char) (s : Str) : Bool :=
  lexSafe q s && noPair BS (otherQuote q) s && noPair BS 'n' s

def isBlank (l : Str) : Bool := l.all (· = SP)

/-- triple-quoted form printed at `indent`: no `splitlines` boundary other than `\n`; some line of the value is
empty or starts with a non-blank (else the common blanks are taken for indentation and removed); at `indent = 0`
the closing delimiter starts its line, so the value's last line is taken for the closing line: it must not be
blank-only -/
def GuardM (indent : Nat) (s : Str) : Bool :=
  s.all (fun c => c = NL || !isLineSep c) &&
  (splitOn NL s).any (fun l => leadSpaces l = 0) &&
  (indent ≠ 0 || !isBlank ((splitOn NL s).getLastD []))

/-- which guard applies to `repr_string(s, indent, single)` -/
def Guard (s : Str) (indent : Nat) (single : Bool) : Bool :=
  let q := quoteOf single
  if !(s.contains NL) then GuardS q s
  else if hasSub (tripleOf q) s && hasSub (tripleOf (otherQuote q)) s then GuardS q s
  else GuardM indent s

/-! ### printing contexts: the value of `.indent` in force when `str()` is called on a string parameter -/

/-- where the ExplorerScript decompiler (first five) and the SsbScript decompiler (last) print a string parameter -/
inductive PrintCtx where
  /-- argument of an operation statement, also with an inline context `op<actor 3>(…)`:
      `SimpleSimpleOpWriteHandler._single_param_to_string` sets `.indent = decompiler.indent` -/
  | opArg
  /-- `case menu(…):` inside the braces of a switch: `_case_header_for` sets `.indent = decompiler.indent` -/
  | menuHeader
  /-- the text below `case k:` / `default:` inside the braces of a message switch (its own `Blk`) -/
  | msgText
  /-- `switch ( Op(…) )`: the header handler sets `.indent = decompiler.indent` before `_switch_header_for` prints with
      `str(x)` (since /repo fix "the decompiler sets the indent of string parameters in switch and if headers"; before it the
      parameter kept whatever an earlier printing had left on it, 0 from the constructor) -/
  | switchHeader
  /-- SsbScript: every statement sits directly in the routine body -/
  | ssbsArg
  deriving DecidableEq, Repr

/-- `.indent` when the parameter is printed; `d` = number of blocks (`if`, `forever`, …) around the statement inside the routine -/
def ctxIndent : PrintCtx → Nat → Nat
  | .opArg, d => d + 1
  | .menuHeader, d => d + 2
  | .msgText, d => d + 3
  | .switchHeader, d => d + 1
  | .ssbsArg, _ => 1

end ESV.Lit
