import ESV.Lit.Lemmas
/-
Lemmas about the literal model, part 2: the triple-quoted form.
`_repr_multiline_string` → MULTILINE_STRING_LITERAL rule → `multiline_string_literal`.
-/
namespace ESV.Lit

/-! ### split / join -/

theorem joinWith_cons (sep : Str) (h : Str) (t : List Str) :
    joinWith sep (h :: t) = h ++ t.flatMap (fun l => sep ++ l) := rfl

theorem join_splitAux (sep : Char) (s : Str) :
    (splitAux sep s).1 ++ (splitAux sep s).2.flatMap (fun l => sep :: l) = s := by
  induction s with
  | nil => simp [splitAux]
  | cons c cs ih =>
    simp only [splitAux]
    split
    · rename_i h; subst h
      simp [ih]
    · simp [ih]

/-- `"\n".join(s.split("\n")) == s` -/
theorem joinWith_splitOn (sep : Char) (s : Str) : joinWith [sep] (splitOn sep s) = s := by
  simp only [splitOn, joinWith_cons]
  simpa using join_splitAux sep s

theorem splitAux_snd_ne_nil (sep : Char) (s : Str) (h : sep ∈ s) : (splitAux sep s).2 ≠ [] := by
  induction s with
  | nil => simp at h
  | cons c cs ih =>
    simp only [splitAux]
    split
    · simp
    · rename_i hc
      have : sep ∈ cs := by
        rcases List.mem_cons.mp h with h | h
        · exact absurd h.symm hc
        · exact h
      exact ih this

theorem splitAux_fst_prefix (sep : Char) (s : Str) : (splitAux sep s).1 <+: s := by
  induction s with
  | nil => simp [splitAux]
  | cons c cs ih =>
    simp only [splitAux]
    split
    · exact List.nil_prefix
    · exact (List.prefix_cons_inj c).mpr ih

theorem hasSub_cons (pat : Str) (c : Char) (cs : Str) :
    hasSub pat (c :: cs) = (pat.isPrefixOf (c :: cs) || hasSub pat cs) := rfl

/-- a pattern that does not occur in the value does not occur in any of its lines -/
theorem hasSub_lines (pat : Str) (hp : pat ≠ []) (sep : Char) (s : Str) (h : hasSub pat s = false) :
    hasSub pat (splitAux sep s).1 = false ∧ ∀ l ∈ (splitAux sep s).2, hasSub pat l = false := by
  induction s with
  | nil =>
    cases pat with
    | nil => exact absurd rfl hp
    | cons a as => simp [splitAux, hasSub]
  | cons c cs ih =>
    rw [hasSub_cons, Bool.or_eq_false_iff] at h
    obtain ⟨ih1, ih2⟩ := ih h.2
    simp only [splitAux]
    split
    · refine ⟨?_, ?_⟩
      · cases pat with
        | nil => exact absurd rfl hp
        | cons a as => simp [hasSub]
      · intro l hl
        rcases List.mem_cons.mp hl with hl | hl
        · exact hl ▸ ih1
        · exact ih2 l hl
    · refine ⟨?_, ih2⟩
      rw [hasSub_cons, Bool.or_eq_false_iff]
      refine ⟨?_, ih1⟩
      cases hpre : pat.isPrefixOf (c :: (splitAux sep cs).1) with
      | false => rfl
      | true =>
        have h1 : pat <+: c :: (splitAux sep cs).1 := List.isPrefixOf_iff_prefix.mp hpre
        have h2 : c :: (splitAux sep cs).1 <+: c :: cs := (List.prefix_cons_inj c).mpr (splitAux_fst_prefix sep cs)
        have := List.isPrefixOf_iff_prefix.mpr (h1.trans h2)
        rw [this] at h
        exact absurd h.1 (by simp)

theorem hasSub_splitOn (pat : Str) (hp : pat ≠ []) (sep : Char) (s : Str) (h : hasSub pat s = false) :
    ∀ l ∈ splitOn sep s, hasSub pat l = false := by
  intro l hl
  obtain ⟨h1, h2⟩ := hasSub_lines pat hp sep s h
  rcases List.mem_cons.mp hl with hl | hl
  · exact hl ▸ h1
  · exact h2 l hl

/-- the lines of a value never contain the separator -/
theorem splitAux_no_sep (sep : Char) (s : Str) :
    sep ∉ (splitAux sep s).1 ∧ ∀ l ∈ (splitAux sep s).2, sep ∉ l := by
  induction s with
  | nil => simp [splitAux]
  | cons c cs ih =>
    simp only [splitAux]
    split
    · refine ⟨by simp, ?_⟩
      intro l hl
      rcases List.mem_cons.mp hl with hl | hl
      · exact hl ▸ ih.1
      · exact ih.2 l hl
    · rename_i hc
      refine ⟨?_, ih.2⟩
      intro hm
      rcases List.mem_cons.mp hm with hm | hm
      · exact hc hm.symm
      · exact ih.1 hm

theorem mem_of_mem_splitAux (sep : Char) (s : Str) (x : Char) :
    (x ∈ (splitAux sep s).1 → x ∈ s) ∧ ∀ l ∈ (splitAux sep s).2, x ∈ l → x ∈ s := by
  induction s with
  | nil => simp [splitAux]
  | cons c cs ih =>
    simp only [splitAux]
    split
    · refine ⟨by simp, ?_⟩
      intro l hl hx
      rcases List.mem_cons.mp hl with hl | hl
      · exact List.mem_cons_of_mem _ (ih.1 (hl ▸ hx))
      · exact List.mem_cons_of_mem _ (ih.2 l hl hx)
    · refine ⟨?_, fun l hl hx => List.mem_cons_of_mem _ (ih.2 l hl hx)⟩
      intro hx
      rcases List.mem_cons.mp hx with hx | hx
      · exact hx ▸ List.mem_cons_self
      · exact List.mem_cons_of_mem _ (ih.1 hx)

theorem mem_of_mem_splitOn (sep : Char) (s : Str) (x : Char) (l : Str) (hl : l ∈ splitOn sep s) (hx : x ∈ l) : x ∈ s := by
  rcases List.mem_cons.mp hl with hl | hl
  · exact (mem_of_mem_splitAux sep s x).1 (hl ▸ hx)
  · exact (mem_of_mem_splitAux sep s x).2 l hl hx

/-! ### the printed text as indented lines -/

/-- every line on its own text line, behind the prefix `p` -/
def indented (p : Str) (ls : List Str) : Str := ls.flatMap (fun l => NL :: (p ++ l))

theorem indented_cons (p l : Str) (ls : List Str) : indented p (l :: ls) = NL :: (p ++ l) ++ indented p ls := by
  simp [indented]

theorem spaces_add (a b : Nat) : spaces a ++ spaces b = spaces (a + b) := by
  simp [spaces, List.replicate_append_replicate]

theorem reprMultiline_eq (s : Str) (indent : Nat) (delim : Str) :
    reprMultiline s indent delim =
      delim ++ (indented (spaces (spi * indent + spi)) (splitOn NL s) ++ NL :: (spaces (spi * indent) ++ delim)) := by
  simp only [reprMultiline, splitOn, List.map_cons, joinWith_cons, indented, List.flatMap_cons, ← spaces_add]
  simp [List.flatMap_map, List.append_assoc]

theorem indented_starts (p : Str) (ls : List Str) (tail : Str) : ∃ r, indented p ls ++ NL :: tail = NL :: r := by
  cases ls with
  | nil => exact ⟨tail, rfl⟩
  | cons l ls => exact ⟨_, by rw [indented_cons]; rfl⟩

theorem indented_shift (p : Str) (ls : List Str) :
    indented p ls ++ [NL] = NL :: ls.flatMap (fun l => p ++ (l ++ [NL])) := by
  induction ls with
  | nil => rfl
  | cons l ls ih =>
    rw [indented_cons, List.append_assoc, ih]
    simp

/-! ### the MULTILINE_STRING_LITERAL rule -/

theorem findTriple_step (d a : Char) (m : Str) (n : Nat) (h : ¬ (a = d ∧ [d, d].isPrefixOf m = true)) :
    findTriple d (a :: m) n = findTriple d m (n + 1) := by
  cases m with
  | nil => simp [findTriple]
  | cons b m' =>
    cases m' with
    | nil => simp [findTriple]
    | cons c r =>
      have : ¬ (a = d ∧ b = d ∧ c = d) := by
        intro hh
        apply h
        refine ⟨hh.1, ?_⟩
        simp [List.isPrefixOf, hh.2.1, hh.2.2]
      simp only [findTriple]
      rw [if_neg]
      simpa [and_assoc] using this

theorem findTriple_ne (d x : Char) (l : Str) (n : Nat) (h : x ≠ d) : findTriple d (x :: l) n = findTriple d l (n + 1) :=
  findTriple_step d x l n (fun hh => h hh.1)

theorem findTriple_spaces (d : Char) (hd : d ≠ SP) (k : Nat) (l : Str) (n : Nat) :
    findTriple d (spaces k ++ l) n = findTriple d l (n + k) := by
  induction k generalizing n with
  | zero => simp [spaces]
  | succ k ih =>
    have : spaces (k + 1) ++ l = SP :: (spaces k ++ l) := by simp [spaces, List.replicate_succ]
    rw [this, findTriple_ne d SP _ n (fun h => hd h.symm), ih]
    congr 1; omega

theorem findTriple_line (d x : Char) (hx : x ≠ d) (ln l : Str) (n : Nat) (h : hasSub [d, d, d] ln = false) :
    findTriple d (ln ++ x :: l) n = findTriple d (x :: l) (n + ln.length) := by
  induction ln generalizing n with
  | nil => simp
  | cons a ln' ih =>
    rw [hasSub_cons, Bool.or_eq_false_iff] at h
    have hstep : ¬ (a = d ∧ [d, d].isPrefixOf (ln' ++ x :: l) = true) := by
      intro hh
      obtain ⟨ha, hp⟩ := hh
      have h1 := h.1
      cases ln' with
      | nil =>
        simp [List.isPrefixOf] at hp
        exact hx hp.1.symm
      | cons b r =>
        cases r with
        | nil =>
          simp [List.isPrefixOf] at hp
          exact hx hp.2.symm
        | cons c r' =>
          simp [List.isPrefixOf] at hp
          obtain ⟨hb, hc⟩ := hp
          subst hb hc
          simp [List.isPrefixOf, ha] at h1
    rw [List.cons_append, findTriple_step d a _ n hstep, ih _ h.2]
    simp only [List.length_cons]
    congr 1; omega

theorem findTriple_indented (d : Char) (hd : d = SQ ∨ d = DQ) (k : Nat) (ls : List Str) (tail : Str) (n : Nat)
    (h : ∀ l ∈ ls, hasSub [d, d, d] l = false) :
    findTriple d (indented (spaces k) ls ++ NL :: tail) n = findTriple d (NL :: tail) (n + (indented (spaces k) ls).length) := by
  obtain ⟨_, hdnl, _, _, _, hdsp⟩ := quote_facts d hd
  induction ls generalizing n with
  | nil => simp [indented]
  | cons l ls ih =>
    obtain ⟨r, hr⟩ := indented_starts (spaces k) ls tail
    rw [indented_cons]
    simp only [List.cons_append, List.append_assoc]
    rw [findTriple_ne d NL _ n (fun h => hdnl h.symm), findTriple_spaces d hdsp, hr,
      findTriple_line d NL (fun h => hdnl h.symm) l r _ (h l List.mem_cons_self), ← hr,
      ih _ (fun l' hl' => h l' (List.mem_cons_of_mem _ hl'))]
    simp only [List.length_cons, List.length_append, spaces, List.length_replicate]
    congr 1; omega

theorem findTriple_found (d : Char) (rest : Str) (n : Nat) : findTriple d (d :: d :: d :: rest) n = some (n + 3) := by
  simp [findTriple]

/-- the token rule on the printed triple-quoted form: exactly the printed text -/
theorem tokMulti_reprMultiline (d : Char) (hd : d = SQ ∨ d = DQ) (s : Str) (indent : Nat) (rest : Str)
    (h : hasSub (tripleOf d) s = false) :
    tokMulti (reprMultiline s indent (tripleOf d) ++ rest) = some (reprMultiline s indent (tripleOf d)).length := by
  obtain ⟨_, hdnl, _, _, _, hdsp⟩ := quote_facts d hd
  have hd' : (decide (d = SQ) || decide (d = DQ)) = true := by
    rcases hd with rfl | rfl <;> decide
  rw [reprMultiline_eq]
  simp only [tripleOf, List.cons_append, List.nil_append, List.append_assoc, tokMulti, hd', decide_true, Bool.and_self,
    ↓reduceIte]
  rw [findTriple_indented d hd _ _ _ _ (hasSub_splitOn [d, d, d] (by simp) NL s h),
    findTriple_ne d NL _ _ (fun h => hdnl h.symm), findTriple_spaces d hdsp, findTriple_found]
  simp only [List.length_cons, List.length_append, spaces, List.length_replicate, List.length_nil]
  congr 1; omega

theorem tokSingle_triple (d : Char) (hd : d = SQ ∨ d = DQ) (t : Str) : tokSingle (d :: d :: t) = some 2 := by
  have hd' : (decide (d = SQ) || decide (d = DQ)) = true := by
    rcases hd with rfl | rfl <;> decide
  cases t <;> simp [tokSingle, hd', tokSingleBody]

/-! ### `str.splitlines()` on the printed body -/

theorem splitlines_line (ln rest : Str) (h : ∀ c ∈ ln, isLineSep c = false) :
    splitlinesAux false (ln ++ NL :: rest) = ln :: splitlinesAux false rest := by
  induction ln with
  | nil =>
    have h1 : isLineSep NL = true := by decide
    have h2 : decide (NL = CR) = false := by decide
    simp [splitlinesAux, h1, h2]
  | cons a ln' ih =>
    have ha : isLineSep a = false := h a List.mem_cons_self
    have ih' := ih (fun c hc => h c (List.mem_cons_of_mem _ hc))
    simp only [List.cons_append, splitlinesAux, Bool.false_and, Bool.false_eq_true, ↓reduceIte, ha, ih']

theorem splitlines_last (ln : Str) (h : ∀ c ∈ ln, isLineSep c = false) :
    splitlinesAux false ln = if ln = [] then [] else [ln] := by
  induction ln with
  | nil => simp [splitlinesAux]
  | cons a ln' ih =>
    have ha : isLineSep a = false := h a List.mem_cons_self
    have ih' := ih (fun c hc => h c (List.mem_cons_of_mem _ hc))
    by_cases hl : ln' = []
    · subst hl; simp [splitlinesAux, ha]
    · rw [if_neg hl] at ih'
      simp [splitlinesAux, ha, ih']

theorem splitlines_lines (p : Str) (ls : List Str) (tail : Str)
    (hp : ∀ c ∈ p, isLineSep c = false) (h : ∀ l ∈ ls, ∀ c ∈ l, isLineSep c = false) :
    splitlinesAux false (ls.flatMap (fun l => p ++ (l ++ [NL])) ++ tail) = ls.map (p ++ ·) ++ splitlinesAux false tail := by
  induction ls with
  | nil => simp
  | cons l ls ih =>
    have hl : ∀ c ∈ p ++ l, isLineSep c = false := by
      intro c hc
      rcases List.mem_append.mp hc with hc | hc
      · exact hp c hc
      · exact h l List.mem_cons_self c hc
    simp only [List.flatMap_cons, List.append_assoc, List.cons_append, List.nil_append, List.map_cons]
    rw [← List.append_assoc p l, splitlines_line (p ++ l) _ hl, ih (fun l' hl' => h l' (List.mem_cons_of_mem _ hl'))]

theorem spaces_not_sep (k : Nat) : ∀ c ∈ spaces k, isLineSep c = false := by
  intro c hc
  have : c = SP := by
    simp [spaces] at hc; exact hc.2
  subst this; decide

/-! ### first / middle / last, minimum, dedent -/

theorem firstMidLast_snoc (a : Str) (m : List Str) (z : Str) : firstMidLast (a :: (m ++ [z])) = (a, m, z) := by
  cases m with
  | nil => rfl
  | cons b m' =>
    cases m' with
    | nil => rfl
    | cons c r =>
      simp only [List.cons_append, firstMidLast]
      have h1 : (b :: c :: (r ++ [z])).dropLast = b :: c :: r := by
        have : b :: c :: (r ++ [z]) = (b :: c :: r) ++ [z] := by simp
        rw [this, List.dropLast_concat]
      have h2 : (c :: (r ++ [z])).getLastD c = z := by
        have : c :: (r ++ [z]) = (c :: r) ++ [z] := by simp
        rw [this, List.getLastD_concat]
      rw [h1, h2]

theorem minD_ge (xs : List Nat) (m : Nat) (hne : xs ≠ []) (h : ∀ z ∈ xs, m ≤ z) : m ≤ minD xs := by
  induction xs using minD.induct with
  | case1 => exact absurd rfl hne
  | case2 z => simpa [minD] using h z
  | case3 a b c ih =>
    simp only [minD]
    have h1 := h a List.mem_cons_self
    have h2 := ih (by simp) (fun z hz => h z (List.mem_cons_of_mem _ hz))
    omega

theorem minD_eq (xs : List Nat) (m : Nat) (hmem : m ∈ xs) (hle : ∀ x ∈ xs, m ≤ x) : minD xs = m := by
  induction xs using minD.induct with
  | case1 => simp at hmem
  | case2 x =>
    simp at hmem; simp [minD, hmem]
  | case3 x y r ih =>
    simp only [minD]
    have hx : m ≤ x := hle x List.mem_cons_self
    have hr : ∀ z ∈ y :: r, m ≤ z := fun z hz => hle z (List.mem_cons_of_mem _ hz)
    rcases List.mem_cons.mp hmem with h | h
    · subst h
      have := minD_ge (y :: r) m (by simp) hr
      omega
    · rw [ih h hr]; omega

theorem leadSpaces_spaces (k : Nat) (l : Str) : leadSpaces (spaces k ++ l) = k + leadSpaces l := by
  induction k with
  | zero => simp [spaces]
  | succ k ih =>
    have : spaces (k + 1) ++ l = SP :: (spaces k ++ l) := by simp [spaces, List.replicate_succ]
    rw [this]
    simp only [leadSpaces, List.takeWhile_cons, decide_true, ↓reduceIte, List.length_cons] at ih ⊢
    omega

theorem drop_spaces (k : Nat) (l : Str) : (spaces k ++ l).drop k = l := by
  have : (spaces k).length = k := by simp [spaces]
  exact List.drop_left' this

theorem lstrip_spaces (k : Nat) (l : Str) : lstripC SP (spaces k ++ l) = lstripC SP l := by
  induction k with
  | zero => simp [spaces]
  | succ k ih =>
    have : spaces (k + 1) ++ l = SP :: (spaces k ++ l) := by simp [spaces, List.replicate_succ]
    rw [this]
    simp only [lstripC, List.dropWhile_cons, decide_true, ↓reduceIte] at ih ⊢
    exact ih

theorem lstrip_all_spaces (k : Nat) : lstripC SP (spaces k) = [] := by
  have := lstrip_spaces k []
  simpa [lstripC] using this

theorem all_of_dropWhile_nil (p : Char → Bool) (l : Str) (h : l.dropWhile p = []) : l.all p = true := by
  induction l with
  | nil => rfl
  | cons a r ih =>
    simp only [List.dropWhile_cons] at h
    split at h
    · rename_i ha
      simp [ha, ih h]
    · simp at h

theorem lstrip_ne_nil (l : Str) (h : isBlank l = false) : lstripC SP l ≠ [] := by
  intro hh
  have := all_of_dropWhile_nil _ l hh
  simp only [isBlank] at h
  rw [this] at h
  simp at h

theorem slice3_delim (d : Char) (body : Str) : slice3 (tripleOf d ++ (body ++ tripleOf d)) = body := by
  simp only [slice3, tripleOf, List.length_append, List.length_cons, List.length_nil]
  have h1 : ([d, d, d] ++ (body ++ [d, d, d])).take (0 + 1 + 1 + 1 + (body.length + (0 + 1 + 1 + 1)) - 3) = [d, d, d] ++ body := by
    have : 0 + 1 + 1 + 1 + (body.length + (0 + 1 + 1 + 1)) - 3 = ([d, d, d] ++ body).length := by simp
    rw [this, ← List.append_assoc, List.take_left']
    rfl
  rw [h1]
  rfl


/-! ### `multiline_string_literal` on the printed text -/

theorem lines_no_sep (s : Str) (h : s.all (fun c => c = NL || !isLineSep c) = true) :
    ∀ l ∈ splitOn NL s, ∀ c ∈ l, isLineSep c = false := by
  intro l hl c hc
  have hcs : c ∈ s := mem_of_mem_splitOn NL s c l hl hc
  have hne : c ≠ NL := by
    intro hh
    subst hh
    have := splitAux_no_sep NL s
    rcases List.mem_cons.mp hl with hl | hl
    · exact this.1 (hl ▸ hc)
    · exact this.2 l hl hc
  have := List.all_eq_true.mp h c hcs
  simpa [hne] using this

theorem splitlines_body (k4 kp : Nat) (ls : List Str) (h : ∀ l ∈ ls, ∀ c ∈ l, isLineSep c = false) :
    splitlines (indented (spaces k4) ls ++ NL :: spaces kp) =
      [] :: (ls.map (spaces k4 ++ ·) ++ (if kp = 0 then [] else [spaces kp])) := by
  have h0 : indented (spaces k4) ls ++ NL :: spaces kp = (indented (spaces k4) ls ++ [NL]) ++ spaces kp := by simp
  rw [h0, indented_shift]
  unfold splitlines
  have h1 := splitlines_line [] (ls.flatMap (fun l => spaces k4 ++ (l ++ [NL])) ++ spaces kp) (by simp)
  simp only [List.nil_append] at h1
  rw [List.cons_append, h1, splitlines_lines (spaces k4) ls (spaces kp) (spaces_not_sep k4) h, splitlines_last _ (spaces_not_sep kp)]
  congr 2
  cases kp with
  | zero => simp [spaces]
  | succ n => simp [spaces, List.replicate_succ]

theorem dedentJoin_indented (k4 : Nat) (ls : List Str) (hmin : ∃ l ∈ ls, leadSpaces l = 0) :
    dedentJoin [] (ls.map (spaces k4 ++ ·)) = joinWith [NL] ls := by
  obtain ⟨l0, hl0, hz⟩ := hmin
  have hcounts : (ls.map (spaces k4 ++ ·)).map leadSpaces = ls.map (fun l => k4 + leadSpaces l) := by
    simp [List.map_map, Function.comp_def, leadSpaces_spaces]
  have hmin : minD (ls.map (fun l => k4 + leadSpaces l)) = k4 := by
    apply minD_eq
    · exact List.mem_map.mpr ⟨l0, hl0, by omega⟩
    · intro x hx
      obtain ⟨l, _, rfl⟩ := List.mem_map.mp hx
      omega
  simp only [dedentJoin, hcounts, hmin, ne_eq, not_true_eq_false, false_and, ↓reduceIte, List.nil_append, List.map_map]
  congr 1
  have : ((fun x => List.drop k4 x) ∘ fun x => spaces k4 ++ x) = id := by
    funext x
    simp [drop_spaces]
  rw [this, List.map_id]

theorem readMultiLines_printed (k4 kp : Nat) (ls : List Str) (hne : ls ≠ [])
    (hmin : ∃ l ∈ ls, leadSpaces l = 0) (hlast : kp = 0 → isBlank (ls.getLastD []) = false) :
    readMultiLines ([] :: (ls.map (spaces k4 ++ ·) ++ (if kp = 0 then [] else [spaces kp]))) = joinWith [NL] ls := by
  by_cases hk : kp = 0
  · -- the closing delimiter starts its line: the value's last line is the reader's "last line"
    have hb := hlast hk
    obtain ⟨init, z, rfl⟩ : ∃ init z, ls = init ++ [z] := ⟨ls.dropLast, ls.getLast hne, (List.dropLast_concat_getLast hne).symm⟩
    have hz : (init ++ [z]).getLastD [] = z := by simp
    rw [hz] at hb
    simp only [hk, ↓reduceIte, List.append_nil, List.map_append, List.map_cons, List.map_nil]
    unfold readMultiLines
    rw [firstMidLast_snoc]
    simp only
    rw [lstrip_spaces, if_pos (lstrip_ne_nil z hb)]
    have := dedentJoin_indented k4 (init ++ [z]) hmin
    simpa using this
  · simp only [hk, ↓reduceIte]
    unfold readMultiLines
    rw [firstMidLast_snoc]
    simp only
    rw [lstrip_all_spaces, if_neg (by simp)]
    exact dedentJoin_indented k4 ls hmin

/-- `multiline_string_literal` gives the value back for every indent, under `GuardM` -/
theorem readMulti_reprMultiline (d : Char) (s : Str) (indent : Nat) (hg : GuardM indent s = true) :
    readMulti (reprMultiline s indent (tripleOf d)) = s := by
  simp only [GuardM, Bool.and_eq_true, Bool.or_eq_true, Bool.not_eq_true', decide_eq_true_eq] at hg
  obtain ⟨⟨hsep, hany⟩, hlast⟩ := hg
  have hmin : ∃ l ∈ splitOn NL s, leadSpaces l = 0 := by
    obtain ⟨l, hl, hz⟩ := List.any_eq_true.mp hany
    exact ⟨l, hl, by simpa using hz⟩
  unfold readMulti
  rw [reprMultiline_eq]
  have hre : indented (spaces (spi * indent + spi)) (splitOn NL s) ++ NL :: (spaces (spi * indent) ++ tripleOf d) =
      (indented (spaces (spi * indent + spi)) (splitOn NL s) ++ NL :: spaces (spi * indent)) ++ tripleOf d := by simp
  rw [hre, slice3_delim, splitlines_body _ _ _ (lines_no_sep s hsep),
    readMultiLines_printed _ _ _ (by simp [splitOn]) hmin, joinWith_splitOn]
  intro hk
  have hi : indent = 0 := by
    have : spi ≠ 0 := by decide
    rcases Nat.mul_eq_zero.mp hk with h | h
    · exact absurd h this
    · exact h
  rcases hlast with h | h
  · exact absurd hi h
  · exact h

end ESV.Lit
