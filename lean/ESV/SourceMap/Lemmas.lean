import ESV.SourceMap.Model
namespace ESV.SM
open ESV

theorem mapM'_map {α β : Type} (f : α → Option β) (g : β → α) (h : ∀ b, f (g b) = some b) (l : List β) :
    mapM' f (l.map g) = some l := by
  induction l with
  | nil => rfl
  | cons a as ih => simp [mapM', h, ih]

@[simp] theorem Mapping.deser_ser (m : Mapping) : Mapping.deser m.ser = some m := by
  cases m; rfl

@[simp] theorem PosMark.deser_ser (p : PosMark) : PosMark.deser p.ser = some p := by
  cases p; rfl

@[simp] theorem optStrDeser_optStr (s : Option String) : optStrDeser (optStr s) = some s := by
  cases s <;> rfl

@[simp] theorem optIntDeser_optInt (s : Option Int) : optIntDeser (optInt s) = some s := by
  cases s <;> rfl

@[simp] theorem calledInDeser_ser (c : Option (Option String × Int × Int)) :
    calledInDeser (calledInSer c) = some c := by
  cases c with
  | none => rfl
  | some v => obtain ⟨f, l, c⟩ := v; simp [calledInSer, calledInDeser]

@[simp] theorem PVal.deser_ser (v : PVal) : PVal.deser v.ser = some v := by
  cases v <;> rfl

@[simp] theorem MacroMapping.deser_ser (m : MacroMapping) : MacroMapping.deser m.ser = some m := by
  cases m with
  | mk rp mn l c ci ra ps =>
    simp only [MacroMapping.ser, MacroMapping.deser]
    have : mapM' (fun kv : String × J => (PVal.deser kv.2).map fun v => (kv.1, v))
        (ps.map fun kv => (kv.1, kv.2.ser)) = some ps :=
      mapM'_map _ (fun kv : String × PVal => (kv.1, kv.2.ser)) (by intro b; simp) ps
    simp [this]

theorem keyedDeser_ser {β : Type} (f : J → Option β) (g : β → J) (h : ∀ b, f (g b) = some b)
    (kv : Int × β) : keyedDeser f (keyStr kv.1, g kv.2) = some kv := by
  simp [keyedDeser, keyStr, readInt_showInt, h]

@[simp] theorem pmMacroDeser_ser (y : Option String × String × PosMark) :
    pmMacroDeser (.arr [optStr y.1, .str y.2.1, y.2.2.ser]) = some y := by
  obtain ⟨a, b, c⟩ := y
  simp [pmMacroDeser]

theorem SourceMap.deser_ser' (m : SourceMap) :
    SourceMap.deser m.ser = some ⟨Dict.ofItems m.mappings, m.posMarks, Dict.ofItems m.macros, m.posMarksMacro⟩ := by
  cases m with
  | mk mp pms mm mpms =>
    simp only [SourceMap.ser, SourceMap.deser]
    have h1 : mapM' (keyedDeser Mapping.deser) (mp.map fun kv => (keyStr kv.1, kv.2.ser)) = some mp :=
      mapM'_map _ (fun kv : Int × Mapping => (keyStr kv.1, kv.2.ser))
        (fun b => keyedDeser_ser Mapping.deser Mapping.ser Mapping.deser_ser b) mp
    have h2 : mapM' PosMark.deser (pms.map PosMark.ser) = some pms :=
      mapM'_map _ _ PosMark.deser_ser pms
    have h3 : mapM' (keyedDeser MacroMapping.deser) (mm.map fun kv => (keyStr kv.1, kv.2.ser)) = some mm :=
      mapM'_map _ (fun kv : Int × MacroMapping => (keyStr kv.1, kv.2.ser))
        (fun b => keyedDeser_ser MacroMapping.deser MacroMapping.ser MacroMapping.deser_ser b) mm
    have h4 : mapM' pmMacroDeser (mpms.map fun y => J.arr [optStr y.1, .str y.2.1, y.2.2.ser]) = some mpms :=
      mapM'_map _ (fun y : Option String × String × PosMark => J.arr [optStr y.1, .str y.2.1, y.2.2.ser])
        pmMacroDeser_ser mpms
    simp [h1, h2, h3, h4]

theorem dictEqv_refl {β : Type} [DecidableEq β] (d : Dict Int β) (h : (Dict.keys d).Nodup) :
    dictEqv d d = true := by
  simp only [dictEqv, beq_self_eq_true, Bool.true_and, List.all_eq_true]
  intro kv hkv
  have := Dict.get?_eq_some_of_mem d h kv.1 kv.2 hkv
  simp [this]

/-! rewrite_offsets -/

def Inj (f : Dict Int Int) : Prop := (Dict.keys f).Nodup ∧ (f.map (·.2)).Nodup

theorem mem_inj_of_nodup_snd (f : List (Int × Int)) (hv : (f.map (·.2)).Nodup) (a b k' : Int)
    (ma : (a, k') ∈ f) (mb : (b, k') ∈ f) : a = b := by
  induction f with
  | nil => cases ma
  | cons hd tl ih =>
    simp only [List.map_cons, List.nodup_cons] at hv
    cases ma with
    | head =>
      cases mb with
      | head => rfl
      | tail _ mb' => exact absurd (List.mem_map.mpr ⟨(b, k'), mb', rfl⟩) hv.1
    | tail _ ma' =>
      cases mb with
      | head => exact absurd (List.mem_map.mpr ⟨(a, k'), ma', rfl⟩) hv.1
      | tail _ mb' => exact ih hv.2 ma' mb'

theorem get?_inj (f : Dict Int Int) (h : Inj f) (a b k' : Int)
    (ha : Dict.get? f a = some k') (hb : Dict.get? f b = some k') : a = b :=
  mem_inj_of_nodup_snd f h.2 a b k' (Dict.mem_of_get? f a k' ha) (Dict.mem_of_get? f b k' hb)

/-- the list that `rekey` feeds to the dict constructor -/
def rekeyItems {β : Type} (d : Dict Int β) (f : Dict Int Int) : List (Int × β) :=
  d.filterMap fun kv => (Dict.get? f kv.1).map fun k' => (k', kv.2)

theorem mem_rekeyItems {β : Type} (d : Dict Int β) (f : Dict Int Int) (k' : Int) (v : β) :
    (k', v) ∈ rekeyItems d f ↔ ∃ k, (k, v) ∈ d ∧ Dict.get? f k = some k' := by
  simp only [rekeyItems, List.mem_filterMap, Option.map_eq_some_iff]
  constructor
  · rintro ⟨⟨k, v2⟩, hm, k2, hk, he⟩
    simp at he; obtain ⟨rfl, rfl⟩ := he
    exact ⟨k, hm, hk⟩
  · rintro ⟨k, hm, hk⟩
    exact ⟨(k, v), hm, k', hk, rfl⟩

theorem rekeyItems_keys_nodup {β : Type} (d : Dict Int β) (f : Dict Int Int) (hd : (Dict.keys d).Nodup)
    (hf : Inj f) : (Dict.keys (rekeyItems d f)).Nodup := by
  induction d with
  | nil => simp [rekeyItems, Dict.keys]
  | cons x xs ih =>
    obtain ⟨k, v⟩ := x
    simp only [Dict.keys, List.map_cons, List.nodup_cons] at hd
    have ih' := ih (by simpa [Dict.keys] using hd.2)
    simp only [rekeyItems, List.filterMap_cons]
    cases hk : Dict.get? f k with
    | none => simpa [rekeyItems] using ih'
    | some k' =>
      simp only [Option.map_some, Dict.keys, List.map_cons, List.nodup_cons]
      refine ⟨?_, by simpa [rekeyItems, Dict.keys] using ih'⟩
      intro hmem
      obtain ⟨⟨k2', v2⟩, hm2, he⟩ := List.mem_map.mp hmem
      simp at he; subst he
      obtain ⟨k2, hm, hk2⟩ := (mem_rekeyItems xs f k2' v2).mp hm2
      have : k = k2 := get?_inj f hf k k2 k2' hk hk2
      subst this
      exact hd.1 (List.mem_map.mpr ⟨(k, v2), hm, rfl⟩)

theorem rekey_eq {β : Type} (d : Dict Int β) (f : Dict Int Int) (hd : (Dict.keys d).Nodup) (hf : Inj f) :
    rekey d f = rekeyItems d f :=
  Dict.ofItems_nodup _ (rekeyItems_keys_nodup d f hd hf)

theorem rekey_get {β : Type} (d : Dict Int β) (f : Dict Int Int) (hd : (Dict.keys d).Nodup) (hf : Inj f)
    (k k' : Int) (v : β) (h1 : Dict.get? d k = some v) (h2 : Dict.get? f k = some k') :
    Dict.get? (rekey d f) k' = some v := by
  rw [rekey_eq d f hd hf]
  apply Dict.get?_eq_some_of_mem _ (rekeyItems_keys_nodup d f hd hf)
  exact (mem_rekeyItems d f k' v).mpr ⟨k, Dict.mem_of_get? d k v h1, h2⟩

theorem rekey_only {β : Type} (d : Dict Int β) (f : Dict Int Int) (hd : (Dict.keys d).Nodup) (hf : Inj f)
    (k' : Int) (v : β) (h : Dict.get? (rekey d f) k' = some v) :
    ∃ k, Dict.get? f k = some k' ∧ Dict.get? d k = some v := by
  rw [rekey_eq d f hd hf] at h
  obtain ⟨k, hm, hk⟩ := (mem_rekeyItems d f k' v).mp (Dict.mem_of_get? _ k' v h)
  exact ⟨k, hk, Dict.get?_eq_some_of_mem d hd k v hm⟩

/-! the return-address walk -/

theorem walk_some (f : Dict Int Int) (maxOld : Int) (fuel : Nat) (r a : Int)
    (h : walk f maxOld fuel r = some a) :
    r ≤ a ∧ Dict.has f a = true ∧ ∀ j, r ≤ j → j < a → Dict.has f j = false := by
  induction fuel generalizing r with
  | zero => simp [walk] at h
  | succ n ih =>
    unfold walk at h
    split at h
    · rename_i hh
      simp at h; subst h
      exact ⟨Int.le_refl _, hh, fun j h1 h2 => absurd h1 (by omega)⟩
    · rename_i hh
      split at h
      · cases h
      · obtain ⟨h1, h2, h3⟩ := ih (r + 1) h
        refine ⟨by omega, h2, ?_⟩
        intro j hj1 hj2
        by_cases e : j = r
        · subst e; simpa using hh
        · exact h3 j (by omega) hj2

theorem walk_none (f : Dict Int Int) (maxOld : Int) (fuel : Nat) (r : Int)
    (hfuel : (maxOld - r).toNat + 2 ≤ fuel + 1 ∨ maxOld < r + 1 ∧ 1 ≤ fuel)
    (h : walk f maxOld fuel r = none) :
    ∀ j, r ≤ j → j ≤ maxOld → Dict.has f j = false := by
  induction fuel generalizing r with
  | zero => omega
  | succ n ih =>
    unfold walk at h
    split at h
    · cases h
    · rename_i hh
      split at h
      · rename_i hgt
        intro j h1 h2
        have : j = r := by omega
        subst this; simpa using hh
      · rename_i hgt
        intro j h1 h2
        by_cases e : j = r
        · subst e; simpa using hh
        · refine ih (r + 1) ?_ h j (by omega) h2
          left; omega

theorem le_maxKey (l : List Int) (k : Int) (h : k ∈ l) : k ≤ maxKey l := by
  induction l with
  | nil => cases h
  | cons x xs ih =>
    cases xs with
    | nil => simp at h; subst h; simp [maxKey]
    | cons y ys =>
      simp only [maxKey]
      cases h with
      | head => exact Int.le_max_left _ _
      | tail _ h' => exact Int.le_trans (ih h') (Int.le_max_right _ _)

theorem has_le_maxKey (f : Dict Int Int) (k : Int) (h : Dict.has f k = true) : k ≤ maxKey (Dict.keys f) := by
  apply le_maxKey
  simp only [Dict.has, Option.isSome_iff_exists] at h
  obtain ⟨v, hv⟩ := h
  exact List.mem_map.mpr ⟨(k, v), Dict.mem_of_get? f k v hv, rfl⟩

end ESV.SM
