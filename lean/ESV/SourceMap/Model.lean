import ESV.Base.Dec
import ESV.Base.Dict
/-
Model of explorerscript/source_map.py: SourceMapping, MacroSourceMapping, SourceMapPositionMark,
SourceMap.serialize / deserialize / rewrite_offsets / __eq__.

JSON is modelled by the value type `J`; the two facts of Python's `json` module that matter are part of
`ser`: dict keys are written as `str(int)`, tuples are written as arrays.  `json.loads (json.dumps v) = v`
on this value type is trusted (stdlib), see DESIGN §6.
-/
namespace ESV.SM

inductive J where
  | null
  | int (i : Int)
  | str (s : String)
  | arr (l : List J)
  | obj (kv : List (String × J))

structure Mapping where
  line : Int
  col : Int
deriving DecidableEq, Repr

structure PosMark where
  line : Int
  col : Int
  endLine : Int
  endCol : Int
  name : String
  xOff : Int
  yOff : Int
  xRel : Int
  yRel : Int
deriving DecidableEq, Repr

inductive PVal where
  | int (i : Int)
  | str (s : String)
deriving DecidableEq, Repr

structure MacroMapping where
  relpath : Option String
  macroName : String
  line : Int
  col : Int
  calledIn : Option (Option String × Int × Int)
  returnAddr : Option Int
  params : List (String × PVal)
deriving DecidableEq, Repr

structure SourceMap where
  mappings : Dict Int Mapping
  posMarks : List PosMark
  macros : Dict Int MacroMapping
  posMarksMacro : List (Option String × String × PosMark)
deriving DecidableEq, Repr

/-- a Python dict has each key once -/
def SourceMap.WF (m : SourceMap) : Prop := (Dict.keys m.mappings).Nodup ∧ (Dict.keys m.macros).Nodup

/-! ### serialize -/

def keyStr (k : Int) : String := String.ofList (showInt k)

def optStr : Option String → J
  | none => .null
  | some s => .str s

def Mapping.ser (m : Mapping) : J := .arr [.int m.line, .int m.col]

def PosMark.ser (p : PosMark) : J :=
  .arr [.int p.line, .int p.col, .int p.endLine, .int p.endCol, .str p.name,
        .int p.xOff, .int p.yOff, .int p.xRel, .int p.yRel]

def PVal.ser : PVal → J
  | .int i => .int i
  | .str s => .str s

def calledInSer : Option (Option String × Int × Int) → J
  | none => .null
  | some (f, l, c) => .arr [optStr f, .int l, .int c]

def optInt : Option Int → J
  | none => .null
  | some i => .int i

def MacroMapping.ser (m : MacroMapping) : J :=
  .arr [optStr m.relpath, .str m.macroName, .int m.line, .int m.col, calledInSer m.calledIn,
        optInt m.returnAddr, .obj (m.params.map fun kv => (kv.1, kv.2.ser))]

def SourceMap.ser (m : SourceMap) : J :=
  .obj [("map", .obj (m.mappings.map fun kv => (keyStr kv.1, kv.2.ser))),
        ("pos_marks", .arr (m.posMarks.map PosMark.ser)),
        ("macros", .obj [
          ("map", .obj (m.macros.map fun kv => (keyStr kv.1, kv.2.ser))),
          ("pos_marks", .arr (m.posMarksMacro.map fun y => .arr [optStr y.1, .str y.2.1, y.2.2.ser]))])]

/-! ### deserialize (typed: anything that is not the shape `ser` writes is rejected with `none`;
the Python code does not type-check and would build an ill-typed object instead — out of scope) -/

def Mapping.deser : J → Option Mapping
  | .arr [.int l, .int c] => some ⟨l, c⟩
  | _ => none

def PosMark.deser : J → Option PosMark
  | .arr [.int a, .int b, .int c, .int d, .str n, .int e, .int f, .int g, .int h] => some ⟨a, b, c, d, n, e, f, g, h⟩
  | _ => none

def optStrDeser : J → Option (Option String)
  | .null => some none
  | .str s => some (some s)
  | _ => none

def optIntDeser : J → Option (Option Int)
  | .null => some none
  | .int i => some (some i)
  | _ => none

def calledInDeser : J → Option (Option (Option String × Int × Int))
  | .null => some none
  | .arr [f, .int l, .int c] => (optStrDeser f).map fun f' => some (f', l, c)
  | _ => none

def PVal.deser : J → Option PVal
  | .int i => some (.int i)
  | .str s => some (.str s)
  | _ => none

def mapM' {α β : Type} (f : α → Option β) : List α → Option (List β)
  | [] => some []
  | a :: as => match f a, mapM' f as with
    | some b, some bs => some (b :: bs)
    | _, _ => none

def MacroMapping.deser : J → Option MacroMapping
  | .arr [rp, .str mn, .int l, .int c, ci, ra, .obj ps] =>
    match optStrDeser rp, calledInDeser ci, optIntDeser ra,
          mapM' (fun kv : String × J => (PVal.deser kv.2).map fun v => (kv.1, v)) ps with
    | some rp', some ci', some ra', some ps' => some ⟨rp', mn, l, c, ci', ra', ps'⟩
    | _, _, _, _ => none
  | _ => none

def keyedDeser {β : Type} (f : J → Option β) (kv : String × J) : Option (Int × β) :=
  match readInt kv.1.toList, f kv.2 with
  | some k, some v => some (k, v)
  | _, _ => none

def pmMacroDeser : J → Option (Option String × String × PosMark)
  | .arr [f, .str mn, pm] =>
    match optStrDeser f, PosMark.deser pm with
    | some f', some pm' => some (f', mn, pm')
    | _, _ => none
  | _ => none

def SourceMap.deser : J → Option SourceMap
  | .obj [("map", .obj mp), ("pos_marks", .arr pms), ("macros", .obj [("map", .obj mmp), ("pos_marks", .arr mpms)])] =>
    match mapM' (keyedDeser Mapping.deser) mp, mapM' PosMark.deser pms,
          mapM' (keyedDeser MacroMapping.deser) mmp, mapM' pmMacroDeser mpms with
    | some a, some b, some c, some d => some ⟨Dict.ofItems a, b, Dict.ofItems c, d⟩
    | _, _, _, _ => none
  | _ => none

/-! ### `__eq__` as written in the code: mappings and position marks only
(after the `fix:` commit giving `SourceMapping` a field-wise `__eq__`; Python dict equality ignores order) -/

def dictEqv {β : Type} [DecidableEq β] (a b : Dict Int β) : Bool :=
  a.length == b.length && a.all fun kv => Dict.get? b kv.1 == some kv.2

def SourceMap.pyEq (a b : SourceMap) : Bool :=
  dictEqv a.mappings b.mappings && a.posMarks == b.posMarks

/-! ### rewrite_offsets -/

/-- `{new_mapping[key]: val for key, val in d.items() if key in new_mapping}` -/
def rekey {β : Type} (d : Dict Int β) (f : Dict Int Int) : Dict Int β :=
  Dict.ofItems (d.filterMap fun kv => (Dict.get? f kv.1).map fun k' => (k', kv.2))

def maxKey : List Int → Int
  | [] => 0
  | [k] => k
  | k :: rest => max k (maxKey rest)

/-- the `while addr not in new_mapping` walk: `fuel` bounds the number of increments -/
def walk (f : Dict Int Int) (maxOld : Int) : Nat → Int → Option Int
  | 0, _ => none
  | fuel + 1, addr =>
    if Dict.has f addr then some addr
    else if addr + 1 > maxOld then none else walk f maxOld fuel (addr + 1)

def walkFuel (maxOld addr : Int) : Nat := (maxOld - addr).toNat + 2

/-- body of the `for m in self._mappings_macros.values()` loop (after the `fix:` commit the guard is
`is not None`; `truthy` selects the pinned behaviour `if m.return_addr:` for the counterexample) -/
def newRet (truthy : Bool) (f : Dict Int Int) (maxOld : Int) (ret : Option Int) : Option Int :=
  match ret with
  | none => none
  | some r =>
    if truthy && r == 0 then some r
    else match walk f maxOld (walkFuel maxOld r) r with
      | some a => Dict.get? f a
      | none => some r

def updRet (truthy : Bool) (f : Dict Int Int) (maxOld : Int) (v : MacroMapping) : MacroMapping :=
  { v with returnAddr := newRet truthy f maxOld v.returnAddr }

def SourceMap.rewriteG (truthy : Bool) (m : SourceMap) (f : Dict Int Int) : SourceMap :=
  let mp := rekey m.mappings f
  let mm := rekey m.macros f
  if f.isEmpty then { m with mappings := mp, macros := mm }
  else
    let maxOld := maxKey (Dict.keys f)
    { m with mappings := mp,
             macros := mm.map fun kv => (kv.1, updRet truthy f maxOld kv.2) }

/-- the code as it is in the repository now -/
def SourceMap.rewrite (m : SourceMap) (f : Dict Int Int) : SourceMap := m.rewriteG false f

end ESV.SM
