import ESV.Gen.Tables
import ESV.Lex.Model
/-
The two places of the compiler where alternative spellings of one construct meet (property C16):

  * `ForTargetDefCompileHandler.collect` (compile_handlers/functions/for_target_def.py): the routine type is decided from
    `str(target.FOR_TARGET())` (deprecated `for_actor(X)` header, one token) or `str(target.IDENTIFIER())` (`for actor X`).
    `str(None)` is the text `None`.  The linked target is read from the same `integer_like` child in both spellings.
  * `LabelCompileHandler.collect` (compile_handlers/atoms/label.py): only `ctx.IDENTIFIER()` is read; the marker token
    (`@` or `§`) is never looked at.

The parser is not modelled: which children a context has for which spelling is stated here (`legacyHeader`, `newHeader`)
from the grammar rule  for_target_def_target : (FOR IDENTIFIER) | (FOR_TARGET).
-/
namespace ESV.Lex
open ESV ESV.Lit

/-- Python `str(x)` of an optional terminal node -/
def pyStr : Option Str → Str
  | none => "None".toList
  | some s => s

/-- children of a `for_target_def_target` context -/
structure TargetCtx where
  forTarget : Option Str
  ident : Option Str
deriving DecidableEq, Repr

/-- `SsbRoutineType.<name>.value` (regenerated) -/
def routineTypeValue (name : String) : Option Int := ESV.Gen.routineTypes.lookup name

/-- the `if`/`elif` cascade of `collect`: routine type value, or `none` = SsbCompilerError -/
def targetType (c : TargetCtx) : Option Int :=
  if pyStr c.forTarget = "for_actor".toList ∨ pyStr c.ident = "actor".toList then routineTypeValue "ACTOR"
  else if pyStr c.forTarget = "for_object".toList ∨ pyStr c.ident = "object".toList then routineTypeValue "OBJECT"
  else if pyStr c.forTarget = "for_performer".toList ∨ pyStr c.ident = "performer".toList then routineTypeValue "PERFORMER"
  else none

/-- `def N for_actor(X)`: one FOR_TARGET token -/
def legacyHeader (word : Str) : TargetCtx := ⟨some word, none⟩
/-- `def N for actor X`: FOR, then an IDENTIFIER -/
def newHeader (kind : Str) : TargetCtx := ⟨none, some kind⟩

/-- `SsbRoutineInfo(type, linked_to, linked_to_name)` as far as the header decides it; `α` = the linked target, which is
collected from the same `integer_like` child in both spellings -/
def routineInfo {α} (c : TargetCtx) (target : α) : Option (Int × α) := (targetType c).map (·, target)

/-- `LabelCompileHandler.collect`: the label is identified by the identifier text alone -/
def labelName (_marker : Nat) (ident : Str) : Str := ident

end ESV.Lex
