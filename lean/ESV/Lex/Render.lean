import ESV.Lex.Layout
/-
Separators made of several units, `skip_insertion`, renderings of a token sequence, and the printer's `needs_sep` table.
-/
namespace ESV.Lex
open ESV ESV.Lit

/-! ### separators -/

/-- first characters a separator can have -/
def sepStartChars : List Char := [' ', '\t', '\n', '\r', '/', '\\']

theorem unit_head (u : SepUnit) (hu : u.ok = true) : ∃ c r, u.text = c :: r ∧ c ∈ sepStartChars := by
  cases u with
  | spaces w =>
    simp only [SepUnit.ok, Bool.and_eq_true, Bool.not_eq_true', List.isEmpty_eq_false_iff] at hu
    cases w with
    | nil => exact absurd rfl hu.1
    | cons c w' =>
      refine ⟨c, w', rfl, ?_⟩
      have := hu.2
      simp only [List.all_cons, Bool.and_eq_true, isSpaceCh, Bool.or_eq_true, decide_eq_true_eq] at this
      rcases this.1 with ((h | h) | h) | h <;> simp [sepStartChars, h]
  | lineComment b e => exact ⟨'/', _, rfl, by simp [sepStartChars]⟩
  | blockComment b => exact ⟨'/', _, rfl, by simp [sepStartChars]⟩
  | lineJoin w e => exact ⟨'\\', _, rfl, by simp [sepStartChars]⟩

theorem dropWhile_all_append {α} (p : α → Bool) (a b : List α) (h : a.all p = true) : (a ++ b).dropWhile p = b.dropWhile p := by
  induction a with
  | nil => rfl
  | cons x a ih => simp only [List.all_cons, Bool.and_eq_true] at h; simp [h.1, ih h.2]

theorem ljSafe_unit (u : SepUnit) (rest : Str) (hu : u.ok = true) (hs : ljSafe rest = true) : ljSafe (u.text ++ rest) = true := by
  cases u with
  | spaces w =>
    simp only [SepUnit.ok, Bool.and_eq_true] at hu
    simp only [ljSafe, SepUnit.text, dropWhile_all_append isSpaceCh w rest hu.2]
    exact hs
  | lineComment b e => simp [ljSafe, SepUnit.text, isSpaceCh, FF]
  | blockComment b => simp [ljSafe, SepUnit.text, isSpaceCh, FF]
  | lineJoin w e => simp [ljSafe, SepUnit.text, isSpaceCh, FF]

/-- one unit of layout in front of any text is invisible -/
theorem lex_unit (u : SepUnit) (rest : Str) (hu : u.ok = true) (hs : ljSafe rest = true) : lex (u.text ++ rest) = lex rest := by
  cases u with
  | spaces w => simp only [SepUnit.ok, Bool.and_eq_true] at hu; exact lex_spaces w rest hu.2
  | lineComment b e =>
    simp only [SepUnit.ok, Bool.and_eq_true, Bool.or_eq_true, decide_eq_true_eq] at hu
    exact lex_lineComment b e rest hu.1 hu.2
  | blockComment b => exact lex_blockComment b rest hu
  | lineJoin w e =>
    simp only [SepUnit.ok, Bool.and_eq_true, Bool.or_eq_true, decide_eq_true_eq] at hu
    exact lex_lineJoin w e rest hu.1 (by rcases hu.2 with (h | h) | h <;> simp [h]) hs

theorem sepText_cons (u : SepUnit) (us : List SepUnit) : sepText (u :: us) = u.text ++ sepText us := by
  simp [sepText]

theorem ljSafe_sep (us : List SepUnit) (rest : Str) (hok : ∀ u ∈ us, u.ok = true) (hs : ljSafe rest = true) :
    ljSafe (sepText us ++ rest) = true := by
  induction us with
  | nil => simpa [sepText] using hs
  | cons u us ih =>
    rw [sepText_cons, List.append_assoc]
    exact ljSafe_unit u _ (hok u (by simp)) (ih (fun v hv => hok v (List.mem_cons_of_mem _ hv)))

/-- a whole separator in front of any text is invisible -/
theorem lex_sep (us : List SepUnit) (rest : Str) (hok : ∀ u ∈ us, u.ok = true) (hs : ljSafe rest = true) :
    lex (sepText us ++ rest) = lex rest := by
  induction us with
  | nil => simp [sepText]
  | cons u us ih =>
    have hok' : ∀ v ∈ us, v.ok = true := fun v hv => hok v (List.mem_cons_of_mem _ hv)
    rw [sepText_cons, List.append_assoc, lex_unit u _ (hok u (by simp)) (ljSafe_sep us rest hok' hs)]
    exact ih hok'

/-- comment running to the end of the text -/
theorem lex_eof_lineComment (b : Str) (hb : b.all notEol = true) : lex ('/' :: '/' :: b) = [] := by
  have hn : skipLen ('/' :: '/' :: b) = some (2 + b.length) := by
    simp [skipLen, isSpaceCh, takeWhile_all notEol b hb]
  rw [lex_skip '/' _ (Or.inr (Or.inr ⟨rfl, '/', _, rfl, Or.inl rfl⟩)) _ hn]
  have : ('/' :: '/' :: b).drop (2 + b.length) = [] := by rw [Nat.add_comm]; simp
  rw [this]; rfl

theorem blockEnd_open (b : Str) (n : Nat) (h : noClose b = true) : blockEnd b n = n + b.length := by
  induction b generalizing n with
  | nil => simp [blockEnd]
  | cons c b' ih =>
    simp only [noClose, Bool.and_eq_true, Bool.not_eq_true', Bool.and_eq_false_iff, decide_eq_false_iff_not] at h
    simp only [blockEnd]
    have hcond : ¬ (c = '*' ∧ b'.head? = some '/') := by
      rintro ⟨h1, h2⟩
      rcases h.1 with h3 | h3
      · exact h3 h1
      · exact h3 h2
    simp only [hcond, if_false, ih (n + 1) h.2]
    simp; omega

/-- unterminated block comment: `'/*' .*? EOF` -/
theorem lex_eof_blockComment (b : Str) (hb : noClose b = true) : lex ('/' :: '*' :: b) = [] := by
  have hn : skipLen ('/' :: '*' :: b) = some (2 + b.length) := by
    simp [skipLen, isSpaceCh, blockEnd_open b 2 hb]
  rw [lex_skip '/' _ (Or.inr (Or.inr ⟨rfl, '*', _, rfl, Or.inr rfl⟩)) _ hn]
  have : ('/' :: '*' :: b).drop (2 + b.length) = [] := by rw [Nat.add_comm]; simp
  rw [this]; rfl

/-! ### a separator is always a safe boundary -/

theorem sym_noext_sep : litTable.all (fun l => sepStartChars.all (fun c => noExt l.1 c)) = true := by decide

theorem sepStart_facts (c : Char) (h : c ∈ sepStartChars) : isIdChar c = false ∧ c ≠ '.' ∧ c ≠ SQ ∧ c ≠ DQ := by
  simp only [sepStartChars, List.mem_cons, List.not_mem_nil, or_false] at h
  rcases h with h | h | h | h | h | h <;> (subst h; decide)

theorem safe_after_sep (t : Str) (cls : Cls) (hc : classify t = some cls) (c : Char) (r : Str) (hcs : c ∈ sepStartChars) :
    safeBoundary t (c :: r) = true := by
  have hs := classify_spec t cls hc
  obtain ⟨f1, f2, f3, f4⟩ := sepStart_facts c hcs
  simp only [safeBoundary, hc]
  cases cls with
  | sym =>
    simp only [isSym, Bool.and_eq_true, List.any_eq_true, decide_eq_true_eq] at hs
    obtain ⟨⟨l0, hl0, rfl⟩, -⟩ := hs
    have := sym_noext_sep
    rw [List.all_eq_true] at this
    have h2 := this l0 hl0
    rw [List.all_eq_true] at h2
    exact h2 c hcs
  | word => simp [f1]
  | sigil => simp [f1]
  | int => simp [f1, f2]
  | dec => simp [f1, f2]
  | str1 =>
    simp only [isStr1, decide_eq_true_eq] at hs
    obtain ⟨q, body, rfl, hq⟩ := tokSingle_quote t _ hs
    have : q ≠ c := by rintro rfl; rcases hq with h | h <;> simp_all
    simp [this]
  | str3 => rfl

/-- **skip_insertion**: a token, then any separator (or none, at a safe boundary), then any text:
the token comes out first and the remaining text is lexed as if it stood alone. -/
theorem skip_insertion (t : Str) (cls : Cls) (us : List SepUnit) (rest : Str)
    (hc : classify t = some cls) (hok : ∀ u ∈ us, u.ok = true) (hs : ljSafe rest = true)
    (hb : us ≠ [] ∨ safeBoundary t rest = true) :
    lex (t ++ sepText us ++ rest) = tokOf t :: lex rest := by
  rw [List.append_assoc]
  have hsafe : safeBoundary t (sepText us ++ rest) = true := by
    cases us with
    | nil =>
      rcases hb with h | h
      · exact absurd rfl h
      · simpa [sepText] using h
    | cons u us' =>
      obtain ⟨c, r, hu, hcs⟩ := unit_head u (hok u (by simp))
      rw [sepText_cons, hu]
      exact safe_after_sep t cls hc c _ hcs
  rw [lex_token_append t _ cls hc hsafe, lex_sep us rest hok hs]

/-! ### renderings of a token sequence -/

/-- a token text and the layout that follows it -/
abbrev Piece := Str × List SepUnit

/-- the rendered text; `tail` is what follows the last separator (nothing, or a comment running to the end of the text) -/
def render : List Piece → Str → Str
  | [], tail => tail
  | (t, us) :: r, tail => t ++ sepText us ++ render r tail

/-- every text is a token, every separator is well formed, and where there is no separator the boundary is safe -/
def Admissible : List Piece → Str → Prop
  | [], _ => True
  | (t, us) :: r, tail =>
    (classify t).isSome = true ∧ (∀ u ∈ us, u.ok = true) ∧ (us ≠ [] ∨ safeBoundary t (render r tail) = true) ∧ Admissible r tail

theorem token_head (t : Str) (cls : Cls) (hc : classify t = some cls) : ∃ c r, t = c :: r ∧ isSpaceCh c = false ∧ c ≠ FF := by
  have hs := classify_spec t cls hc
  have hdig : ∀ c, isDigit c = true → isSpaceCh c = false ∧ c ≠ FF := by
    intro c hd
    have := (isDigit_iff c).mp hd
    constructor
    · cases hsp : isSpaceCh c with
      | false => rfl
      | true =>
        simp only [isSpaceCh, Bool.or_eq_true, decide_eq_true_eq] at hsp
        rcases hsp with ((h | h) | h) | h <;> (subst h; revert hd; decide)
    · rintro rfl; revert hd; decide
  have hnum : ∀ t, NumHead t → ∃ c r, t = c :: r ∧ isSpaceCh c = false ∧ c ≠ FF := by
    rintro t ⟨c, r, rfl, h⟩
    refine ⟨c, r, rfl, ?_⟩
    rcases h with (h | h) | ⟨h, -⟩
    · exact hdig c h
    · subst h; exact ⟨by decide, by decide⟩
    · subst h; exact ⟨by decide, by decide⟩
  have hquote : ∀ q, (q = SQ ∨ q = DQ) → isSpaceCh q = false ∧ q ≠ FF := by
    rintro q (h | h) <;> (subst h; exact ⟨by decide, by decide⟩)
  cases cls with
  | sym =>
    simp only [isSym, Bool.and_eq_true, List.any_eq_true, decide_eq_true_eq] at hs
    obtain ⟨⟨l0, hl0, rfl⟩, -⟩ := hs
    have hok := lit_ok l0 hl0
    cases h1 : l0.1 with
    | nil => rw [h1] at hok; simp [litOk] at hok
    | cons c r =>
      rw [h1] at hok
      obtain ⟨h0, -, -, -, -, h5, -⟩ := litOk_cons c r hok
      exact ⟨c, r, rfl, h5, h0⟩
  | word =>
    obtain ⟨c, w, rfl, h1, -⟩ := isWord_spec t hs
    exact ⟨c, w, rfl, idStart_not_space c h1, idStart_ne c FF h1 (by decide)⟩
  | sigil =>
    obtain ⟨g, c, w, rfl, hg, -, -⟩ := isSigil_spec t hs
    refine ⟨g, _, rfl, ?_⟩
    rcases hg with h | h <;> (subst h; exact ⟨by decide, by decide⟩)
  | int =>
    simp only [isInt, Bool.and_eq_true, decide_eq_true_eq] at hs
    exact hnum t (numHead_of_int t _ hs.2)
  | dec =>
    simp only [isDec, Bool.and_eq_true, decide_eq_true_eq] at hs
    exact hnum t (numHead_of_dec t _ hs.2)
  | str1 =>
    simp only [isStr1, decide_eq_true_eq] at hs
    obtain ⟨q, body, rfl, hq⟩ := tokSingle_quote t _ hs
    exact ⟨q, body, rfl, hquote q hq⟩
  | str3 =>
    simp only [isStr3, decide_eq_true_eq] at hs
    obtain ⟨q, body, rfl, hq⟩ := tokMulti_quote t _ hs
    exact ⟨q, _, rfl, hquote q hq⟩

theorem ljSafe_token (t : Str) (cls : Cls) (hc : classify t = some cls) (rest : Str) : ljSafe (t ++ rest) = true := by
  obtain ⟨c, r, rfl, h1, h2⟩ := token_head t cls hc
  simp [ljSafe, h1, h2]

theorem ljSafe_render (l : List Piece) (tail : Str) (h : Admissible l tail) (ht : ljSafe tail = true) : ljSafe (render l tail) = true := by
  cases l with
  | nil => exact ht
  | cons p r =>
    obtain ⟨t, us⟩ := p
    obtain ⟨h1, -⟩ := h
    obtain ⟨cls, hc⟩ := Option.isSome_iff_exists.mp h1
    simp only [render, List.append_assoc]
    exact ljSafe_token t cls hc _

/-- the tokens of a rendering are the tokens of its pieces, whatever the layout -/
theorem render_lex (l : List Piece) (tail : Str) (h : Admissible l tail) (ht : ljSafe tail = true) :
    lex (render l tail) = l.map (fun p => tokOf p.1) ++ lex tail := by
  induction l with
  | nil => rfl
  | cons p r ih =>
    obtain ⟨t, us⟩ := p
    obtain ⟨h1, h2, h3, h4⟩ := h
    obtain ⟨cls, hc⟩ := Option.isSome_iff_exists.mp h1
    simp only [render, List.map_cons, List.cons_append]
    rw [skip_insertion t cls us _ hc h2 (ljSafe_render r tail h4 ht) h3, ih h4]

/-- **layout_irrelevant_tokens**: two renderings of the same token texts — any admissible separators between the tokens,
any leading separator, any tail that lexes to nothing (e.g. an unterminated comment) — give the same token sequence. -/
theorem layout_irrelevant_tokens (lead₁ lead₂ : List SepUnit) (l₁ l₂ : List Piece) (tail₁ tail₂ : Str)
    (hl₁ : ∀ u ∈ lead₁, u.ok = true) (hl₂ : ∀ u ∈ lead₂, u.ok = true)
    (a₁ : Admissible l₁ tail₁) (a₂ : Admissible l₂ tail₂)
    (t₁ : ljSafe tail₁ = true) (t₂ : ljSafe tail₂ = true) (e₁ : lex tail₁ = []) (e₂ : lex tail₂ = [])
    (same : l₁.map (·.1) = l₂.map (·.1)) :
    lex (sepText lead₁ ++ render l₁ tail₁) = lex (sepText lead₂ ++ render l₂ tail₂) := by
  rw [lex_sep lead₁ _ hl₁ (ljSafe_render l₁ tail₁ a₁ t₁), lex_sep lead₂ _ hl₂ (ljSafe_render l₂ tail₂ a₂ t₂),
    render_lex l₁ tail₁ a₁ t₁, render_lex l₂ tail₂ a₂ t₂, e₁, e₂]
  have : l₁.map (fun p => tokOf p.1) = l₂.map (fun p => tokOf p.1) := by
    have h1 : l₁.map (fun p => tokOf p.1) = (l₁.map (·.1)).map tokOf := by simp
    have h2 : l₂.map (fun p => tokOf p.1) = (l₂.map (·.1)).map tokOf := by simp
    rw [h1, h2, same]
  rw [this]

end ESV.Lex
