import ESV.Lex.Classes
/-
Remaining token classes (punctuation, numbers, strings), then the two facts about `classify` / `safeBoundary`:
`lexOne_token` (a classified text is exactly one non-skip token) and `lexOne_append` (… also in front of a safe boundary).
-/
namespace ESV.Lex
open ESV ESV.Lit

/-! ### punctuation tokens -/

theorem litOk_cons (c : Char) (l' : Str) (h : litOk (c :: l') = true) :
    c ≠ FF ∧ c ≠ '$' ∧ c ≠ '~' ∧ c ≠ SQ ∧ c ≠ DQ ∧ isSpaceCh c = false ∧ c ≠ '\\' ∧ isDigit c = false ∧ c ≠ '.' ∧
    (c = '-' → ∃ d r, l' = d :: r ∧ isDigit d = false ∧ d ≠ '.') ∧
    (c = '/' → ∃ d r, l' = d :: r ∧ d ≠ '/' ∧ d ≠ '*') := by
  simp only [litOk, Bool.and_eq_true, Bool.not_eq_true', decide_eq_true_eq, ne_eq, Bool.or_eq_true] at h
  obtain ⟨-, ⟨⟨⟨⟨⟨⟨⟨⟨⟨⟨h0, h1⟩, h2⟩, h3⟩, h4⟩, h5⟩, h6⟩, h7⟩, h8⟩, h9⟩, h10⟩⟩ := h
  refine ⟨h0, h1, h2, h3, h4, h5, h6, h7, h8, ?_, ?_⟩
  · intro hc
    cases l' with
    | nil => simp [hc] at h9
    | cons d r => simp [hc] at h9; exact ⟨d, r, rfl, h9.1, h9.2⟩
  · intro hc
    cases l' with
    | nil => simp [hc] at h10
    | cons d r => simp [hc] at h10; exact ⟨d, r, rfl, h10.1, h10.2⟩

theorem noExt_spec (t : Str) (c : Char) (h : noExt t c = true) (l : Str × Nat) (hl : l ∈ litTable) : ¬ (t ++ [c] <+: l.1) := by
  simp only [noExt, List.all_eq_true] at h
  have := h l hl
  intro hp
  rw [List.isPrefixOf_iff_prefix.mpr hp] at this
  cases this

theorem stable_sym (t rest : Str) (hs : isSym t = true) (hx : ∀ c r, rest = c :: r → noExt t c = true) : Stable t rest := by
  simp only [isSym, Bool.and_eq_true, List.any_eq_true, decide_eq_true_eq] at hs
  obtain ⟨⟨l0, hl0, rfl⟩, hn⟩ := hs
  have hok := lit_ok l0 hl0
  cases ht : l0.1 with
  | nil => rw [ht] at hok; simp [litOk] at hok
  | cons c0 t' =>
    rw [ht] at hok hn hx
    obtain ⟨h0, h1, h2, h3, h4, h5, h6, h7, h8, h9, h10⟩ := litOk_cons c0 t' hok
    have hid : isIdChar c0 = false := by
      simp only [List.all_cons, Bool.and_eq_true, Bool.not_eq_true'] at hn; exact hn.1
    have hst := (not_idChar c0 hid).1
    apply stable_of
    · intro l hl
      apply litRule_stable
      intro c r hr
      exact noExt_spec _ c (hx c r hr) l hl
    · exact head_stable _ _ _ _ (fun s => tokSingle_head c0 s h3 h4)
    · exact head_stable _ _ _ _ (fun s => tokMulti_head c0 s h3 h4)
    · exact head_stable _ _ _ _ (fun s => identLen_head c0 s hst)
    · exact head_stable _ _ _ _ (fun s => sigilLen_head _ c0 s h1)
    · exact head_stable _ _ _ _ (fun s => sigilLen_head _ c0 s h2)
    · by_cases hm : c0 = '-'
      · obtain ⟨d, t'', rfl, hd1, hd2⟩ := h9 hm
        subst hm
        simp only [List.cons_append, intLen, if_true]
        rw [uintLen_head d _ hd1, uintLen_head d _ hd1]
      · exact head_stable _ _ _ _ (fun s => intLen_head c0 s hm h7)
    · by_cases hm : c0 = '-'
      · obtain ⟨d, t'', rfl, hd1, hd2⟩ := h9 hm
        subst hm
        simp only [List.cons_append, decLen, if_true]
        rw [udecLen_head d _ hd1 hd2, udecLen_head d _ hd1 hd2]
      · exact head_stable _ _ _ _ (fun s => decLen_head c0 s hm h7 h8)
    · by_cases hm : c0 = '/'
      · obtain ⟨d, t'', rfl, hd1, hd2⟩ := h10 hm
        subst hm
        simp [skipLen, isSpaceCh, hd1, hd2]
      · exact head_stable _ _ _ _ (fun s => skipLen_head c0 s h5 hm h6)
    · rfl

/-! ### numbers -/

/-- the text starts like a number: a digit or a dot, possibly after a minus sign -/
def NumHead (t : Str) : Prop :=
  ∃ c r, t = c :: r ∧ ((isDigit c = true ∨ c = '.') ∨ (c = '-' ∧ ∃ d r', r = d :: r' ∧ (isDigit d = true ∨ d = '.')))

theorem numHead_append (t rest : Str) (h : NumHead t) : NumHead (t ++ rest) := by
  obtain ⟨c, r, rfl, h⟩ := h
  refine ⟨c, r ++ rest, rfl, ?_⟩
  rcases h with h | ⟨h1, d, r', rfl, h2⟩
  · exact Or.inl h
  · exact Or.inr ⟨h1, d, r' ++ rest, rfl, h2⟩

theorem uintLen_some_head (s : Str) (n : Nat) (h : uintLen s = some n) : ∃ c r, s = c :: r ∧ isDigit c = true := by
  cases s with
  | nil => simp [uintLen] at h
  | cons c r =>
    refine ⟨c, r, rfl, ?_⟩
    cases hd : isDigit c with
    | true => rfl
    | false => rw [uintLen_head c r hd] at h; cases h

theorem udecLen_some_head (s : Str) (n : Nat) (h : udecLen s = some n) : ∃ c r, s = c :: r ∧ (isDigit c = true ∨ c = '.') := by
  cases s with
  | nil => simp [udecLen] at h
  | cons c r =>
    refine ⟨c, r, rfl, ?_⟩
    cases hd : isDigit c with
    | true => exact Or.inl rfl
    | false =>
      by_cases hdot : c = '.'
      · exact Or.inr hdot
      · rw [udecLen_head c r hd hdot] at h; cases h

theorem numHead_of_int (t : Str) (n : Nat) (h : intLen t = some n) : NumHead t := by
  cases t with
  | nil => simp [intLen] at h
  | cons c r =>
    simp only [intLen] at h
    split at h
    · rename_i hm
      cases hu : uintLen r with
      | none => simp [hu] at h
      | some k =>
        obtain ⟨d, r', rfl, hd⟩ := uintLen_some_head r k hu
        exact ⟨c, _, rfl, Or.inr ⟨hm, d, r', rfl, Or.inl hd⟩⟩
    · obtain ⟨d, r', he, hd⟩ := uintLen_some_head _ n h
      simp only [List.cons.injEq] at he
      exact ⟨c, r, rfl, Or.inl (Or.inl (he.1 ▸ hd))⟩

theorem numHead_of_dec (t : Str) (n : Nat) (h : decLen t = some n) : NumHead t := by
  cases t with
  | nil => simp [decLen] at h
  | cons c r =>
    simp only [decLen] at h
    split at h
    · rename_i hm
      cases hu : udecLen r with
      | none => simp [hu] at h
      | some k =>
        obtain ⟨d, r', rfl, hd⟩ := udecLen_some_head r k hu
        exact ⟨c, _, rfl, Or.inr ⟨hm, d, r', rfl, hd⟩⟩
    · obtain ⟨d, r', he, hd⟩ := udecLen_some_head _ n h
      simp only [List.cons.injEq] at he
      exact ⟨c, r, rfl, Or.inl (he.1 ▸ hd)⟩

/-- no fixed-string token starts like a number -/
theorem litRule_num (l : Str) (hok : litOk l = true) (s : Str) (hs : NumHead s) : litRule l s = none := by
  apply litRule_none
  intro hp
  obtain ⟨c, r, rfl, h⟩ := hs
  cases l with
  | nil => simp [litOk] at hok
  | cons a l' =>
    have hac := (List.cons_prefix_cons.mp hp)
    obtain ⟨rfl, hp'⟩ := hac
    obtain ⟨h0, h1, h2, h3, h4, h5, h6, h7, h8, h9, h10⟩ := litOk_cons _ l' hok
    rcases h with (h | h) | ⟨hm, d, r', rfl, h⟩
    · rw [h7] at h; cases h
    · exact h8 h
    · obtain ⟨e, l'', rfl, he1, he2⟩ := h9 hm
      obtain ⟨rfl, -⟩ := List.cons_prefix_cons.mp hp'
      rcases h with h | h
      · rw [he1] at h; cases h
      · exact he2 h

theorem stable_num (t rest : Str) (hn : NumHead t) (hr : EndsNum rest) : Stable t rest := by
  have hn' := numHead_append t rest hn
  obtain ⟨c0, t', rfl, hc⟩ := hn
  have hq : ∀ k : Char, isDigit k = false → k ≠ '.' → k ≠ '-' → c0 ≠ k := by
    rintro k h1 h2 h3 rfl
    rcases hc with (h | h) | ⟨h, -⟩
    · rw [h1] at h; cases h
    · exact h2 h
    · exact h3 h
  have hst : isIdStart c0 = false := by
    rcases hc with (h | h) | ⟨h, -⟩
    · cases hs : isIdStart c0 with
      | false => rfl
      | true => rw [idStart_not_digit c0 hs] at h; cases h
    · subst h; decide
    · subst h; decide
  have hsp : isSpaceCh c0 = false := by
    cases hs : isSpaceCh c0 with
    | false => rfl
    | true =>
      simp only [isSpaceCh, Bool.or_eq_true, decide_eq_true_eq] at hs
      rcases hs with ((hs | hs) | hs) | hs <;> exact absurd hs (hq _ (by decide) (by decide) (by decide))
  have hrid := endsId_of_endsNum rest hr
  apply stable_of
  · intro l hl
    rw [litRule_num _ (lit_ok l hl) _ hn', litRule_num _ (lit_ok l hl) _ ⟨c0, t', rfl, hc⟩]
  · exact head_stable _ _ _ _ (fun s => tokSingle_head c0 s (hq _ (by decide) (by decide) (by decide)) (hq _ (by decide) (by decide) (by decide)))
  · exact head_stable _ _ _ _ (fun s => tokMulti_head c0 s (hq _ (by decide) (by decide) (by decide)) (hq _ (by decide) (by decide) (by decide)))
  · exact head_stable _ _ _ _ (fun s => identLen_head c0 s hst)
  · exact head_stable _ _ _ _ (fun s => sigilLen_head _ c0 s (hq _ (by decide) (by decide) (by decide)))
  · exact head_stable _ _ _ _ (fun s => sigilLen_head _ c0 s (hq _ (by decide) (by decide) (by decide)))
  · exact intLen_stable _ _ (by simp) hrid
  · exact decLen_stable _ _ (by simp) hr
  · exact head_stable _ _ _ _ (fun s => skipLen_head c0 s hsp (hq _ (by decide) (by decide) (by decide)) (hq _ (by decide) (by decide) (by decide)))
  · rfl

/-! ### strings -/

/-- everything except the two string rules is excluded by an opening quote -/
theorem stable_quote (q : Char) (body rest : Str) (hq : q = SQ ∨ q = DQ)
    (h1 : tokSingle ((q :: body) ++ rest) = tokSingle (q :: body)) (h2 : tokMulti ((q :: body) ++ rest) = tokMulti (q :: body)) :
    Stable (q :: body) rest := by
  have hne : ∀ k : Char, k ≠ SQ → k ≠ DQ → q ≠ k := by rintro k h1 h2 rfl; rcases hq with h | h <;> simp_all
  have hst : isIdStart q = false := by rcases hq with h | h <;> (subst h; decide)
  have hd : isDigit q = false := by rcases hq with h | h <;> (subst h; decide)
  have hsp : isSpaceCh q = false := by rcases hq with h | h <;> (subst h; decide)
  apply stable_of
  · intro l hl
    have hok := lit_ok l hl
    have hnn := litOk_ne_nil _ hok
    have hh : l.1.head? ≠ some q := by
      cases hl1 : l.1 with
      | nil => simp
      | cons a b =>
        rw [hl1] at hok
        simp only [litOk, Bool.and_eq_true, Bool.not_eq_true', decide_eq_true_eq, ne_eq] at hok
        simp only [List.head?_cons, ne_eq, Option.some.injEq]
        rintro rfl
        rcases hq with h | h <;> simp_all
    rw [List.cons_append, litRule_head _ _ _ hnn hh, litRule_head _ _ _ hnn hh]
  · exact h1
  · exact h2
  · exact head_stable _ _ _ _ (fun s => identLen_head q s hst)
  · exact head_stable _ _ _ _ (fun s => sigilLen_head _ q s (hne _ (by decide) (by decide)))
  · exact head_stable _ _ _ _ (fun s => sigilLen_head _ q s (hne _ (by decide) (by decide)))
  · exact head_stable _ _ _ _ (fun s => intLen_head q s (hne _ (by decide) (by decide)) hd)
  · exact head_stable _ _ _ _ (fun s => decLen_head q s (hne _ (by decide) (by decide)) hd (hne _ (by decide) (by decide)))
  · exact head_stable _ _ _ _ (fun s => skipLen_head q s hsp (hne _ (by decide) (by decide)) (hne _ (by decide) (by decide)))
  · rfl

theorem tokSingle_quote (t : Str) (n : Nat) (h : tokSingle t = some n) : ∃ q body, t = q :: body ∧ (q = SQ ∨ q = DQ) := by
  cases t with
  | nil => simp [tokSingle] at h
  | cons c cs =>
    simp only [tokSingle] at h
    split at h
    · rename_i hq; simp only [Bool.or_eq_true, decide_eq_true_eq] at hq; exact ⟨c, cs, rfl, hq⟩
    · simp at h

theorem tokMulti_quote (t : Str) (n : Nat) (h : tokMulti t = some n) :
    ∃ q body, t = q :: q :: q :: body ∧ (q = SQ ∨ q = DQ) := by
  match t, h with
  | a :: b :: c :: r, h =>
    simp only [tokMulti] at h
    split at h
    · rename_i hq
      simp only [Bool.and_eq_true, Bool.or_eq_true, decide_eq_true_eq] at hq
      obtain ⟨⟨hq, rfl⟩, rfl⟩ := hq
      exact ⟨_, r, rfl, hq⟩
    · simp at h
  | [], h => simp [tokMulti] at h
  | [_], h => simp [tokMulti] at h
  | [_, _], h => simp [tokMulti] at h

/-- STRING_LITERAL token in front of a text that does not turn an empty string into the start of a triple quote -/
theorem stable_str1 (t rest : Str) (h : tokSingle t = some t.length) (hb : ¬ (t.length = 2 ∧ rest.head? = t.head?)) :
    Stable t rest := by
  obtain ⟨q, body, rfl, hq⟩ := tokSingle_quote t _ h
  apply stable_quote q body rest hq
  · rw [tokSingle_append _ rest _ h, h]
  · have hb1 : tokSingleBody q body 1 = some (body.length + 1) := by
      simpa [tokSingle, hq] using h
    match body, hb1, hb with
    | [], hb1, _ => simp [tokSingleBody] at hb1
    | [x], hb1, hb =>
      by_cases hx : x = q
      · subst hx
        cases rest with
        | nil => rfl
        | cons c r =>
          have : c ≠ x := by intro hc; apply hb; simp [hc]
          simp [tokMulti, this]
      · unfold tokSingleBody at hb1
        simp only [hx, if_false] at hb1
        split at hb1
        · simp at hb1
        · split at hb1
          · simp at hb1
          · simp [tokSingleBody] at hb1
    | x :: y :: body', hb1, _ =>
      by_cases hx : x = q
      · subst hx; unfold tokSingleBody at hb1; simp at hb1
      · simp [tokMulti, hx]

theorem stable_str3 (t rest : Str) (h : tokMulti t = some t.length) : Stable t rest := by
  obtain ⟨q, body, rfl, hq⟩ := tokMulti_quote t _ h
  apply stable_quote q _ rest hq
  · have : tokSingle (q :: q :: q :: body) = some 2 := by
      unfold tokSingle tokSingleBody; simp [hq]
    rw [tokSingle_append _ rest _ this, this]
  · rw [tokMulti_append _ rest _ h, h]

/-! ### a classified text is exactly one token -/

theorem mem_cands (r : Nat × Rule) (hr : r ∈ rules) (s : Str) (n : Nat) (h : r.2 s = some n) : (r.1, n) ∈ cands s := by
  simp only [cands, List.mem_filterMap]
  exact ⟨r, hr, by simp [h]⟩

theorem cands_bound (s : Str) (d : Nat × Nat) (hd : d ∈ cands s) : 0 < d.2 ∧ d.2 ≤ s.length := by
  simp only [cands, List.mem_filterMap] at hd
  obtain ⟨r, hr, he⟩ := hd
  cases hn : r.2 s with
  | none => simp [hn] at he
  | some n => simp [hn] at he; subst he; exact rules_bounded r hr s n hn

/-- every step of the lexer consumes at least one character and stays inside the input -/
theorem lexOne_bound (s : Str) (ty n : Nat) (h : lexOne s = some (ty, n)) : 0 < n ∧ n ≤ s.length :=
  cands_bound s (ty, n) (pick_mem _ _ h)

theorem lexOne_full (s : Str) (ty0 : Nat) (f : Rule) (hr : (ty0, f) ∈ rules) (h : f s = some s.length) :
    ∃ ty, ty ≤ ty0 ∧ lexOne s = some (ty, s.length) :=
  pick_full (cands s) ty0 s.length (mem_cands (ty0, f) hr s _ h) (fun d hd => (cands_bound s d hd).2)

theorem rule_mem_other (r : Nat × Rule) (h : r ∈ otherRules) : r ∈ rules := List.mem_append_right _ h

theorem classify_spec (t : Str) (cls : Cls) (h : classify t = some cls) :
    match cls with
    | .sym => isSym t = true
    | .word => isWord t = true
    | .sigil => isSigil t = true
    | .int => isInt t = true
    | .dec => isDec t = true
    | .str3 => isStr3 t = true
    | .str1 => isStr1 t = true := by
  unfold classify at h
  repeat' split at h
  all_goals first | (cases h; assumption) | cases h

theorem isWord_spec (t : Str) (h : isWord t = true) : ∃ c w, t = c :: w ∧ isIdStart c = true ∧ w.all isIdChar = true := by
  cases t with
  | nil => simp [isWord] at h
  | cons c w => simp only [isWord, Bool.and_eq_true] at h; exact ⟨c, w, rfl, h.1, h.2⟩

theorem isSigil_spec (t : Str) (h : isSigil t = true) :
    ∃ g c w, t = g :: c :: w ∧ (g = '$' ∨ g = '~') ∧ isIdStart c = true ∧ w.all isIdChar = true := by
  cases t with
  | nil => simp [isSigil] at h
  | cons g w =>
    simp only [isSigil, Bool.and_eq_true, Bool.or_eq_true, decide_eq_true_eq] at h
    obtain ⟨c, w', rfl, h1, h2⟩ := isWord_spec w h.2
    exact ⟨g, c, w', rfl, h.1, h1, h2⟩

/-- a classified text, alone, is exactly one token, and not a SKIP_ or UNKNOWN_CHAR token -/
theorem lexOne_token (t : Str) (cls : Cls) (h : classify t = some cls) :
    ∃ ty, ty < T_SKIP ∧ lexOne t = some (ty, t.length) := by
  have hty := types_ok
  obtain ⟨_, t1, t2, t3, t4, t5, t6, t7, t8, _, _, tl⟩ := hty
  have hs := classify_spec t cls h
  cases cls with
  | sym =>
    simp only [isSym, Bool.and_eq_true, List.any_eq_true, decide_eq_true_eq] at hs
    obtain ⟨⟨l0, hl0, rfl⟩, -⟩ := hs
    have hr : (l0.2, litRule l0.1) ∈ rules := List.mem_append_left _ (List.mem_map.mpr ⟨l0, hl0, rfl⟩)
    obtain ⟨ty, hle, he⟩ := lexOne_full l0.1 _ _ hr (by simp [litRule])
    rw [List.all_eq_true] at tl
    have := tl l0 hl0
    simp only [Bool.and_eq_true, decide_eq_true_eq] at this
    exact ⟨ty, by omega, he⟩
  | word =>
    obtain ⟨c, w, rfl, h1, h2⟩ := isWord_spec t hs
    obtain ⟨ty, hle, he⟩ := lexOne_full _ T_IDENT (identLen) (rule_mem_other _ (by simp [otherRules])) (word_ident c w h1 h2)
    exact ⟨ty, by omega, he⟩
  | sigil =>
    obtain ⟨g, c, w, rfl, hg, h1, h2⟩ := isSigil_spec t hs
    have hlen : sigilLen g (g :: c :: w) = some (g :: c :: w).length := by
      simp only [sigilLen, if_true, word_ident c w h1 h2]; simp
    rcases hg with rfl | rfl
    · obtain ⟨ty, hle, he⟩ := lexOne_full _ T_VAR (sigilLen '$') (rule_mem_other _ (by simp [otherRules])) hlen
      exact ⟨ty, by omega, he⟩
    · obtain ⟨ty, hle, he⟩ := lexOne_full _ T_MACRO (sigilLen '~') (rule_mem_other _ (by simp [otherRules])) hlen
      exact ⟨ty, by omega, he⟩
  | int =>
    simp only [isInt, Bool.and_eq_true, decide_eq_true_eq] at hs
    obtain ⟨ty, hle, he⟩ := lexOne_full _ T_INT (intLen) (rule_mem_other _ (by simp [otherRules])) hs.2
    exact ⟨ty, by omega, he⟩
  | dec =>
    simp only [isDec, Bool.and_eq_true, decide_eq_true_eq] at hs
    obtain ⟨ty, hle, he⟩ := lexOne_full _ T_DEC (decLen) (rule_mem_other _ (by simp [otherRules])) hs.2
    exact ⟨ty, by omega, he⟩
  | str1 =>
    simp only [isStr1, decide_eq_true_eq] at hs
    obtain ⟨ty, hle, he⟩ := lexOne_full _ T_STRING (tokSingle) (rule_mem_other _ (by simp [otherRules])) hs
    exact ⟨ty, by omega, he⟩
  | str3 =>
    simp only [isStr3, decide_eq_true_eq] at hs
    obtain ⟨ty, hle, he⟩ := lexOne_full _ T_MULTI (tokMulti) (rule_mem_other _ (by simp [otherRules])) hs
    exact ⟨ty, by omega, he⟩

/-- … and it is lexed the same way in front of a safe boundary -/
theorem lexOne_append (t rest : Str) (cls : Cls) (h : classify t = some cls) (hb : safeBoundary t rest = true) :
    lexOne (t ++ rest) = lexOne t := by
  apply lexOne_of_stable
  have hs := classify_spec t cls h
  cases rest with
  | nil => intro r _; simp
  | cons c r =>
    simp only [safeBoundary, h] at hb
    cases cls with
    | sym =>
      apply stable_sym t _ hs
      intro c' r' he; simp only [List.cons.injEq] at he; rw [← he.1]; exact hb
    | word =>
      obtain ⟨c0, w, rfl, h1, -⟩ := isWord_spec t hs
      apply stable_word c0 w _ h1
      intro c' hc'; simp at hc'; subst hc'; simpa using hb
    | sigil =>
      obtain ⟨g, c0, w, rfl, hg, -, -⟩ := isSigil_spec t hs
      apply stable_sigil g _ _ hg
      intro c' hc'; simp at hc'; subst hc'; simpa using hb
    | int =>
      simp only [isInt, Bool.and_eq_true, decide_eq_true_eq] at hs
      apply stable_num t _ (numHead_of_int t _ hs.2)
      intro c' hc'; simp at hc'; subst hc'; simpa using hb
    | dec =>
      simp only [isDec, Bool.and_eq_true, decide_eq_true_eq] at hs
      apply stable_num t _ (numHead_of_dec t _ hs.2)
      intro c' hc'; simp at hc'; subst hc'; simpa using hb
    | str1 =>
      simp only [isStr1, decide_eq_true_eq] at hs
      apply stable_str1 t _ hs
      rintro ⟨h1, h2⟩
      simp only [h1, h2.symm, List.head?_cons, decide_true, Bool.and_self, Bool.not_true] at hb
      cases hb
    | str3 =>
      simp only [isStr3, decide_eq_true_eq] at hs
      exact stable_str3 t _ hs

end ESV.Lex
