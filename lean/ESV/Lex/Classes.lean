import ESV.Lex.Boundary
/-
Per token class: the text alone is exactly one token (`*_token`), and it stays that token in front of a safe boundary
(`stable_*`).  Then `lexOne_token` / `lexOne_append` for `classify` / `safeBoundary`.
-/
namespace ESV.Lex
open ESV ESV.Lit

/-! ### strings: the end of the token is decided inside the token -/

theorem tokSingleBody_append (q : Char) (cs : Str) (n m : Nat) (rest : Str) (h : tokSingleBody q cs n = some m) :
    tokSingleBody q (cs ++ rest) n = some m := by
  fun_induction tokSingleBody q cs n
  all_goals (try simp only [List.cons_append])
  all_goals (try unfold tokSingleBody)
  all_goals simp_all

theorem tokSingle_append (t rest : Str) (n : Nat) (h : tokSingle t = some n) : tokSingle (t ++ rest) = some n := by
  cases t with
  | nil => simp [tokSingle] at h
  | cons c cs =>
    simp only [tokSingle, List.cons_append] at h ⊢
    split at h
    · rename_i hq; simp only [hq, if_true]; exact tokSingleBody_append c cs 1 n rest h
    · simp at h

theorem findTriple_append (q : Char) (s : Str) (n m : Nat) (rest : Str) (h : findTriple q s n = some m) :
    findTriple q (s ++ rest) n = some m := by
  induction s generalizing n with
  | nil => simp [findTriple] at h
  | cons a tl ih =>
    match tl, h, ih with
    | b :: c :: r, h, ih =>
      simp only [List.cons_append, findTriple] at h ⊢
      split at h
      · rename_i hq; simp only [hq, if_true]; exact h
      · rename_i hq; simp only [hq]; exact ih _ h
    | [], h, _ => simp [findTriple] at h
    | [_], h, _ => simp [findTriple] at h
theorem tokMulti_append (t rest : Str) (n : Nat) (h : tokMulti t = some n) : tokMulti (t ++ rest) = some n := by
  match t, h with
  | a :: b :: c :: r, h =>
    simp only [tokMulti, List.cons_append] at h ⊢
    split at h
    · rename_i hq; simp only [hq, if_true]; exact findTriple_append a r 3 n rest h
    · simp at h
  | [], h => simp [tokMulti] at h
  | [_], h => simp [tokMulti] at h
  | [_, _], h => simp [tokMulti] at h

/-! ### fixed strings -/

theorem litRule_stable (l t rest : Str) (h : ∀ c r, rest = c :: r → ¬ (t ++ [c] <+: l)) :
    litRule l (t ++ rest) = litRule l t := by
  simp only [litRule]
  have : l.isPrefixOf (t ++ rest) = l.isPrefixOf t := by
    rw [Bool.eq_iff_iff]
    simp only [List.isPrefixOf_iff_prefix]
    constructor
    · intro hp
      rcases prefix_append_cases l t rest hp with h1 | ⟨c, r, hr, hx⟩
      · exact h1
      · exact absurd hx (h c r hr)
    · intro hp; exact hp.trans (List.prefix_append t rest)
  rw [this]

/-- the rules that cannot start with the first character of the token: unchanged (both sides `none`) -/
theorem head_stable (f : Rule) (c : Char) (cs rest : Str) (h : ∀ s, f (c :: s) = none) : f ((c :: cs) ++ rest) = f (c :: cs) := by
  rw [List.cons_append, h, h]

theorem endsId_of_endsNum (rest : Str) (h : EndsNum rest) : EndsId rest := fun c hc => (h c hc).1

/-! ### word: keyword or identifier -/

theorem stable_word (c0 : Char) (w rest : Str) (h0 : isIdStart c0 = true) (hr : EndsId rest) :
    Stable (c0 :: w) rest := by
  have hd := idStart_not_digit c0 h0
  have hne : ∀ k : Char, isIdStart k = false → c0 ≠ k := fun k hk => idStart_ne c0 k h0 hk
  apply stable_of
  · intro l hl
    apply litRule_stable
    intro c r hrest hp
    have hc : isIdChar c = false := hr c (by simp [hrest])
    have hok := lit_ok l hl
    simp only [litOk, Bool.and_eq_true, Bool.or_eq_true, List.all_eq_true] at hok
    have m0 : c0 ∈ l.1 := hp.subset (by simp)
    have mc : c ∈ l.1 := hp.subset (by simp)
    rcases hok.1 with ha | ha
    · have := ha c mc; rw [hc] at this; cases this
    · have := ha c0 m0; simp [idChar_of_idStart c0 h0] at this
  · exact head_stable _ _ _ _ (fun s => tokSingle_head c0 s (hne _ (by decide)) (hne _ (by decide)))
  · exact head_stable _ _ _ _ (fun s => tokMulti_head c0 s (hne _ (by decide)) (hne _ (by decide)))
  · exact identLen_stable _ _ hr
  · exact sigilLen_stable _ _ _ (by simp) hr
  · exact sigilLen_stable _ _ _ (by simp) hr
  · exact intLen_stable _ _ (by simp) hr
  · exact head_stable _ _ _ _ (fun s => decLen_head c0 s (hne _ (by decide)) hd (hne _ (by decide)))
  · exact head_stable _ _ _ _ (fun s => skipLen_head c0 s (idStart_not_space c0 h0) (hne _ (by decide)) (hne _ (by decide)))
  · rfl

theorem word_ident (c0 : Char) (w : Str) (h0 : isIdStart c0 = true) (hw : w.all isIdChar = true) :
    identLen (c0 :: w) = some (c0 :: w).length := by
  simp [identLen, h0, takeWhile_all isIdChar w hw]; omega

/-! ### sigil: VARIABLE / MACRO_CALL -/

theorem stable_sigil (g : Char) (w rest : Str) (hg : g = '$' ∨ g = '~') (hr : EndsId rest) : Stable (g :: w) rest := by
  have hg' : ∀ k : Char, k ≠ '$' → k ≠ '~' → g ≠ k := by rintro k h1 h2 rfl; rcases hg with h | h <;> simp_all
  have hns : isIdStart g = false := by rcases hg with h | h <;> (subst h; decide)
  have hnd : isDigit g = false := by rcases hg with h | h <;> (subst h; decide)
  have hsp : isSpaceCh g = false := by rcases hg with h | h <;> (subst h; decide)
  apply stable_of
  · intro l hl
    have hok := lit_ok l hl
    have hne := litOk_ne_nil _ hok
    have hh : l.1.head? ≠ some g := by
      cases hl1 : l.1 with
      | nil => simp
      | cons a b =>
        rw [hl1] at hok
        simp only [litOk, Bool.and_eq_true, Bool.not_eq_true', decide_eq_true_eq, ne_eq] at hok
        simp only [List.head?_cons, ne_eq, Option.some.injEq]
        rintro rfl
        rcases hg with h | h <;> simp_all
    rw [List.cons_append, litRule_head _ _ _ hne hh, litRule_head _ _ _ hne hh]
  · exact head_stable _ _ _ _ (fun s => tokSingle_head g s (hg' _ (by decide) (by decide)) (hg' _ (by decide) (by decide)))
  · exact head_stable _ _ _ _ (fun s => tokMulti_head g s (hg' _ (by decide) (by decide)) (hg' _ (by decide) (by decide)))
  · exact identLen_stable _ _ hr
  · exact sigilLen_stable _ _ _ (by simp) hr
  · exact sigilLen_stable _ _ _ (by simp) hr
  · exact intLen_stable _ _ (by simp) hr
  · exact head_stable _ _ _ _ (fun s => decLen_head g s (hg' _ (by decide) (by decide)) hnd (hg' _ (by decide) (by decide)))
  · exact head_stable _ _ _ _ (fun s => skipLen_head g s hsp (hg' _ (by decide) (by decide)) (hg' _ (by decide) (by decide)))
  · rfl

end ESV.Lex
