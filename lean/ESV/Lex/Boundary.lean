import ESV.Lex.Rules
/-
A token followed by a safe boundary is lexed as if it stood alone.

`Stable t rest` says that appending `rest` to `t` changes no rule's longest match; then `lexOne (t ++ rest) = lexOne t`.
Stability is shown rule by rule: most rules are excluded by the first character of the token (`*_head`), the others by a
monotonicity / look-ahead argument for the token class at hand.
-/
namespace ESV.Lex
open ESV ESV.Lit

/-! ### character facts -/

theorem isDigit_iff (c : Char) : isDigit c = true ↔ 48 ≤ c.toNat ∧ c.toNat ≤ 57 := by
  simp [isDigit]

theorem idStart_cases (c : Char) (h : isIdStart c = true) :
    (97 ≤ c.toNat ∧ c.toNat ≤ 122) ∨ (65 ≤ c.toNat ∧ c.toNat ≤ 90) ∨ c.toNat = 95 := by
  simp only [isIdStart, Bool.or_eq_true, Bool.and_eq_true, decide_eq_true_eq] at h
  rcases h with (h | h) | h
  · exact Or.inl h
  · exact Or.inr (Or.inl h)
  · subst h; exact Or.inr (Or.inr (by decide))

theorem idStart_ne (c k : Char) (h : isIdStart c = true) (hk : isIdStart k = false) : c ≠ k := by
  rintro rfl; rw [h] at hk; cases hk

theorem idStart_not_digit (c : Char) (h : isIdStart c = true) : isDigit c = false := by
  have := idStart_cases c h
  cases hd : isDigit c with
  | false => rfl
  | true => have := (isDigit_iff c).mp hd; omega

theorem idStart_not_space (c : Char) (h : isIdStart c = true) : isSpaceCh c = false := by
  cases hs : isSpaceCh c with
  | false => rfl
  | true =>
    simp only [isSpaceCh, Bool.or_eq_true, decide_eq_true_eq] at hs
    rcases hs with ((hs | hs) | hs) | hs <;> (subst hs; revert h; decide)

theorem idChar_of_idStart (c : Char) (h : isIdStart c = true) : isIdChar c = true := by simp [isIdChar, h]
theorem idChar_of_digit (c : Char) (h : isDigit c = true) : isIdChar c = true := by simp [isIdChar, h]

theorem not_idChar (c : Char) (h : isIdChar c = false) : isIdStart c = false ∧ isDigit c = false := by
  simp only [isIdChar, Bool.or_eq_false_iff] at h; exact h

theorem hex_idChar (c : Char) (h : isHexDigit c = true) : isIdChar c = true := by
  simp only [isHexDigit, digitVal] at h
  simp only [isIdChar, isIdStart, isDigit, Bool.or_eq_true, Bool.and_eq_true, decide_eq_true_eq]
  split at h
  · right; assumption
  · split at h
    · left; left; left; omega
    · split at h
      · left; left; right; omega
      · simp at h

theorem oct_idChar (c : Char) (h : isOctDigit c = true) : isIdChar c = true := by
  simp only [isOctDigit, Bool.and_eq_true, decide_eq_true_eq] at h
  simp only [isIdChar, isDigit, Bool.or_eq_true, Bool.and_eq_true, decide_eq_true_eq]
  right; omega

theorem bin_idChar (c : Char) (h : isBinDigit c = true) : isIdChar c = true := by
  simp only [isBinDigit, Bool.or_eq_true, decide_eq_true_eq] at h
  rcases h with h | h <;> (subst h; decide)

/-! ### rules excluded by the first character -/

theorem tokSingle_head (c : Char) (cs : Str) (h1 : c ≠ SQ) (h2 : c ≠ DQ) : tokSingle (c :: cs) = none := by
  simp [tokSingle, h1, h2]

theorem tokMulti_head (c : Char) (cs : Str) (h1 : c ≠ SQ) (h2 : c ≠ DQ) : tokMulti (c :: cs) = none := by
  match cs with
  | [] => simp [tokMulti]
  | [_] => simp [tokMulti]
  | _ :: _ :: _ => simp [tokMulti, h1, h2]

theorem identLen_head (c : Char) (cs : Str) (h : isIdStart c = false) : identLen (c :: cs) = none := by
  simp [identLen, h]

theorem sigilLen_head (sig c : Char) (cs : Str) (h : c ≠ sig) : sigilLen sig (c :: cs) = none := by
  simp [sigilLen, h]

theorem uintLen_head (c : Char) (cs : Str) (h : isDigit c = false) : uintLen (c :: cs) = none := by
  have h0 : c ≠ '0' := by rintro rfl; revert h; decide
  simp [uintLen, h0, h]

theorem intLen_head (c : Char) (cs : Str) (h1 : c ≠ '-') (h2 : isDigit c = false) : intLen (c :: cs) = none := by
  simp only [intLen, h1, if_false]; exact uintLen_head c cs h2

theorem udecLen_head (c : Char) (cs : Str) (h1 : isDigit c = false) (h2 : c ≠ '.') : udecLen (c :: cs) = none := by
  simp only [udecLen, List.takeWhile_cons, h1]
  simp only [Bool.false_eq_true, if_false, List.length_nil, List.drop_zero]
  split
  · rename_i r hr; simp at hr; exact absurd hr.1 h2
  · rfl

theorem decLen_head (c : Char) (cs : Str) (h1 : c ≠ '-') (h2 : isDigit c = false) (h3 : c ≠ '.') : decLen (c :: cs) = none := by
  simp only [decLen, h1, if_false]; exact udecLen_head c cs h2 h3

theorem skipLen_head (c : Char) (cs : Str) (h1 : isSpaceCh c = false) (h2 : c ≠ '/') (h3 : c ≠ '\\') : skipLen (c :: cs) = none := by
  simp [skipLen, h1, h2, h3]

theorem litRule_none (l s : Str) (h : ¬ l <+: s) : litRule l s = none := by
  simp only [litRule]
  split
  · rename_i hp; exact absurd (List.isPrefixOf_iff_prefix.mp hp) h
  · rfl

theorem litRule_head (l : Str) (c : Char) (cs : Str) (hne : l ≠ []) (h : l.head? ≠ some c) : litRule l (c :: cs) = none := by
  apply litRule_none
  intro hp
  cases l with
  | nil => exact hne rfl
  | cons a l => have := List.cons_prefix_cons.mp hp; simp at h; exact h this.1

theorem unknownLen_cons (c : Char) (cs : Str) : unknownLen (c :: cs) = some 1 := rfl

/-! ### stability -/

/-- appending `rest` to `t` changes no rule's longest match -/
def Stable (t rest : Str) : Prop := ∀ r ∈ rules, r.2 (t ++ rest) = r.2 t

theorem filterMap_congr' {α β} (f g : α → Option β) (l : List α) (h : ∀ a ∈ l, f a = g a) :
    l.filterMap f = l.filterMap g := by
  induction l with
  | nil => rfl
  | cons a l ih =>
    simp only [List.filterMap_cons, h a (by simp)]
    rw [ih (fun b hb => h b (List.mem_cons_of_mem _ hb))]

theorem lexOne_of_stable (t rest : Str) (h : Stable t rest) : lexOne (t ++ rest) = lexOne t := by
  unfold lexOne cands
  congr 1
  apply filterMap_congr'
  intro r hr
  rw [h r hr]

theorem stable_of (t rest : Str)
    (hlit : ∀ l ∈ litTable, litRule l.1 (t ++ rest) = litRule l.1 t)
    (h1 : tokSingle (t ++ rest) = tokSingle t) (h2 : tokMulti (t ++ rest) = tokMulti t)
    (h3 : identLen (t ++ rest) = identLen t) (h4 : sigilLen '$' (t ++ rest) = sigilLen '$' t)
    (h5 : sigilLen '~' (t ++ rest) = sigilLen '~' t)
    (h6 : intLen (t ++ rest) = intLen t) (h7 : decLen (t ++ rest) = decLen t) (h8 : skipLen (t ++ rest) = skipLen t)
    (h9 : unknownLen (t ++ rest) = unknownLen t) : Stable t rest := by
  intro r hr
  rcases mem_rules r hr with ⟨l, hl, rfl⟩ | ⟨l, hl, rfl⟩ | rfl | rfl | rfl | rfl | rfl | rfl | rfl | rfl | rfl
  · exact hlit l hl
  · exact hlit l hl
  · exact h1
  · exact h2
  · exact h3
  · exact h4
  · exact h5
  · exact h6
  · exact h7
  · exact h8
  · exact h9

/-- the boundary character is not an identifier character (or the text ends) -/
def EndsId (rest : Str) : Prop := ∀ c, rest.head? = some c → isIdChar c = false

/-- … and not a dot either -/
def EndsNum (rest : Str) : Prop := ∀ c, rest.head? = some c → isIdChar c = false ∧ c ≠ '.'

theorem identLen_stable (t rest : Str) (h : EndsId rest) : identLen (t ++ rest) = identLen t := by
  cases t with
  | nil =>
    cases rest with
    | nil => rfl
    | cons c r => simp only [List.nil_append]; rw [identLen_head c r (not_idChar c (h c rfl)).1]; rfl
  | cons c cs =>
    simp only [List.cons_append, identLen]
    rw [takeWhile_append_stable isIdChar cs rest h]

theorem sigilLen_stable (g : Char) (t rest : Str) (ht : t ≠ []) (h : EndsId rest) : sigilLen g (t ++ rest) = sigilLen g t := by
  cases t with
  | nil => exact absurd rfl ht
  | cons c cs => simp only [List.cons_append, sigilLen]; rw [identLen_stable cs rest h]

theorem basedLen_stable (t rest : Str) (h : EndsId rest) : basedLen (t ++ rest) = basedLen t := by
  cases t with
  | nil =>
    cases rest with
    | nil => rfl
    | cons c r =>
      have hc := h c rfl
      have hx : ∀ k : Char, isIdChar k = true → c ≠ k := by rintro k hk rfl; rw [hk] at hc; cases hc
      simp [basedLen, hx 'x' (by decide), hx 'X' (by decide), hx 'o' (by decide), hx 'O' (by decide), hx 'b' (by decide), hx 'B' (by decide)]
  | cons x ds =>
    simp only [List.cons_append, basedLen]
    split
    · rfl
    · rename_i p hp
      have hpid : ∀ c, p c = true → isIdChar c = true := by
        intro c hc
        split at hp
        · simp at hp; subst hp; exact hex_idChar c hc
        · split at hp
          · simp at hp; subst hp; exact oct_idChar c hc
          · split at hp
            · simp at hp; subst hp; exact bin_idChar c hc
            · simp at hp
      rw [takeWhile_append_stable p ds rest]
      intro c hc
      cases hpc : p c with
      | false => rfl
      | true => have := hpid c hpc; rw [h c hc] at this; cases this

theorem uintLen_stable (t rest : Str) (h : EndsId rest) : uintLen (t ++ rest) = uintLen t := by
  cases t with
  | nil =>
    cases rest with
    | nil => rfl
    | cons c r => simp only [List.nil_append]; rw [uintLen_head c r (not_idChar c (h c rfl)).2]; rfl
  | cons c cs =>
    simp only [List.cons_append, uintLen]
    rw [basedLen_stable cs rest h, takeWhile_append_stable (· = '0') cs rest, takeWhile_append_stable isDigit cs rest]
    · intro d hd; exact (not_idChar d (h d hd)).2
    · intro d hd
      have := (not_idChar d (h d hd)).2
      cases hz : decide (d = '0') with
      | false => rfl
      | true => simp at hz; subst hz; revert this; decide

theorem intLen_stable (t rest : Str) (ht : t ≠ []) (h : EndsId rest) : intLen (t ++ rest) = intLen t := by
  cases t with
  | nil => exact absurd rfl ht
  | cons c cs =>
    simp only [List.cons_append, intLen]
    split
    · rw [uintLen_stable cs rest h]
    · exact uintLen_stable (c :: cs) rest h

theorem udecLen_stable (t rest : Str) (h : EndsNum rest) : udecLen (t ++ rest) = udecLen t := by
  have hd : ∀ c, rest.head? = some c → isDigit c = false := fun c hc => (not_idChar c (h c hc).1).2
  simp only [udecLen]
  rw [takeWhile_append_stable isDigit t rest hd]
  have hle := length_takeWhile_le isDigit t
  rw [List.drop_append_of_le_length hle]
  cases hdr : t.drop (t.takeWhile isDigit).length with
  | nil =>
    simp only [List.nil_append]
    cases rest with
    | nil => rfl
    | cons c r =>
      have := (h c rfl).2
      split
      · rename_i r' hr'; simp at hr'; exact absurd hr'.1 this
      · rfl
  | cons y u =>
    simp only [List.cons_append]
    split
    · rename_i r' hr'
      simp only [List.cons.injEq] at hr'
      obtain ⟨rfl, rfl⟩ := hr'
      simp only [takeWhile_append_stable isDigit u rest hd]
    · rename_i hne
      split
      · rename_i r' hr'; simp at hr'; exact absurd hr' (by intro hh; exact hne _ (by rw [hh.1, hh.2]))
      · rfl

theorem decLen_stable (t rest : Str) (ht : t ≠ []) (h : EndsNum rest) : decLen (t ++ rest) = decLen t := by
  cases t with
  | nil => exact absurd rfl ht
  | cons c cs =>
    simp only [List.cons_append, decLen]
    split
    · rw [udecLen_stable cs rest h]
    · exact udecLen_stable (c :: cs) rest h

end ESV.Lex
