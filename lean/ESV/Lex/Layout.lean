import ESV.Lex.Tokens
/-
Separators are invisible: `lex (sep ++ rest) = lex rest` for every separator made of blanks, line comments, block comments
and line joinings; hence `skip_insertion` and the rendering theorem `render_lex`.
-/
namespace ESV.Lex
open ESV ESV.Lit

/-! ### fuel -/

theorem lexFuel_irrelevant (f : Nat) : ∀ (s : Str) (f' : Nat), s.length < f → s.length < f' → lexFuel f s = lexFuel f' s := by
  induction f with
  | zero => intro s f' h; omega
  | succ f ih =>
    intro s f' h h'
    cases f' with
    | zero => omega
    | succ f' =>
      cases s with
      | nil => rfl
      | cons c cs =>
        simp only [lexFuel]
        cases ho : lexOne (c :: cs) with
        | none => rfl
        | some p =>
          obtain ⟨ty, n⟩ := p
          have hb := lexOne_bound _ _ _ ho
          have hd : ((c :: cs).drop n).length < f := by
            simp only [List.length_drop, List.length_cons] at *; omega
          have hd' : ((c :: cs).drop n).length < f' := by
            simp only [List.length_drop, List.length_cons] at *; omega
          simp only [ih _ f' hd hd']

theorem lexFuel_cons (f : Nat) (c : Char) (cs : Str) (ty n : Nat) (h : lexOne (c :: cs) = some (ty, n)) :
    lexFuel (f + 1) (c :: cs) =
      if ty = T_SKIP then lexFuel f ((c :: cs).drop n) else ⟨ty, (c :: cs).take n⟩ :: lexFuel f ((c :: cs).drop n) := by
  simp only [lexFuel, h]

/-- one step of `lex` -/
theorem lex_step (s : Str) (ty n : Nat) (h : lexOne s = some (ty, n)) :
    lex s = if ty = T_SKIP then lex (s.drop n) else ⟨ty, s.take n⟩ :: lex (s.drop n) := by
  have hb := lexOne_bound _ _ _ h
  cases s with
  | nil => simp at hb; omega
  | cons c cs =>
    have hd : ((c :: cs).drop n).length < (c :: cs).length := by
      simp only [List.length_drop, List.length_cons] at *; omega
    have := lexFuel_irrelevant (c :: cs).length ((c :: cs).drop n) (((c :: cs).drop n).length + 1) hd (by omega)
    unfold lex
    rw [lexFuel_cons _ c cs ty n h, this]

theorem lex_nil : lex [] = [] := rfl

/-- the token a classified text is lexed to -/
def tokOf (t : Str) : Token := ⟨((lexOne t).map (·.1)).getD 0, t⟩

/-- a token followed by a safe boundary: first token of the result, and the rest is lexed on its own -/
theorem lex_token_append (t rest : Str) (cls : Cls) (hc : classify t = some cls) (hb : safeBoundary t rest = true) :
    lex (t ++ rest) = tokOf t :: lex rest := by
  obtain ⟨ty, hty, he⟩ := lexOne_token t cls hc
  have ha := lexOne_append t rest cls hc hb
  rw [he] at ha
  rw [lex_step _ _ _ ha]
  have hne : ty ≠ T_SKIP := by omega
  simp only [hne, if_false, List.take_left', List.drop_left', tokOf, he]
  simp

theorem tokOf_ty (t : Str) (cls : Cls) (hc : classify t = some cls) : (tokOf t).ty < T_SKIP ∧ (tokOf t).text = t := by
  obtain ⟨ty, hty, he⟩ := lexOne_token t cls hc
  simp [tokOf, he, hty]

/-! ### text starting with a blank, `/` + `/`|`*`, or a backslash: only SKIP_ and UNKNOWN_CHAR can match -/

def SepStart (c0 : Char) (s' : Str) : Prop :=
  isSpaceCh c0 = true ∨ c0 = '\\' ∨ (c0 = '/' ∧ ∃ d r, s' = d :: r ∧ (d = '/' ∨ d = '*'))

theorem sepStart_char (c0 : Char) (s' : Str) (h : SepStart c0 s') :
    c0 = ' ' ∨ c0 = '\t' ∨ c0 = '\n' ∨ c0 = '\r' ∨ c0 = '\\' ∨ c0 = '/' := by
  rcases h with h | h | ⟨h, -⟩
  · simp only [isSpaceCh, Bool.or_eq_true, decide_eq_true_eq] at h
    rcases h with ((h | h) | h) | h <;> simp [h]
  · simp [h]
  · simp [h]

theorem cands_sep (c0 : Char) (s' : Str) (hc : SepStart c0 s') (d : Nat × Nat) (hd : d ∈ cands (c0 :: s')) :
    (d.1 = T_SKIP ∧ skipLen (c0 :: s') = some d.2) ∨ d = (T_UNKNOWN, 1) := by
  simp only [cands, List.mem_filterMap] at hd
  obtain ⟨r, hr, he⟩ := hd
  have hch := sepStart_char c0 s' hc
  have hq : ∀ k : Char, k ≠ ' ' → k ≠ '\t' → k ≠ '\n' → k ≠ '\r' → k ≠ '\\' → k ≠ '/' → c0 ≠ k := by
    rintro k h1 h2 h3 h4 h5 h6 rfl; rcases hch with h | h | h | h | h | h <;> simp_all
  have hst : isIdStart c0 = false := by rcases hch with h | h | h | h | h | h <;> (subst h; decide)
  have hdg : isDigit c0 = false := by rcases hch with h | h | h | h | h | h <;> (subst h; decide)
  have hlit : ∀ l ∈ litTable, litRule l.1 (c0 :: s') = none := by
    intro l hl
    have hok := lit_ok l hl
    cases hl1 : l.1 with
    | nil => rw [hl1] at hok; simp [litOk] at hok
    | cons a l' =>
      rw [hl1] at hok
      obtain ⟨h0, h1, h2, h3, h4, h5, h6, h7, h8, h9, h10⟩ := litOk_cons a l' hok
      apply litRule_none
      intro hp
      obtain ⟨rfl, hp'⟩ := List.cons_prefix_cons.mp hp
      rcases hc with hc | hc | ⟨hc, d', r', rfl, hd'⟩
      · rw [h5] at hc; cases hc
      · exact h6 hc
      · obtain ⟨e, l'', rfl, he1, he2⟩ := h10 hc
        obtain ⟨rfl, -⟩ := List.cons_prefix_cons.mp hp'
        rcases hd' with h | h
        · exact he1 h
        · exact he2 h
  have hnone : ∀ f : Rule, f (c0 :: s') = none → (f (c0 :: s')).map (fun n => (r.1, n)) = some d → False := by
    intro f hf hm; rw [hf] at hm; cases hm
  rcases mem_rules r hr with ⟨l, hl, rfl⟩ | ⟨l, hl, rfl⟩ | rfl | rfl | rfl | rfl | rfl | rfl | rfl | rfl | rfl
  · exact (hnone _ (hlit l hl) he).elim
  · exact (hnone _ (hlit l hl) he).elim
  · exact (hnone _ (tokSingle_head c0 s' (hq _ (by decide) (by decide) (by decide) (by decide) (by decide) (by decide))
      (hq _ (by decide) (by decide) (by decide) (by decide) (by decide) (by decide))) he).elim
  · exact (hnone _ (tokMulti_head c0 s' (hq _ (by decide) (by decide) (by decide) (by decide) (by decide) (by decide))
      (hq _ (by decide) (by decide) (by decide) (by decide) (by decide) (by decide))) he).elim
  · exact (hnone _ (identLen_head c0 s' hst) he).elim
  · exact (hnone _ (sigilLen_head _ c0 s' (hq _ (by decide) (by decide) (by decide) (by decide) (by decide) (by decide))) he).elim
  · exact (hnone _ (sigilLen_head _ c0 s' (hq _ (by decide) (by decide) (by decide) (by decide) (by decide) (by decide))) he).elim
  · exact (hnone _ (intLen_head c0 s' (hq _ (by decide) (by decide) (by decide) (by decide) (by decide) (by decide)) hdg) he).elim
  · exact (hnone _ (decLen_head c0 s' (hq _ (by decide) (by decide) (by decide) (by decide) (by decide) (by decide)) hdg
      (hq _ (by decide) (by decide) (by decide) (by decide) (by decide) (by decide))) he).elim
  · left
    cases hn : skipLen (c0 :: s') with
    | none => simp [hn] at he
    | some n => simp [hn] at he; subst he; exact ⟨rfl, rfl⟩
  · right
    simp [unknownLen] at he; exact he.symm

/-- there the SKIP_ rule wins -/
theorem lexOne_skip (c0 : Char) (s' : Str) (hc : SepStart c0 s') (n : Nat) (hn : skipLen (c0 :: s') = some n) :
    lexOne (c0 :: s') = some (T_SKIP, n) := by
  have hrule : (T_SKIP, skipLen) ∈ rules := rule_mem_other _ (by simp [otherRules])
  apply pick_best _ _ (mem_cands _ hrule _ _ hn)
  intro d hd
  rcases cands_sep c0 s' hc d hd with ⟨h1, h2⟩ | h
  · rw [hn] at h2; simp at h2; right; exact ⟨h2.symm, by simp [h1]⟩
  · subst h
    have := (skipLen_bounded _ _ hn).1
    have ht := types_ok.1
    simp only
    omega

theorem lex_skip (c0 : Char) (s' : Str) (hc : SepStart c0 s') (n : Nat) (hn : skipLen (c0 :: s') = some n) :
    lex (c0 :: s') = lex ((c0 :: s').drop n) := by
  rw [lex_step _ _ _ (lexOne_skip c0 s' hc n hn)]; simp

/-! ### blanks -/

theorem mem_takeWhile_sat {α} (p : α → Bool) (l : List α) (x : α) (h : x ∈ l.takeWhile p) : p x = true := by
  induction l with
  | nil => simp at h
  | cons a l ih =>
    simp only [List.takeWhile_cons] at h
    split at h
    · rcases List.mem_cons.mp h with h1 | h1
      · subst h1; assumption
      · exact ih h1
    · simp at h

theorem head_dropWhile {α} (p : α → Bool) (l : List α) (c : α) (h : (l.dropWhile p).head? = some c) : p c = false := by
  induction l with
  | nil => simp at h
  | cons a l ih =>
    simp only [List.dropWhile_cons] at h
    split at h
    · exact ih h
    · simp at h; subst h; simpa using ‹¬ p a = true›

theorem lex_spaces_exact (w r : Str) (hall : w.all isSpaceCh = true) (hr : ∀ c, r.head? = some c → isSpaceCh c = false) :
    lex (w ++ r) = lex r := by
  cases w with
  | nil => rfl
  | cons c0 w' =>
    simp only [List.all_cons, Bool.and_eq_true] at hall
    have hn : skipLen (c0 :: (w' ++ r)) = some (1 + w'.length) := by
      simp only [skipLen, hall.1, if_true]
      rw [takeWhile_all_append isSpaceCh w' r hall.2]
      have : r.takeWhile isSpaceCh = [] := by
        cases r with
        | nil => rfl
        | cons x r' => simp [hr x rfl]
      simp [this]
    rw [List.cons_append, lex_skip c0 _ (Or.inl hall.1) _ hn]
    have : (c0 :: (w' ++ r)).drop (1 + w'.length) = r := by
      rw [Nat.add_comm]; simp
    rw [this]

/-- blanks in front of any text are invisible -/
theorem lex_spaces (w r : Str) (hall : w.all isSpaceCh = true) : lex (w ++ r) = lex r := by
  have hsplit := List.takeWhile_append_dropWhile (p := isSpaceCh) (l := r)
  have h2 : (r.takeWhile isSpaceCh).all isSpaceCh = true := by
    rw [List.all_eq_true]; intro x hx; exact mem_takeWhile_sat _ _ _ hx
  have hh := head_dropWhile isSpaceCh r
  have e1 : lex (w ++ r) = lex (r.dropWhile isSpaceCh) := by
    conv => lhs; rw [← hsplit, ← List.append_assoc]
    apply lex_spaces_exact _ _ _ hh
    simp [hall, h2]
  have e2 : lex r = lex (r.dropWhile isSpaceCh) := by
    conv => lhs; rw [← hsplit]
    exact lex_spaces_exact _ _ h2 hh
  rw [e1, e2]

/-! ### comments -/

theorem lex_lineComment (b : Str) (e : Char) (rest : Str) (hb : b.all notEol = true) (he : e = '\n' ∨ e = '\r') :
    lex ('/' :: '/' :: (b ++ [e]) ++ rest) = lex rest := by
  have hne : notEol e = false := by rcases he with h | h <;> (subst h; decide)
  have hsp : isSpaceCh e = true := by rcases he with h | h <;> (subst h; decide)
  have hn : skipLen ('/' :: '/' :: (b ++ e :: rest)) = some (2 + b.length) := by
    simp only [skipLen]
    rw [takeWhile_all_append notEol b _ hb]
    simp [isSpaceCh, hne]
  have e1 : '/' :: '/' :: (b ++ [e]) ++ rest = '/' :: ('/' :: (b ++ e :: rest)) := by simp
  rw [e1, lex_skip '/' _ (Or.inr (Or.inr ⟨rfl, '/', _, rfl, Or.inl rfl⟩)) _ hn]
  have : ('/' :: '/' :: (b ++ e :: rest)).drop (2 + b.length) = [e] ++ rest := by
    rw [Nat.add_comm]; simp
  rw [this]
  exact lex_spaces [e] rest (by simp [hsp])

theorem blockEnd_noClose (b rest : Str) (n : Nat) (h : noClose (b ++ ['*']) = true) :
    blockEnd (b ++ '*' :: '/' :: rest) n = n + b.length + 2 := by
  induction b generalizing n with
  | nil => simp [blockEnd]
  | cons c b' ih =>
    simp only [List.cons_append, noClose, Bool.and_eq_true, Bool.not_eq_true'] at h
    simp only [List.cons_append, blockEnd]
    have hcond : ¬ (c = '*' ∧ (b' ++ '*' :: '/' :: rest).head? = some '/') := by
      rintro ⟨h1, h2⟩
      have h3 := h.1
      cases b' with
      | nil => simp at h2
      | cons x b'' => simp at h2; simp [h1, h2] at h3
    simp only [hcond, if_false]
    rw [ih (n + 1) h.2]
    simp; omega


theorem lex_blockComment (b rest : Str) (hb : noClose (b ++ ['*']) = true) :
    lex ('/' :: '*' :: (b ++ ['*', '/']) ++ rest) = lex rest := by
  have hn : skipLen ('/' :: '*' :: (b ++ '*' :: '/' :: rest)) = some (2 + b.length + 2) := by
    simp only [skipLen]
    rw [blockEnd_noClose b rest 2 hb]
    simp [isSpaceCh]
  have e1 : '/' :: '*' :: (b ++ ['*', '/']) ++ rest = '/' :: ('*' :: (b ++ '*' :: '/' :: rest)) := by simp
  rw [e1, lex_skip '/' _ (Or.inr (Or.inr ⟨rfl, '*', _, rfl, Or.inr rfl⟩)) _ hn]
  have : ('/' :: '*' :: (b ++ '*' :: '/' :: rest)).drop (2 + b.length + 2) = rest := by
    have : 2 + b.length + 2 = (b.length + 2) + 2 := by omega
    rw [this]
    simp only [List.drop_succ_cons]
    have h2 : b ++ '*' :: '/' :: rest = (b ++ ['*', '/']) ++ rest := by simp
    rw [h2]
    have h3 : b.length + 2 = (b ++ ['*', '/']).length := by simp
    rw [h3, List.drop_left']
    rfl
  rw [this]

/-! ### line joining -/

/-- scanning through blanks: the best end so far stays, or moves to a position inside the blanks -/
theorem ljScan_blanks (w s' : Str) (n : Nat) (best : Option Nat) (hw : w.all isSpaceCh = true) :
    ∃ best', ljScan (w ++ s') n best = ljScan s' (n + w.length) best' ∧
      (best' = best ∨ ∃ j, best' = some j ∧ n < j ∧ j ≤ n + w.length) := by
  induction w generalizing n best with
  | nil => exact ⟨best, by simp, Or.inl rfl⟩
  | cons c w' ih =>
    simp only [List.all_cons, Bool.and_eq_true] at hw
    simp only [List.cons_append, ljScan]
    split
    · obtain ⟨b', h1, h2⟩ := ih (n + 1) (some (n + 1)) hw.2
      refine ⟨b', by rw [h1]; congr 1; simp; omega, Or.inr ?_⟩
      rcases h2 with h2 | ⟨j, h2, h3, h4⟩
      · exact ⟨n + 1, h2, by omega, by simp⟩
      · exact ⟨j, h2, by omega, by simp only [List.length_cons]; omega⟩
    · rename_i hnl
      have hsp : (c = ' ' || c = '\t') = true := by
        have := hw.1
        simp only [isSpaceCh, Bool.or_eq_true, decide_eq_true_eq] at this hnl ⊢
        rcases this with ((h | h) | h) | h
        · exact Or.inl h
        · exact Or.inr h
        · exact absurd (Or.inl h) hnl
        · exact absurd (Or.inr h) hnl
      simp only [hsp, if_true]
      obtain ⟨b', h1, h2⟩ := ih (n + 1) best hw.2
      refine ⟨b', by rw [h1]; congr 1; simp; omega, ?_⟩
      rcases h2 with h2 | ⟨j, h2, h3, h4⟩
      · exact Or.inl h2
      · exact Or.inr ⟨j, h2, by omega, by simp; omega⟩

/-- the scan stops with the best end at a character that is neither a blank nor a form feed (or at the end of the text) -/
theorem ljScan_stop (r : Str) (n : Nat) (best : Option Nat)
    (h : ∀ c, r.head? = some c → isSpaceCh c = false ∧ c ≠ FF) : ljScan r n best = best := by
  cases r with
  | nil => rfl
  | cons c r' =>
    obtain ⟨h1, h2⟩ := h c rfl
    simp only [isSpaceCh, Bool.or_eq_false_iff, decide_eq_false_iff_not] at h1
    simp [ljScan, h1.1.1.1, h1.1.1.2, h1.1.2, h1.2, h2]

theorem ljScan_nl (e : Char) (he : e = '\n' ∨ e = '\r') (rest : Str) (n : Nat) (best : Option Nat) :
    ljScan (e :: rest) n best = ljScan rest (n + 1) (some (n + 1)) := by
  rcases he with rfl | rfl <;> simp [ljScan]

theorem ljScan_ff (rest : Str) (n : Nat) (best : Option Nat) : ljScan (FF :: rest) n best = some (n + 1) := by
  have h1 : (FF = '\n' || FF = '\r') = false := by decide
  have h2 : (FF = ' ' || FF = '\t') = false := by decide
  simp only [ljScan, h1, h2, Bool.false_eq_true, if_false, if_true]

theorem lex_lineJoin (w : Str) (e : Char) (rest : Str) (hw : w.all isSpaceCh = true) (he : e = '\n' ∨ e = '\r' ∨ e = FF)
    (hs : ljSafe rest = true) : lex ('\\' :: (w ++ [e]) ++ rest) = lex rest := by
  have e1 : '\\' :: (w ++ [e]) ++ rest = '\\' :: (w ++ e :: rest) := by simp
  rw [e1]
  -- the remaining text splits into its leading blanks and a part that starts with neither a blank nor a form feed
  have hsplit := List.takeWhile_append_dropWhile (p := isSpaceCh) (l := rest)
  have hw2 : (rest.takeWhile isSpaceCh).all isSpaceCh = true := by
    rw [List.all_eq_true]; intro x hx; exact mem_takeWhile_sat _ _ _ hx
  have hstop : ∀ c, (rest.dropWhile isSpaceCh).head? = some c → isSpaceCh c = false ∧ c ≠ FF := by
    intro c hc
    refine ⟨head_dropWhile isSpaceCh rest c hc, ?_⟩
    rintro rfl
    simp [ljSafe, hc] at hs
  -- length of the SKIP_ match: up to the terminator plus `k` of the following blanks
  have hlen : ∃ k, k ≤ (rest.takeWhile isSpaceCh).length ∧
      skipLen ('\\' :: (w ++ e :: rest)) = some (1 + w.length + 1 + k) := by
    have hsk : skipLen ('\\' :: (w ++ e :: rest)) = ljScan (w ++ e :: rest) 1 none := by
      simp [skipLen, isSpaceCh]
    rw [hsk]
    obtain ⟨b1, hb1, hb1'⟩ := ljScan_blanks w (e :: rest) 1 none hw
    rw [hb1]
    have hnl : ∀ e', (e' = '\n' ∨ e' = '\r') → ∃ k, k ≤ (rest.takeWhile isSpaceCh).length ∧
        ljScan (e' :: rest) (1 + w.length) b1 = some (1 + w.length + 1 + k) := by
      intro e' he'
      rw [ljScan_nl e' he']
      obtain ⟨b2, hb2, hb2'⟩ := ljScan_blanks (rest.takeWhile isSpaceCh) (rest.dropWhile isSpaceCh) (1 + w.length + 1)
        (some (1 + w.length + 1)) hw2
      rw [hsplit] at hb2
      rw [hb2, ljScan_stop _ _ _ hstop]
      rcases hb2' with h | ⟨j, h, h1, h2⟩
      · exact ⟨0, by omega, by rw [h]⟩
      · exact ⟨j - (1 + w.length + 1), by omega, by rw [h]; congr 1; omega⟩
    rcases he with he | he | he
    · exact hnl e (Or.inl he)
    · exact hnl e (Or.inr he)
    · subst he
      exact ⟨0, by omega, by rw [ljScan_ff]⟩
  obtain ⟨k, hk, hn⟩ := hlen
  rw [lex_skip '\\' _ (Or.inr (Or.inl rfl)) _ hn]
  have hdrop : ('\\' :: (w ++ e :: rest)).drop (1 + w.length + 1 + k) = rest.drop k := by
    have : 1 + w.length + 1 + k = ((w ++ [e]).length + k) + 1 := by simp; omega
    rw [this, List.drop_succ_cons]
    have h2 : w ++ e :: rest = (w ++ [e]) ++ rest := by simp
    rw [h2, ← List.drop_drop, List.drop_left' rfl]
  rw [hdrop]
  -- `rest.drop k` only lacks `k` of the leading blanks
  have hr : rest.drop k = (rest.takeWhile isSpaceCh).drop k ++ rest.dropWhile isSpaceCh := by
    conv => lhs; rw [← hsplit]
    rw [List.drop_append_of_le_length hk]
  rw [hr, lex_spaces _ _ (by
    rw [List.all_eq_true] at hw2 ⊢; intro x hx; exact hw2 x (List.mem_of_mem_drop hx))]
  conv => rhs; rw [← hsplit]
  rw [lex_spaces _ _ hw2]

end ESV.Lex
