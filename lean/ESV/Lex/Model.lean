import ESV.Gen.Tables
import ESV.Lit.Model
/-
Model of the ExplorerScript lexer (property C16): the token rules of explorerscript/antlr/ExplorerScript.g4 and the imported
SsbCommon.g4 as a maximal-munch lexer on `List Char`.

  * ANTLR lexer semantics modelled: at every position every rule is tried, the LONGEST match wins, among equally long
    matches the rule that is listed first (= the smaller token type, the `.tokens` numbering follows the rule order);
    a non-greedy sub-rule (`.*?`) makes its own rule stop at the first possible end (this only concerns
    MULTILINE_STRING_LITERAL and BLOCK_COMMENT); tokens of the rule `SKIP_` are dropped (`-> skip`); `UNKNOWN_CHAR`
    matches any single character, so the lexer never fails.  Lines/columns are not part of this model (see ESV.PosMark).
  * The vocabulary is NOT copied: fixed-string tokens are `ESV.Gen.expsLitC` (the quoted entries of ExplorerScript.tokens,
    regenerated from /repo on every run), token types of the other rules are looked up by symbolic name in `ESV.Gen.expsSymC`.
    The rule bodies (regular expressions) cannot be regenerated as data; they are keyed by `ESV.Gen.expsLexerAtnKey`
    (`atn_known` in ESV/Lex/Lemmas.lean) and compared with the real lexer on every run (channel `lex.tokens`).
  * STRING_LITERAL / MULTILINE_STRING_LITERAL are the recognisers of the C04 model (`ESV.Lit.tokSingle`, `tokMulti`).
  * The rules DECIMAL_INTEGER, OCT_INTEGER, HEX_INTEGER, BIN_INTEGER (not fragments in the grammar, types 74–77) match
    exactly the alternatives of INTEGER (type 73), which is listed before them: they can never win and are left out.
  * FOR_TARGET is listed before FOR_ACTOR/FOR_OBJECT/FOR_PERFORMER and matches the same three words.
-/
namespace ESV.Lex

open ESV ESV.Lit

/-! ### vocabulary (regenerated) -/

/-- fixed-string tokens: (text, token type) in rule order -/
def litTable : List (Str × Nat) := ESV.Gen.expsLitC

/-- token type of a rule by its symbolic name (0 = no such rule; `types_known` shows this never happens) -/
def tyOf (name : String) : Nat := ((ESV.Gen.expsSymC.lookup name.toList).getD 0)

def T_STRING : Nat := tyOf "STRING_LITERAL"
def T_MULTI : Nat := tyOf "MULTILINE_STRING_LITERAL"
def T_FOR_TARGET : Nat := tyOf "FOR_TARGET"
def T_IDENT : Nat := tyOf "IDENTIFIER"
def T_VAR : Nat := tyOf "VARIABLE"
def T_MACRO : Nat := tyOf "MACRO_CALL"
def T_INT : Nat := tyOf "INTEGER"
def T_DEC : Nat := tyOf "DECIMAL"
def T_SKIP : Nat := tyOf "SKIP_"
def T_UNKNOWN : Nat := tyOf "UNKNOWN_CHAR"

/-- text of the fixed-string token with symbolic name `name` -/
def litOf (name : String) : Option Str := (litTable.find? (fun l => l.2 = tyOf name)).map (·.1)

/-- FOR_TARGET : FOR_ACTOR | FOR_OBJECT | FOR_PERFORMER -/
def forTargetLits : List Str := ["FOR_ACTOR", "FOR_OBJECT", "FOR_PERFORMER"].filterMap litOf

/-! ### character classes -/

/-- `[a-zA-Z_]` -/
def isIdStart (c : Char) : Bool := (97 ≤ c.toNat && c.toNat ≤ 122) || (65 ≤ c.toNat && c.toNat ≤ 90) || c = '_'
/-- `[0-9a-zA-Z_]` -/
def isIdChar (c : Char) : Bool := isIdStart c || isDigit c
/-- `[ \t\n\r]` -/
def isSpaceCh (c : Char) : Bool := c = ' ' || c = '\t' || c = '\n' || c = '\r'
/-- `~[\r\n]` -/
def notEol (c : Char) : Bool := !(c = '\r' || c = '\n')

/-! ### rules: length of the longest match at the start of the input, `none` = no match -/

abbrev Rule := Str → Option Nat

/-- a fixed string -/
def litRule (l : Str) : Rule := fun s => if l.isPrefixOf s then some l.length else none

/-- IDENTIFIER_BASE : [a-zA-Z_][0-9a-zA-Z_]* -/
def identLen : Rule
  | [] => none
  | c :: cs => if isIdStart c then some (1 + (cs.takeWhile isIdChar).length) else none

/-- VARIABLE : [$] IDENTIFIER_BASE ;  MACRO_CALL : [~] IDENTIFIER_BASE -/
def sigilLen (sig : Char) : Rule
  | [] => none
  | c :: cs => if c = sig then (identLen cs).map (· + 1) else none

/-- `0 [xX] HEX_DIGIT+` etc. after the leading `0`: the base letter and at least one digit -/
def basedLen (s : Str) : Option Nat :=
  match s with
  | [] => none
  | x :: ds =>
    let p : Option (Char → Bool) :=
      if x = 'x' || x = 'X' then some isHexDigit
      else if x = 'o' || x = 'O' then some isOctDigit
      else if x = 'b' || x = 'B' then some isBinDigit
      else none
    match p with
    | none => none
    | some p => let n := (ds.takeWhile p).length; if n = 0 then none else some (1 + n)

/-- INTEGER without sign: `[1-9][0-9]*` | `0+` | `0[oO][0-7]+` | `0[xX][0-9a-fA-F]+` | `0[bB][01]+` (longest) -/
def uintLen : Rule
  | [] => none
  | c :: cs =>
    if c = '0' then
      match basedLen cs with
      | some n => some (1 + n)
      | none => some (1 + (cs.takeWhile (· = '0')).length)
    else if isDigit c then some (1 + (cs.takeWhile isDigit).length)
    else none

/-- INTEGER : every alternative starts with `'-'?` -/
def intLen : Rule
  | [] => none
  | c :: r => if c = '-' then (uintLen r).map (· + 1) else uintLen (c :: r)

/-- DECIMAL without sign: `DIGIT+ '.' DIGIT+` | `'.' DIGIT+` -/
def udecLen (s : Str) : Option Nat :=
  let a := s.takeWhile isDigit
  match s.drop a.length with
  | '.' :: r => let b := r.takeWhile isDigit; if b.length = 0 then none else some (a.length + 1 + b.length)
  | _ => none

def decLen : Rule
  | [] => none
  | c :: r => if c = '-' then (udecLen r).map (· + 1) else udecLen (c :: r)

/-- BLOCK_COMMENT after the opening `/*`: `.*? ('*/' | EOF)`; `n` = characters consumed so far -/
def blockEnd : Str → Nat → Nat
  | [], n => n
  | c :: cs, n => if c = '*' ∧ cs.head? = some '/' then n + 2 else blockEnd cs (n + 1)

/-- LINE_JOINING after the backslash: `SPACES? ('\r'? '\n' | '\r' | '\f')`, longest match.  `n` = characters consumed so
far, `best` = end of the longest match seen.  A `\n`/`\r` can both end the match and belong to SPACES. -/
def ljScan : Str → Nat → Option Nat → Option Nat
  | [], _, best => best
  | c :: cs, n, best =>
    if c = '\n' || c = '\r' then ljScan cs (n + 1) (some (n + 1))
    else if c = ' ' || c = '\t' then ljScan cs (n + 1) best
    else if c = FF then some (n + 1)
    else best

/-- SKIP_ : LINE_COMMENT | BLOCK_COMMENT | SPACES | LINE_JOINING (exactly one of them per token) -/
def skipLen : Rule
  | [] => none
  | c :: cs =>
    if isSpaceCh c then some (1 + (cs.takeWhile isSpaceCh).length)
    else if c = '/' then
      match cs with
      | d :: r =>
        if d = '/' then some (2 + (r.takeWhile notEol).length)
        else if d = '*' then some (blockEnd r 2)
        else none
      | [] => none
    else if c = '\\' then ljScan cs 1 none
    else none

/-- UNKNOWN_CHAR : . -/
def unknownLen : Rule
  | [] => none
  | _ :: _ => some 1

/-- the rules that are not plain fixed strings, with their token types -/
def otherRules : List (Nat × Rule) :=
  [(T_STRING, tokSingle), (T_MULTI, tokMulti)] ++
  forTargetLits.map (fun l => (T_FOR_TARGET, litRule l)) ++
  [(T_IDENT, identLen), (T_VAR, sigilLen '$'), (T_MACRO, sigilLen '~'), (T_INT, intLen), (T_DEC, decLen),
   (T_SKIP, skipLen), (T_UNKNOWN, unknownLen)]

def rules : List (Nat × Rule) := litTable.map (fun l => (l.2, litRule l.1)) ++ otherRules

/-! ### longest match, ties by rule order -/

/-- candidate `a` = (type, length) beats `b` -/
def beats (a b : Nat × Nat) : Bool := b.2 < a.2 || (a.2 = b.2 && a.1 < b.1)

def pick : List (Nat × Nat) → Option (Nat × Nat)
  | [] => none
  | c :: cs =>
    match pick cs with
    | none => some c
    | some d => if beats d c then some d else some c

def cands (s : Str) : List (Nat × Nat) := rules.filterMap (fun r => (r.2 s).map (fun n => (r.1, n)))

/-- one step of the lexer: token type and length of the next token -/
def lexOne (s : Str) : Option (Nat × Nat) := pick (cands s)

structure Token where
  ty : Nat
  text : Str
deriving DecidableEq, Repr

/-- `getAllTokens()`: SKIP_ tokens are dropped, everything else (UNKNOWN_CHAR included) is emitted -/
def lexFuel : Nat → Str → List Token
  | 0, _ => []
  | fuel + 1, s =>
    match s with
    | [] => []
    | _ :: _ =>
      match lexOne s with
      | none => []
      | some (ty, n) =>
        if ty = T_SKIP then lexFuel fuel (s.drop n) else ⟨ty, s.take n⟩ :: lexFuel fuel (s.drop n)

/-- every step consumes at least one character (`lexOne_pos`), so `length + 1` is enough fuel (`lexFuel_enough`) -/
def lex (s : Str) : List Token := lexFuel (s.length + 1) s

/-- all tokens, SKIP_ included (for the differential channel that compares the skip tokens too) -/
def lexAllFuel : Nat → Str → List Token
  | 0, _ => []
  | fuel + 1, s =>
    match s with
    | [] => []
    | _ :: _ =>
      match lexOne s with
      | none => []
      | some (ty, n) => ⟨ty, s.take n⟩ :: lexAllFuel fuel (s.drop n)

def lexAll (s : Str) : List Token := lexAllFuel (s.length + 1) s

/-! ### token classes and the boundary condition (statements of `skip_insertion`) -/

inductive Cls where
  | sym     -- fixed-string token made of punctuation
  | word    -- keyword or IDENTIFIER (the lexer decides which)
  | sigil   -- VARIABLE / MACRO_CALL
  | int
  | dec
  | str1    -- STRING_LITERAL
  | str3    -- MULTILINE_STRING_LITERAL
deriving DecidableEq, Repr

def isWord : Str → Bool
  | [] => false
  | c :: cs => isIdStart c && cs.all isIdChar

def isSym (t : Str) : Bool := litTable.any (fun l => l.1 = t) && t.all (fun c => !isIdChar c)
def isSigil : Str → Bool
  | [] => false
  | c :: w => (c = '$' || c = '~') && isWord w
def isInt (t : Str) : Bool := !t.isEmpty && intLen t = some t.length
def isDec (t : Str) : Bool := !t.isEmpty && decLen t = some t.length
def isStr3 (t : Str) : Bool := tokMulti t = some t.length
def isStr1 (t : Str) : Bool := tokSingle t = some t.length

/-- the text is exactly one token of class … (decidable shape; the classes exclude each other by the first character) -/
def classify (t : Str) : Option Cls :=
  if isSym t then some .sym
  else if isWord t then some .word
  else if isSigil t then some .sigil
  else if isInt t then some .int
  else if isDec t then some .dec
  else if isStr3 t then some .str3
  else if isStr1 t then some .str1
  else none

/-- no fixed-string token continues `t` with the character `c` -/
def noExt (t : Str) (c : Char) : Bool := litTable.all (fun l => !(t ++ [c]).isPrefixOf l.1)

/-- may `rest` directly follow the token `t` without changing how `t` is lexed?  One character of look-ahead. -/
def safeBoundary (t rest : Str) : Bool :=
  match rest with
  | [] => true
  | c :: _ =>
    match classify t with
    | some .sym => noExt t c
    | some .word => !isIdChar c
    | some .sigil => !isIdChar c
    | some .int => !isIdChar c && c ≠ '.'
    | some .dec => !isIdChar c && c ≠ '.' 
    | some .str1 => !(t.length = 2 && t.head? = some c)
    | some .str3 => true
    | none => false

/-! ### separators -/

/-- one unit of layout between two tokens -/
inductive SepUnit where
  | spaces (w : Str)                    -- `[ \t\n\r]+`
  | lineComment (body : Str) (eol : Char)   -- `//` body end-of-line
  | blockComment (body : Str)           -- `/*` body `*/`
  | lineJoin (w : Str) (e : Char)       -- `\` blanks `\n` | `\r` | `\f`
deriving DecidableEq, Repr

def SepUnit.text : SepUnit → Str
  | .spaces w => w
  | .lineComment b e => '/' :: '/' :: (b ++ [e])
  | .blockComment b => '/' :: '*' :: (b ++ ['*', '/'])
  | .lineJoin w e => '\\' :: (w ++ [e])

/-- `*/` does not occur in `s` -/
def noClose : Str → Bool
  | [] => true
  | c :: cs => !(c = '*' && cs.head? = some '/') && noClose cs

def SepUnit.ok : SepUnit → Bool
  | .spaces w => !w.isEmpty && w.all isSpaceCh
  | .lineComment b e => b.all notEol && (e = '\n' || e = '\r')
  | .blockComment b => noClose (b ++ ['*'])
  | .lineJoin w e => w.all isSpaceCh && (e = '\n' || e = '\r' || e = FF)

def sepText (us : List SepUnit) : Str := (us.map SepUnit.text).flatten

/-- the text after a line joining must not continue with blanks and a form feed (LINE_JOINING would swallow the form
feed, which is an UNKNOWN_CHAR token otherwise); token texts and separators never start with a form feed -/
def ljSafe (rest : Str) : Bool := (rest.dropWhile isSpaceCh).head? ≠ some FF

/-- the harness printer's `needs_sep(a, b)` (harness/gen/surface.py), depending on `b` only through its first character -/
def needsSep (a : Str) (y : Char) : Bool :=
  match a.getLast? with
  | none => false
  | some x =>
    let ident (c : Char) : Bool := isIdChar c || c = '$' || c = '~' || c = '.'
    let opch (c : Char) : Bool := "<>=!&^+-*/|".toList.contains c
    (ident x && ident y) ||
    (x = '-' && (isDigit y || y = '.')) ||
    (opch x && opch y) ||
    (isDigit x && y = '.') ||
    ((x = SQ || x = DQ) && y = x)

end ESV.Lex
