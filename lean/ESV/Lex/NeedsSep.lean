import ESV.Lex.Render
/-
The printer's separator table (`needs_sep` of harness/gen/surface.py, mirrored as `needsSep`) is sound: where it says that two
adjacent token texts need no separator, the boundary between them is safe (`needsSep_sound`).  Also: the INTEGER / DECIMAL
recognisers of the C04 model are the same token languages as the lexer's rules (`isInt_of_isIntegerTok`).
-/
namespace ESV.Lex
open ESV ESV.Lit

/-! ### last character of a token -/

theorem takeWhile_length_all {α} (p : α → Bool) (l : List α) (h : (l.takeWhile p).length = l.length) : l.all p = true := by
  induction l with
  | nil => rfl
  | cons a l ih =>
    simp only [List.takeWhile_cons] at h
    split at h
    · rename_i hp; simp at h; simp [hp, ih h]
    · simp at h

theorem getLast_all {α} (p : α → Bool) (l : List α) (hne : l ≠ []) (h : l.all p = true) : ∃ x, l.getLast? = some x ∧ p x = true := by
  refine ⟨l.getLast hne, List.getLast?_eq_some_getLast hne, ?_⟩
  rw [List.all_eq_true] at h
  exact h _ (List.getLast_mem hne)

/-- every character of an unsigned INTEGER token is an identifier character -/
theorem uintLen_full_idChars (u : Str) (h : uintLen u = some u.length) : u ≠ [] ∧ u.all isIdChar = true := by
  cases u with
  | nil => simp [uintLen] at h
  | cons c cs =>
    refine ⟨by simp, ?_⟩
    simp only [uintLen] at h
    split at h
    · rename_i hc
      subst hc
      split at h
      · rename_i n hn
        cases cs with
        | nil => simp [basedLen] at hn
        | cons x ds =>
          simp only [basedLen] at hn
          split at hn
          · simp at hn
          · rename_i p hp
            split at hn
            · simp at hn
            · simp only [Option.some.injEq] at hn h
              have hlen : (ds.takeWhile p).length = ds.length := by simp at h; omega
              have hall := takeWhile_length_all p ds hlen
              have hx : isIdChar x = true ∧ ∀ c, p c = true → isIdChar c = true := by
                split at hp
                · rename_i hxx; simp at hp; subst hp
                  exact ⟨by simp only [Bool.or_eq_true, decide_eq_true_eq] at hxx; rcases hxx with h | h <;> (subst h; decide), hex_idChar⟩
                · split at hp
                  · rename_i hxx; simp at hp; subst hp
                    exact ⟨by simp only [Bool.or_eq_true, decide_eq_true_eq] at hxx; rcases hxx with h | h <;> (subst h; decide), oct_idChar⟩
                  · split at hp
                    · rename_i hxx; simp at hp; subst hp
                      exact ⟨by simp only [Bool.or_eq_true, decide_eq_true_eq] at hxx; rcases hxx with h | h <;> (subst h; decide), bin_idChar⟩
                    · simp at hp
              simp only [List.all_cons, Bool.and_eq_true]
              refine ⟨by decide, hx.1, ?_⟩
              rw [List.all_eq_true] at hall ⊢
              intro y hy; exact hx.2 y (hall y hy)
      · simp only [Option.some.injEq] at h
        have hlen : (cs.takeWhile (· = '0')).length = cs.length := by simp at h; omega
        have hall := takeWhile_length_all _ cs hlen
        simp only [List.all_cons, Bool.and_eq_true]
        refine ⟨by decide, ?_⟩
        rw [List.all_eq_true] at hall ⊢
        intro y hy; have := hall y hy; simp at this; subst this; decide
    · split at h
      · rename_i hd
        simp only [Option.some.injEq] at h
        have hlen : (cs.takeWhile isDigit).length = cs.length := by simp at h; omega
        have hall := takeWhile_length_all _ cs hlen
        simp only [List.all_cons, Bool.and_eq_true]
        refine ⟨idChar_of_digit c hd, ?_⟩
        rw [List.all_eq_true] at hall ⊢
        intro y hy; exact idChar_of_digit y (hall y hy)
      · simp at h

theorem int_last (t : Str) (h : intLen t = some t.length) : ∃ x, t.getLast? = some x ∧ isIdChar x = true := by
  cases t with
  | nil => simp [intLen] at h
  | cons c r =>
    simp only [intLen] at h
    split at h
    · cases hu : uintLen r with
      | none => simp [hu] at h
      | some k =>
        simp [hu] at h
        subst h
        obtain ⟨hne, hall⟩ := uintLen_full_idChars r hu
        obtain ⟨x, hx, hp⟩ := getLast_all isIdChar r hne hall
        refine ⟨x, ?_, hp⟩
        cases r with
        | nil => exact absurd rfl hne
        | cons d r' => simpa using hx
    · obtain ⟨hne, hall⟩ := uintLen_full_idChars _ h
      exact getLast_all isIdChar _ hne hall

theorem udec_last (u : Str) (h : udecLen u = some u.length) : ∃ x, u.getLast? = some x ∧ isDigit x = true := by
  simp only [udecLen] at h
  split at h
  · rename_i r hr
    split at h
    · simp at h
    · rename_i hb
      simp only [Option.some.injEq] at h
      have hu : u = u.takeWhile isDigit ++ '.' :: r := by
        have := List.take_append_drop (u.takeWhile isDigit).length u
        rw [hr] at this
        have ht : u.take (u.takeWhile isDigit).length = u.takeWhile isDigit := by
          clear h hr hb this
          induction u with
          | nil => rfl
          | cons a u ih => simp only [List.takeWhile_cons]; split <;> simp [ih]
        rw [ht] at this
        exact this.symm
      have hlen : u.length = (u.takeWhile isDigit).length + 1 + r.length := by
        conv => lhs; rw [hu]
        simp; omega
      have hr2 : (r.takeWhile isDigit).length = r.length := by omega
      have hall := takeWhile_length_all isDigit r hr2
      have hne : r ≠ [] := by intro he; subst he; simp at hb
      obtain ⟨x, hx, hp⟩ := getLast_all isDigit r hne hall
      refine ⟨x, ?_, hp⟩
      rw [hu]
      cases r with
      | nil => exact absurd rfl hne
      | cons d r' =>
        rw [List.getLast?_append]
        simp only [List.getLast?_cons_cons, hx, Option.some_or]
  · simp at h

theorem dec_last (t : Str) (h : decLen t = some t.length) : ∃ x, t.getLast? = some x ∧ isDigit x = true := by
  cases t with
  | nil => simp [decLen] at h
  | cons c r =>
    simp only [decLen] at h
    split at h
    · cases hu : udecLen r with
      | none => simp [hu] at h
      | some k =>
        simp [hu] at h
        subst h
        obtain ⟨x, hx, hp⟩ := udec_last r hu
        refine ⟨x, ?_, hp⟩
        cases r with
        | nil => simp at hx
        | cons d r' => simpa using hx
    · exact udec_last _ h

/-! ### punctuation: the characters that continue a fixed-string token to a longer one -/

/-- characters `c` such that `t ++ [c]` is the beginning of some fixed-string token -/
def extChars (t : Str) : List Char :=
  litTable.filterMap (fun l => if t.isPrefixOf l.1 then l.1[t.length]? else none)

theorem noExt_false_mem (t : Str) (c : Char) (h : noExt t c = false) : c ∈ extChars t := by
  simp only [noExt, List.all_eq_false] at h
  obtain ⟨l, hl, hp⟩ := h
  have hp1 : (t ++ [c]).isPrefixOf l.1 = true := by simpa using hp
  have hp' := List.isPrefixOf_iff_prefix.mp hp1
  obtain ⟨k, hk⟩ := hp'
  simp only [extChars, List.mem_filterMap]
  refine ⟨l, hl, ?_⟩
  have h1 : t.isPrefixOf l.1 = true := List.isPrefixOf_iff_prefix.mpr ⟨c :: k, by rw [← hk]; simp⟩
  simp only [h1, if_true]
  rw [← hk]
  simp

/-- the table: wherever a fixed-string token could be continued, `needs_sep` asks for a separator -/
theorem sym_ext_needs_sep : litTable.all (fun l => (extChars l.1).all (fun c => needsSep l.1 c)) = true := by decide

/-! ### soundness of the printer's table -/

theorem needsSep_ident_last (a : Str) (x y : Char) (hx : a.getLast? = some x) (hid : isIdChar x = true)
    (h : needsSep a y = false) : isIdChar y = false ∧ y ≠ '.' := by
  have hix : (isIdChar x || x = '$' || x = '~' || x = '.') = true := by simp [hid]
  simp only [needsSep, hx] at h
  have h1 : ((isIdChar x || x = '$' || x = '~' || x = '.') && (isIdChar y || y = '$' || y = '~' || y = '.')) = false := by
    simp only [Bool.or_eq_false_iff] at h; exact h.1.1.1.1
  rw [hix, Bool.true_and] at h1
  simp only [Bool.or_eq_false_iff, decide_eq_false_iff_not] at h1
  exact ⟨h1.1.1.1, h1.2⟩

/-- **needs_sep is sound**: if the printer's table says that the token text `a` may be followed directly by the token text
`b`, then the boundary is safe — `a` is lexed as if it stood alone (via `lexOne_append` / `skip_insertion`). -/
theorem needsSep_sound (a b rest : Str) (ca cb : Cls) (ha : classify a = some ca) (hb : classify b = some cb)
    (h : ∀ y r, b = y :: r → needsSep a y = false) : safeBoundary a (b ++ rest) = true := by
  obtain ⟨y, r, rfl, -, -⟩ := token_head b cb hb
  have hn := h y r rfl
  have hs := classify_spec a ca ha
  simp only [List.cons_append, safeBoundary, ha]
  cases ca with
  | sym =>
    cases hne : noExt a y with
    | true => rfl
    | false =>
      have hm := noExt_false_mem a y hne
      simp only [isSym, Bool.and_eq_true, List.any_eq_true, decide_eq_true_eq] at hs
      obtain ⟨⟨l0, hl0, rfl⟩, -⟩ := hs
      have := sym_ext_needs_sep
      rw [List.all_eq_true] at this
      have h2 := this l0 hl0
      rw [List.all_eq_true] at h2
      rw [h2 y hm] at hn
      cases hn
  | word =>
    obtain ⟨c, w, rfl, h1, h2⟩ := isWord_spec a hs
    have hall : (c :: w).all isIdChar = true := by simp [idChar_of_idStart c h1, h2]
    obtain ⟨x, hx, hp⟩ := getLast_all isIdChar (c :: w) (by simp) hall
    simp [(needsSep_ident_last _ x y hx hp hn).1]
  | sigil =>
    obtain ⟨g, c, w, rfl, hg, h1, h2⟩ := isSigil_spec a hs
    have hall : (c :: w).all isIdChar = true := by simp [idChar_of_idStart c h1, h2]
    obtain ⟨x, hx, hp⟩ := getLast_all isIdChar (c :: w) (by simp) hall
    have hx' : (g :: c :: w).getLast? = some x := by simpa using hx
    simp [(needsSep_ident_last _ x y hx' hp hn).1]
  | int =>
    simp only [isInt, Bool.and_eq_true, decide_eq_true_eq] at hs
    obtain ⟨x, hx, hp⟩ := int_last a hs.2
    have := needsSep_ident_last _ x y hx hp hn
    simp [this.1, this.2]
  | dec =>
    simp only [isDec, Bool.and_eq_true, decide_eq_true_eq] at hs
    obtain ⟨x, hx, hp⟩ := dec_last a hs.2
    have := needsSep_ident_last _ x y hx (idChar_of_digit x hp) hn
    simp [this.1, this.2]
  | str1 =>
    simp only [isStr1, decide_eq_true_eq] at hs
    obtain ⟨q, body, rfl, hq⟩ := tokSingle_quote a _ hs
    by_cases h2 : (q :: body).length = 2
    · -- the empty string literal: its second character is the closing quote
      match body, h2, hs, hn with
      | [x], _, hs, hn =>
        have hx : x = q := by
          by_cases hx : x = q
          · exact hx
          · have hq' : (decide (q = SQ) || decide (q = DQ)) = true := by rcases hq with h | h <;> simp [h]
            simp only [tokSingle, hq', if_true] at hs
            unfold tokSingleBody at hs
            simp only [hx, if_false] at hs
            split at hs
            · simp at hs
            · split at hs
              · simp at hs
              · simp [tokSingleBody] at hs
        subst hx
        simp only [needsSep, List.getLast?_cons_cons, List.getLast?_singleton, Bool.or_eq_false_iff, Bool.and_eq_false_iff] at hn
        have h3 := hn.2
        have : y ≠ x := by
          rcases h3 with h3 | h3
          · simp only [decide_eq_false_iff_not] at h3
            rcases hq with h | h
            · exact absurd h h3.1
            · exact absurd h h3.2
          · simpa using h3
        simp [Ne.symm this]
    · simp only [List.length_cons] at h2; simp; left; omega
  | str3 => rfl

/-! ### the C04 recognisers and the lexer's rules accept the same token texts -/

theorem basedLen_full (x : Char) (ds : Str) (p : Char → Bool)
    (hp : (if x = 'x' || x = 'X' then some isHexDigit else if x = 'o' || x = 'O' then some isOctDigit
      else if x = 'b' || x = 'B' then some isBinDigit else none) = some p)
    (hne : ds ≠ []) (hall : ds.all p = true) : basedLen (x :: ds) = some (1 + ds.length) := by
  simp only [basedLen, hp, takeWhile_all p ds hall]
  have : ds.length ≠ 0 := by intro h0; exact hne (List.length_eq_zero_iff.mp h0)
  simp [this]

theorem isInt_of_isUIntegerTok (u : Str) (h : isUIntegerTok u = true) : uintLen u = some u.length := by
  cases u with
  | nil => simp [isUIntegerTok] at h
  | cons c cs =>
    simp only [isUIntegerTok] at h
    simp only [uintLen]
    split at h
    · rename_i hc
      simp only [hc, if_true]
      cases cs with
      | nil => simp [basedLen]
      | cons x ds =>
        simp only at h
        split at h
        · rename_i hx
          simp only [Bool.and_eq_true, Bool.not_eq_true', List.isEmpty_eq_false_iff] at h
          rw [basedLen_full x ds isHexDigit (by simp only [hx, if_true]) h.1 h.2]
          simp; omega
        · rename_i hx
          split at h
          · rename_i ho
            simp only [Bool.and_eq_true, Bool.not_eq_true', List.isEmpty_eq_false_iff] at h
            rw [basedLen_full x ds isOctDigit (by simp only [hx, ho, if_true]; simp) h.1 h.2]
            simp; omega
          · rename_i ho
            split at h
            · rename_i hb
              simp only [Bool.and_eq_true, Bool.not_eq_true', List.isEmpty_eq_false_iff] at h
              rw [basedLen_full x ds isBinDigit (by simp only [hx, ho, hb, if_true]; simp) h.1 h.2]
              simp; omega
            · rename_i hb
              have hbn : basedLen (x :: ds) = none := by simp only [basedLen, hx, ho, hb]; simp
              rw [hbn]
              simp only
              rw [takeWhile_all (· = '0') (x :: ds) (by simpa using h)]
              simp; omega
    · rename_i hc
      simp only [Bool.and_eq_true] at h
      simp only [hc, if_false, h.1, if_true, takeWhile_all isDigit cs h.2]
      simp; omega

/-- every INTEGER token text of the C04 model (`isIntegerTok`) is a token of class `int` for the lexer -/
theorem isInt_of_isIntegerTok (t : Str) (h : isIntegerTok t = true) : isInt t = true := by
  have hne : t ≠ [] := by intro he; subst he; simp [isIntegerTok, isUIntegerTok] at h
  have : intLen t = some t.length := by
    cases t with
    | nil => exact absurd rfl hne
    | cons c r =>
      by_cases hc : c = '-'
      · subst hc
        simp only [isIntegerTok] at h
        simp [intLen, isInt_of_isUIntegerTok r h]
      · have h' : isUIntegerTok (c :: r) = true := by
          unfold isIntegerTok at h
          split at h
          · rename_i heq; simp at heq; exact absurd heq.1 hc
          · exact h
        simp only [intLen, hc, if_false]
        exact isInt_of_isUIntegerTok _ h'
  simp only [isInt, Bool.and_eq_true, Bool.not_eq_true', decide_eq_true_eq]
  exact ⟨by cases t <;> simp_all, this⟩

end ESV.Lex
