import ESV.Lex.Model
import ESV.Lit.Lemmas
/-
Lemmas about the lexer model: table facts (closed by `decide` over the regenerated vocabulary), bounds of every rule
(each match is non-empty and inside the input, so the fuel of `lex` suffices), `pick`, and the per-rule facts from which
ESV/Lex/Boundary.lean derives that a token followed by a safe boundary is lexed as if it stood alone.
-/
namespace ESV.Lex
open ESV ESV.Lit

/-! ### lists -/

theorem length_takeWhile_le {α} (p : α → Bool) (l : List α) : (l.takeWhile p).length ≤ l.length := by
  induction l with
  | nil => simp
  | cons a l ih => simp only [List.takeWhile_cons]; split <;> simp <;> omega

/-- appending a text whose first character fails `p` does not change the `p`-run at the start -/
theorem takeWhile_append_stable {α} (p : α → Bool) (a rest : List α) (h : ∀ c, rest.head? = some c → p c = false) :
    (a ++ rest).takeWhile p = a.takeWhile p := by
  induction a with
  | nil =>
    cases rest with
    | nil => rfl
    | cons c r => simp [h c rfl]
  | cons x a ih => simp only [List.cons_append, List.takeWhile_cons]; split <;> simp [ih]

theorem takeWhile_all {α} (p : α → Bool) (a : List α) (h : a.all p = true) : a.takeWhile p = a := by
  induction a with
  | nil => rfl
  | cons x a ih => simp only [List.all_cons, Bool.and_eq_true] at h; simp [h.1, ih h.2]

theorem takeWhile_all_append {α} (p : α → Bool) (a rest : List α) (h : a.all p = true) :
    (a ++ rest).takeWhile p = a ++ rest.takeWhile p := by
  induction a with
  | nil => rfl
  | cons x a ih => simp only [List.all_cons, Bool.and_eq_true] at h; simp [h.1, ih h.2]

/-- a prefix of `t ++ rest` is a prefix of `t`, or it continues `t` with the first character of `rest` -/
theorem prefix_append_cases (l t rest : Str) (h : l <+: t ++ rest) :
    l <+: t ∨ ∃ c r, rest = c :: r ∧ t ++ [c] <+: l := by
  rcases List.prefix_or_prefix_of_prefix h (List.prefix_append t rest) with h1 | h1
  · exact Or.inl h1
  · obtain ⟨k, rfl⟩ := h1
    cases k with
    | nil => left; simp
    | cons c k =>
      right
      have h2 := (List.prefix_append_right_inj t).mp h
      obtain ⟨m, hm⟩ := h2
      refine ⟨c, k ++ m, by simpa using hm.symm, ?_⟩
      exact ⟨k, by simp⟩

/-! ### pick -/

theorem pick_mem : ∀ (l : List (Nat × Nat)) (c : Nat × Nat), pick l = some c → c ∈ l := by
  intro l
  induction l with
  | nil => intro c h; simp [pick] at h
  | cons a l ih =>
    intro c h
    simp only [pick] at h
    cases hp : pick l with
    | none => rw [hp] at h; simp at h; simp [h]
    | some d =>
      rw [hp] at h
      simp only at h
      split at h
      · simp at h; subst h; exact List.mem_cons_of_mem _ (ih d hp)
      · simp at h; simp [h]

theorem pick_ne_none (l : List (Nat × Nat)) (h : l ≠ []) : pick l ≠ none := by
  cases l with
  | nil => exact absurd rfl h
  | cons a l => simp only [pick]; cases pick l <;> simp; split <;> simp

/-- the candidate that is at least as long as every other one and has the smallest type among the longest is picked -/
theorem pick_best (l : List (Nat × Nat)) (c : Nat × Nat) (hc : c ∈ l)
    (hb : ∀ d ∈ l, d.2 < c.2 ∨ (d.2 = c.2 ∧ c.1 ≤ d.1)) : pick l = some c := by
  induction l with
  | nil => simp at hc
  | cons a l ih =>
    simp only [pick]
    by_cases hcl : c ∈ l
    · rw [ih hcl (fun d hd => hb d (List.mem_cons_of_mem _ hd))]
      simp only
      have ha := hb a (by simp)
      have : beats c a = true ∨ a = c := by
        rcases ha with h | ⟨h1, h2⟩
        · left; simp [beats, h]
        · rcases Nat.lt_or_ge c.1 a.1 with h3 | h3
          · left; simp [beats, h1, h3]
          · right; exact Prod.ext (by omega) h1
      rcases this with h | h
      · simp [h]
      · subst h; split <;> rfl
    · have hca : c = a := by simpa [hcl] using hc
      subst hca
      cases hp : pick l with
      | none => rfl
      | some d =>
        simp only
        have hd := hb d (List.mem_cons_of_mem _ (pick_mem l d hp))
        have : beats d c = false := by
          simp only [beats, Bool.or_eq_false_iff, decide_eq_false_iff_not, Bool.and_eq_false_iff]
          rcases hd with h | ⟨h1, h2⟩
          · exact ⟨by omega, Or.inl (by omega)⟩
          · exact ⟨by omega, Or.inr (by omega)⟩
        simp [this]

/-- some candidate has the full length `L`, none is longer: a candidate of length `L` and a type not above it is picked -/
theorem pick_full (l : List (Nat × Nat)) (ty0 L : Nat) (h0 : (ty0, L) ∈ l) (hle : ∀ d ∈ l, d.2 ≤ L) :
    ∃ ty, ty ≤ ty0 ∧ pick l = some (ty, L) := by
  induction l with
  | nil => simp at h0
  | cons a l ih =>
    simp only [pick]
    have hla : a.2 ≤ L := hle a (by simp)
    by_cases hl : (ty0, L) ∈ l
    · obtain ⟨ty, hty, hp⟩ := ih hl (fun d hd => hle d (List.mem_cons_of_mem _ hd))
      rw [hp]
      simp only
      by_cases hb : beats (ty, L) a = true
      · exact ⟨ty, hty, by simp [hb]⟩
      · simp only [hb]
        simp only [beats, Bool.or_eq_true, decide_eq_true_eq, Bool.and_eq_true, not_or, not_and] at hb
        have h1 : a.2 = L := by omega
        refine ⟨a.1, ?_, ?_⟩
        · have := hb.2 h1.symm; omega
        · simp; exact Prod.ext rfl h1
    · have ha : a = (ty0, L) := by
        rcases List.mem_cons.mp h0 with h | h
        · exact h.symm
        · exact absurd h hl
      subst ha
      cases hp : pick l with
      | none => exact ⟨ty0, Nat.le_refl _, rfl⟩
      | some d =>
        simp only
        have hd := hle d (List.mem_cons_of_mem _ (pick_mem l d hp))
        by_cases hb : beats d (ty0, L) = true
        · simp only [hb, if_true]
          simp only [beats, Bool.or_eq_true, decide_eq_true_eq, Bool.and_eq_true] at hb
          have : d.2 = L := by rcases hb with h | h <;> simp_all <;> omega
          refine ⟨d.1, ?_, by simp; exact Prod.ext rfl this⟩
          rcases hb with h | h
          · omega
          · omega
        · simp only [hb]; exact ⟨ty0, Nat.le_refl _, by simp⟩

end ESV.Lex
