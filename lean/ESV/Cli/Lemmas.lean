import ESV.Cli.Model
import ESV.Lit.Num
import ESV.Lit.Fixed
/-
Lemmas about the CLI model: reading back what `build_ops` / `build_routines_json` write.
-/
namespace ESV.Cli
open ESV ESV.Lit

/-! ### position coordinates -/

theorem splitOn_none (sep : Char) (s : Str) (h : sep ∉ s) : splitOn sep s = [s] := by
  unfold splitOn
  rw [splitAux_id sep s h]

/-- `parse_pos_mark_arg` on what `x_final` / `y_final` print -/
theorem cliParsePos_posFinal (rel off : Int) :
    cliParsePos (posFinal rel off) = .ok (rel, if off > 1 then 2 else 0) := by
  unfold posFinal
  by_cases h : off > 1
  · simp only [h, ↓reduceIte]
    unfold cliParsePos
    rw [splitOn_at '.' (showInt rel) ['5'] (showInt_not_dot rel) (by decide)]
    simp [expsInt_showInt]
  · simp only [h, ↓reduceIte, List.append_nil]
    unfold cliParsePos
    rw [splitOn_none '.' (showInt rel) (showInt_not_dot rel)]
    simp [expsInt_showInt]

/-! ### parameters -/

/-- the value of a fixed-point parameter is in the normal form `from_str` produces -/
def ParamOk : Param → Prop
  | .fixed v => fixedFromStr v.toList = .ok v.toList
  | _ => True

instance : DecidablePred ParamOk := fun p => by
  cases p <;> unfold ParamOk <;> infer_instance

theorem langOf_map (kv : List (String × String)) :
    langOf (kv.map fun p => (p.1, J.str p.2)) = .ok kv := by
  induction kv with
  | nil => rfl
  | cons x xs ih =>
    obtain ⟨k, v⟩ := x
    simp only [List.map_cons, langOf, ih]

theorem readParam_paramJ (p : Param) (h : ParamOk p) : readParam (paramJ p) = .ok (normParam p) := by
  cases p with
  | int i => rfl
  | fixed v =>
    simp only [ParamOk] at h
    simp [paramJ, readParam, look, Dict.get?, fixedOf, h, normParam]
  | const n => simp [paramJ, readParam, look, Dict.get?, normParam]
  | constString s => simp [paramJ, readParam, look, Dict.get?, normParam]
  | langString kv => simp [paramJ, readParam, look, Dict.get?, normParam, langOf_map]
  | posMark n xo yo xr yr =>
    simp [paramJ, readParam, look, Dict.get?, normParam, posMarkOf, subscript, sOf, coordOf, cliParsePos_posFinal]

theorem readParams_map (ps : List Param) (h : ∀ p ∈ ps, ParamOk p) :
    readParams (ps.map paramJ) = .ok (ps.map normParam) := by
  induction ps with
  | nil => rfl
  | cons p ps ih =>
    simp only [List.map_cons, readParams]
    rw [readParam_paramJ p (h p (by simp)), ih (fun q hq => h q (by simp [hq]))]
    rfl

/-! ### ops -/

def OpOk (o : Op) : Prop := ∀ p ∈ o.params, ParamOk p

theorem readOp_opJ (n : Nat) (o : Op) (h : OpOk o) :
    readOp n (opJ o) = .ok ⟨(n : Int), o.name, o.params.map normParam⟩ := by
  simp [opJ, readOp, look, Dict.get?, readParams_map o.params h]

theorem readOpsFrom_map (n : Nat) (ops : List Op) (h : ∀ o ∈ ops, OpOk o) :
    readOpsFrom n (ops.map opJ) = .ok (renumOps n ops) := by
  induction ops generalizing n with
  | nil => rfl
  | cons o os ih =>
    simp only [List.map_cons, readOpsFrom, renumOps]
    rw [readOp_opJ (n + 1) o (h o (by simp)), ih (n + 1) (fun q hq => h q (by simp [hq]))]
    rfl

theorem renumOps_length (n : Nat) (ops : List Op) : (renumOps n ops).length = ops.length := by
  induction ops generalizing n with
  | nil => rfl
  | cons o os ih => simp [renumOps, ih]

/-! ### routines -/

/-- a routine the compile command can write so that the decompile command can read it back:
a known routine type; a coroutine has its name -/
def RoutineOk (i : RoutineInfo) (name : Option String) : Prop :=
  i.kind ≠ .invalid ∧ (i.kind = .coroutine → name.isSome)

/-- the `SsbCoroutine` the decompile command registers for routine number `idx` -/
def coroEntry (idx : Nat) (i : RoutineInfo) (name : Option String) : Int × String :=
  match i.kind, name with
  | .coroutine, some nm => ((idx : Int), nm)
  | _, _ => (-1, "n/a")

theorem coroEntry_of_not (idx : Nat) (i : RoutineInfo) (nm : Option String) (hc : i.kind ≠ .coroutine) :
    coroEntry idx i nm = (-1, "n/a") := by
  obtain ⟨k, l, n⟩ := i
  cases k <;> first | rfl | exact absurd rfl hc

theorem coroEntry_fst (idx : Nat) (i : RoutineInfo) (nm : Option String) :
    (coroEntry idx i nm).1 = (idx : Int) ∨ (coroEntry idx i nm).1 = -1 := by
  obtain ⟨k, l, n⟩ := i
  cases k <;> cases nm <;> simp [coroEntry]

theorem targetOf_targetJ (k : RoutineKind) (i : RoutineInfo) :
    targetOf k (targetJ i) = .ok (match i.linkedToName with
        | some n => ⟨k, -1, some n⟩
        | none => ⟨k, i.linkedTo, none⟩) := by
  unfold targetJ
  cases i.linkedToName <;> simp [targetOf]

theorem readRoutine_routineJ (n idx : Nat) (i : RoutineInfo) (name : Option String) (ops : List Op)
    (hr : RoutineOk i name) (ho : ∀ o ∈ ops, OpOk o) :
    ∃ j, routineJ i name ops = .ok j ∧
      readRoutine n idx j = .ok ⟨normInfo i, coroEntry idx i name, renumOps n ops⟩ := by
  obtain ⟨i_kind, i_l, i_n⟩ := i
  obtain ⟨h1, h2⟩ := hr
  cases i_kind with
  | invalid => exact absurd rfl h1
  | coroutine =>
    have := h2 rfl
    cases name with
    | none => simp at this
    | some nm =>
      refine ⟨_, rfl, ?_⟩
      simp [readRoutine, look, Dict.get?, nameJ, withOps, readOpsJ, opsJ, readOpsFrom_map n ops ho, normInfo, coroEntry]
  | generic =>
    refine ⟨_, rfl, ?_⟩
    simp [readRoutine, look, Dict.get?, withOps, readOpsJ, opsJ, readOpsFrom_map n ops ho, normInfo, coroEntry]
  | actor =>
    refine ⟨_, rfl, ?_⟩
    simp [readRoutine, look, Dict.get?, withOps, readOpsJ, opsJ, readOpsFrom_map n ops ho, normInfo, coroEntry]
    rw [targetOf_targetJ]
    cases i_n <;> simp
  | object =>
    refine ⟨_, rfl, ?_⟩
    simp [readRoutine, look, Dict.get?, withOps, readOpsJ, opsJ, readOpsFrom_map n ops ho, normInfo, coroEntry]
    rw [targetOf_targetJ]
    cases i_n <;> simp
  | performer =>
    refine ⟨_, rfl, ?_⟩
    simp [readRoutine, look, Dict.get?, withOps, readOpsJ, opsJ, readOpsFrom_map n ops ho, normInfo, coroEntry]
    rw [targetOf_targetJ]
    cases i_n <;> simp

/-! ### routine sets -/

/-- the three lists have the same length, every routine can be written and read, every fixed-point value is normal -/
def AllOk : List RoutineInfo → List (Option String) → List (List Op) → Prop
  | [], [], [] => True
  | i :: is, n :: ns, o :: os => RoutineOk i n ∧ (∀ x ∈ o, OpOk x) ∧ AllOk is ns os
  | _, _, _ => False

def readBack (n idx : Nat) : List RoutineInfo → List (Option String) → List (List Op) → List RRoutine
  | i :: is, nm :: ns, o :: os =>
    ⟨normInfo i, coroEntry idx i nm, renumOps n o⟩ :: readBack (n + o.length) (idx + 1) is ns os
  | _, _, _ => []

theorem readRoutines_routinesJ (n idx : Nat) (is : List RoutineInfo) (ns : List (Option String)) (os : List (List Op))
    (h : AllOk is ns os) :
    ∃ js, routinesJ is ns os = .ok js ∧ readRoutinesFrom n idx js = .ok (readBack n idx is ns os) := by
  induction is generalizing n idx ns os with
  | nil =>
    cases ns <;> cases os <;> simp [AllOk] at h
    exact ⟨[], rfl, rfl⟩
  | cons i is ih =>
    cases ns with
    | nil => cases os <;> simp [AllOk] at h
    | cons nm ns =>
      cases os with
      | nil => simp [AllOk] at h
      | cons o os =>
        obtain ⟨h1, h2, h3⟩ := h
        obtain ⟨j, hj1, hj2⟩ := readRoutine_routineJ n idx i nm o h1 h2
        obtain ⟨js, hjs1, hjs2⟩ := ih (n + o.length) (idx + 1) ns os h3
        refine ⟨j :: js, ?_, ?_⟩
        · simp [routinesJ, hj1, hjs1, consR]
        · simp [readRoutinesFrom, hj2, renumOps_length, hjs2, readBack]

theorem readBack_infos (n idx : Nat) (is : List RoutineInfo) (ns : List (Option String)) (os : List (List Op))
    (h : AllOk is ns os) : (readBack n idx is ns os).map (·.info) = is.map normInfo := by
  induction is generalizing n idx ns os with
  | nil => cases ns <;> cases os <;> simp [AllOk] at h; rfl
  | cons i is ih =>
    cases ns with
    | nil => cases os <;> simp [AllOk] at h
    | cons nm ns =>
      cases os with
      | nil => simp [AllOk] at h
      | cons o os => simp [readBack, ih (n + o.length) (idx + 1) ns os h.2.2]

theorem readBack_ops (n idx : Nat) (is : List RoutineInfo) (ns : List (Option String)) (os : List (List Op))
    (h : AllOk is ns os) : (readBack n idx is ns os).map (·.ops) = renumRoutines n os := by
  induction is generalizing n idx ns os with
  | nil => cases ns <;> cases os <;> simp [AllOk] at h; rfl
  | cons i is ih =>
    cases ns with
    | nil => cases os <;> simp [AllOk] at h
    | cons nm ns =>
      cases os with
      | nil => simp [AllOk] at h
      | cons o os => simp [readBack, renumRoutines, ih (n + o.length) (idx + 1) ns os h.2.2]

theorem readBack_length (n idx : Nat) (is : List RoutineInfo) (ns : List (Option String)) (os : List (List Op))
    (h : AllOk is ns os) : (readBack n idx is ns os).length = is.length := by
  have := congrArg List.length (readBack_infos n idx is ns os h)
  simpa using this

/-! ### the decompiler's id → name table `{x.id: x.name for x in named_coroutines}` -/

/-- the value of the last item with key `key` -/
def lastVal {β : Type} : List (Int × β) → Int → Option β
  | [], _ => none
  | x :: xs, key =>
    match lastVal xs key with
    | some v => some v
    | none => if x.1 = key then some x.2 else none

theorem get?_foldl_set {β : Type} (items acc : List (Int × β)) (key : Int) :
    Dict.get? (items.foldl (fun d kv => Dict.set d kv.1 kv.2) acc) key =
      match lastVal items key with
      | some v => some v
      | none => Dict.get? acc key := by
  induction items generalizing acc with
  | nil => rfl
  | cons x xs ih =>
    simp only [List.foldl_cons, ih, lastVal]
    cases hl : lastVal xs key with
    | some v => rfl
    | none =>
      simp only
      by_cases hx : x.1 = key
      · simp only [hx, ↓reduceIte]; rw [← hx]; exact Dict.get?_set_self acc x.1 x.2
      · simp only [hx, ↓reduceIte]; exact Dict.get?_set_other acc x.1 key x.2 hx

theorem get?_ofItems {β : Type} (items : List (Int × β)) (key : Int) :
    Dict.get? (Dict.ofItems items) key = lastVal items key := by
  unfold Dict.ofItems
  rw [get?_foldl_set]
  cases lastVal items key <;> rfl

/-- the ids registered for the routines from number `idx` on are −1 or at least `idx` -/
theorem readBack_ids (n idx : Nat) (is : List RoutineInfo) (ns : List (Option String)) (os : List (List Op)) :
    ∀ r ∈ readBack n idx is ns os, r.coro.1 = -1 ∨ (idx : Int) ≤ r.coro.1 := by
  induction is generalizing n idx ns os with
  | nil => intro r hr; cases ns <;> cases os <;> simp [readBack] at hr
  | cons i is ih =>
    cases ns with
    | nil => intro r hr; simp [readBack] at hr
    | cons nm ns =>
      cases os with
      | nil => intro r hr; simp [readBack] at hr
      | cons o os =>
        intro r hr
        simp only [readBack, List.mem_cons] at hr
        rcases hr with rfl | hr
        · simp only [coroEntry]
          split
          · right; simp
          · left; rfl
        · rcases ih (n + o.length) (idx + 1) ns os r hr with h | h
          · left; exact h
          · right; omega

theorem lastVal_none {β : Type} (items : List (Int × β)) (key : Int) (h : ∀ x ∈ items, x.1 ≠ key) :
    lastVal items key = none := by
  induction items with
  | nil => rfl
  | cons x xs ih =>
    simp only [lastVal, ih (fun y hy => h y (by simp [hy]))]
    simp [h x (by simp)]

/-- looking up routine number `idx + k` in the table: the name of a COROUTINE routine, nothing otherwise -/
theorem lastVal_readBack (n idx k : Nat) (is : List RoutineInfo) (ns : List (Option String)) (os : List (List Op))
    (h : AllOk is ns os) :
    lastVal ((readBack n idx is ns os).map (·.coro)) ((idx + k : Nat) : Int) = ((corosRead is ns)[k]?).join := by
  induction is generalizing n idx k ns os with
  | nil => cases ns <;> cases os <;> simp [AllOk] at h; simp [readBack, lastVal, corosRead]
  | cons i is ih =>
    cases ns with
    | nil => cases os <;> simp [AllOk] at h
    | cons nm ns =>
      cases os with
      | nil => simp [AllOk] at h
      | cons o os =>
        obtain ⟨h1, _, h3⟩ := h
        simp only [readBack, List.map_cons, lastVal, corosRead]
        cases k with
        | zero =>
          have hnone : lastVal ((readBack (n + o.length) (idx + 1) is ns os).map (·.coro)) ((idx + 0 : Nat) : Int) = none := by
            apply lastVal_none
            intro x hx
            simp only [List.mem_map] at hx
            obtain ⟨r, hr, rfl⟩ := hx
            rcases readBack_ids (n + o.length) (idx + 1) is ns os r hr with e | e
            · rw [e]; omega
            · omega
          rw [hnone]
          simp only [List.getElem?_cons_zero, Option.join_some]
          by_cases hc : i.kind = .coroutine
          · have := h1.2 hc
            cases nm with
            | none => simp at this
            | some x => simp [coroEntry, hc]
          · simp [hc, coroEntry_of_not idx i nm hc]
        | succ k =>
          have e : ((idx + (k + 1) : Nat) : Int) = ((idx + 1 + k : Nat) : Int) := by omega
          rw [e, ih (n + o.length) (idx + 1) k ns os h3]
          simp only [List.getElem?_cons_succ]
          cases hv : ((corosRead is ns)[k]?).join with
          | some v => rfl
          | none =>
            simp only
            have : (coroEntry idx i nm).1 ≠ (idx : Int) + 1 + (k : Int) := by
              rcases coroEntry_fst idx i nm with e | e <;> rw [e] <;> omega
            have e2 : ((idx + 1 + k : Nat) : Int) = (idx : Int) + 1 + (k : Int) := by omega
            rw [e2, if_neg this]

theorem corosRead_length (is : List RoutineInfo) (ns : List (Option String)) (os : List (List Op)) (h : AllOk is ns os) :
    (corosRead is ns).length = is.length := by
  induction is generalizing ns os with
  | nil => cases ns <;> cases os <;> simp [AllOk] at h; rfl
  | cons i is ih =>
    cases ns with
    | nil => cases os <;> simp [AllOk] at h
    | cons nm ns =>
      cases os with
      | nil => simp [AllOk] at h
      | cons o os => simp [corosRead, ih ns os h.2.2]

/-- every coroutine is registered under its routine index: each COROUTINE routine finds its name -/
theorem coroTable_readBack (n : Nat) (is : List RoutineInfo) (ns : List (Option String)) (os : List (List Op))
    (h : AllOk is ns os) : coroTable (readBack n 0 is ns os) = corosRead is ns := by
  unfold coroTable
  apply List.ext_getElem
  · simp [readBack_length n 0 is ns os h, corosRead_length is ns os h]
  · intro k h1 h2
    simp only [List.getElem_map, List.getElem_range]
    rw [get?_ofItems]
    have := lastVal_readBack n 0 k is ns os h
    simp only [Nat.zero_add] at this
    rw [Int.ofNat_eq_natCast, this]
    simp only [List.length_map, List.length_range] at h1
    have hk : k < (corosRead is ns).length := h2
    simp [List.getElem?_eq_getElem hk]

/-- hypotheses of the round trip, on a routine set -/
def Wf (c : RoutineSet) : Prop := AllOk c.infos c.coros c.ops

theorem toSet_readBack (c : RoutineSet) (h : Wf c) : toSet (readBack 0 0 c.infos c.coros c.ops) = renum c := by
  unfold toSet renum
  rw [readBack_infos 0 0 _ _ _ h, readBack_ops 0 0 _ _ _ h, coroTable_readBack 0 _ _ _ h]

/-- documented settings pass `check_settings` -/
theorem checkSettings_of_shape (s : J) (rest : List (String × J)) (h : settingsShape s = true) :
    checkSettings (("settings", s) :: rest) = .ok () := by
  cases s with
  | obj st =>
    simp only [settingsShape, Bool.and_eq_true] at h
    obtain ⟨h1, h2⟩ := h
    simp only [checkSettings, look, Dict.get?, ↓reduceIte]
    split at h1
    · rename_i x hx
      simp only [look] at hx
      rw [hx]
      simp only
      split at h2
      · rename_i dm hdm
        simp only [look] at hdm
        rw [hdm]
        simp only [Bool.and_eq_true] at h2
        obtain ⟨⟨⟨a, b⟩, c⟩, d⟩ := h2
        have e : ∀ k, (match look dm k with | some (.str _) => true | _ => false) = true → (look dm k).isSome = true := by
          intro k hk
          split at hk
          · rename_i hh; rw [hh]; rfl
          · simp at hk
        simp only [look] at e
        simp [e _ a, e _ b, e _ c, e _ d]
      · simp at h2
    · simp at h1
  | _ => simp [settingsShape] at h

/-- reading back a document in which the ops of `c` are printed as they are: same routines, ops and parameters, with the
offsets replaced by the 1-based positions — whatever the offsets were -/
theorem readJson_buildJsonRaw (s : J) (c : RoutineSet) (hs : settingsShape s = true) (h : Wf c) :
    ∃ j, buildJsonRaw s c = .ok j ∧ readJson j = .ok (renum c) := by
  obtain ⟨js, h1, h2⟩ := readRoutines_routinesJ 0 0 c.infos c.coros c.ops h
  refine ⟨.obj [("settings", s), ("routines", .arr js)], ?_, ?_⟩
  · simp [buildJsonRaw, h1]
  · unfold readJson readRaw
    simp only [checkSettings_of_shape s _ hs]
    simp [look, Dict.get?, h2, toSet_readBack c h]

/-- the position table does not touch what `Wf` speaks about -/
theorem remap_wf (c : RoutineSet) (h : Wf c) : Wf (remap c) := by
  unfold Wf at *
  have key : ∀ (offs : List Int) (is : List RoutineInfo) (ns : List (Option String)) (os : List (List Op)),
      AllOk is ns os → AllOk is ns (os.map fun r => r.map (remapOp offs)) := by
    intro offs is
    induction is with
    | nil => intro ns os h; cases ns <;> cases os <;> simp [AllOk] at h ⊢
    | cons i is ih =>
      intro ns os h
      cases ns with
      | nil => cases os <;> simp [AllOk] at h
      | cons nm ns =>
        cases os with
        | nil => simp [AllOk] at h
        | cons o os =>
          obtain ⟨h1, h2, h3⟩ := h
          refine ⟨h1, ?_, ih ns os h3⟩
          intro x hx
          simp only [List.mem_map] at hx
          obtain ⟨y, hy, rfl⟩ := hx
          have hy2 := h2 y hy
          unfold remapOp
          split
          · exact hy2
          · split
            · split
              · intro p hp
                simp only at hp
                rcases List.mem_or_eq_of_mem_set hp with hp | rfl
                · exact hy2 p hp
                · trivial
              · exact hy2
            · exact hy2
  exact key c.offsets c.infos c.coros c.ops h

/-- **reading back what the compile command writes** (all routine sets): the canonical, positional form -/
theorem readJson_buildJson (s : J) (c : RoutineSet) (hs : settingsShape s = true) (h : Wf c) :
    ∃ j, buildJson s c = .ok j ∧ readJson j = .ok (canon c) :=
  readJson_buildJsonRaw s (remap c) hs (remap_wf c h)

/-! ### positions -/

theorem renumOps_append (n : Nat) (a b : List Op) :
    renumOps n (a ++ b) = renumOps n a ++ renumOps (n + a.length) b := by
  induction a generalizing n with
  | nil => simp [renumOps]
  | cons x xs ih =>
    simp only [List.cons_append, renumOps, ih (n + 1), List.length_cons]
    congr 3
    omega

theorem renumRoutines_flatten (n : Nat) (rs : List (List Op)) :
    (renumRoutines n rs).flatten = renumOps n rs.flatten := by
  induction rs generalizing n with
  | nil => rfl
  | cons r rs ih => simp [renumRoutines, renumOps_append, ih]

theorem renumRoutines_lengths (n : Nat) (rs : List (List Op)) :
    (renumRoutines n rs).map List.length = rs.map List.length := by
  induction rs generalizing n with
  | nil => rfl
  | cons r rs ih => simp [renumRoutines, renumOps_length, ih]

theorem renumOps_offsets (n : Nat) (l : List Op) :
    (renumOps n l).map (·.offset) = (List.range' (n + 1) l.length).map fun k : Nat => (k : Int) := by
  induction l generalizing n with
  | nil => rfl
  | cons o os ih => simp [renumOps, ih (n + 1), List.range'_succ]

theorem renumOps_getElem? (n : Nat) (l : List Op) (k : Nat) :
    (renumOps n l)[k]? = (l[k]?).map fun o => ⟨((n + k + 1 : Nat) : Int), o.name, o.params.map normParam⟩ := by
  induction l generalizing n k with
  | nil => simp [renumOps]
  | cons o os ih =>
    cases k with
    | zero => simp [renumOps]
    | succ k =>
      simp only [renumOps, List.getElem?_cons_succ, ih (n + 1) k]
      congr 1
      funext o
      congr 2
      omega

theorem posOf_seq (n len : Nat) (t : Int) :
    posOf ((List.range' (n + 1) len).map fun k : Nat => (k : Int)) t =
      if (n : Int) + 1 ≤ t ∧ t ≤ n + len then some (t - n) else none := by
  induction len generalizing n with
  | zero =>
    simp only [List.range'_zero, List.map_nil, posOf]
    rw [if_neg]; omega
  | succ len ih =>
    simp only [List.range'_succ, List.map_cons, posOf, ih (n + 1)]
    by_cases h : ((n + 1 : Nat) : Int) = t
    · rw [if_pos h, if_pos (by omega)]
      congr 1; omega
    · rw [if_neg h]
      by_cases h2 : ((n + 1 : Nat) : Int) + 1 ≤ t ∧ t ≤ ((n + 1 : Nat) : Int) + len
      · rw [if_pos h2, if_pos (by omega)]
        simp only [Option.map_some]
        congr 1; omega
      · rw [if_neg h2, if_neg (by omega)]
        rfl

theorem posOf_bound (offs : List Int) (t p : Int) (h : posOf offs t = some p) : 1 ≤ p ∧ p ≤ offs.length := by
  induction offs generalizing p with
  | nil => simp [posOf] at h
  | cons x xs ih =>
    simp only [posOf] at h
    split at h
    · cases h
      simp only [List.length_cons]
      omega
    · cases hq : posOf xs t with
      | none => simp [hq] at h
      | some q =>
        simp [hq] at h
        have := ih q hq
        subst h
        simp only [List.length_cons]
        omega

theorem posOf_of_mem (offs : List Int) (t : Int) (h : t ∈ offs) : ∃ p, posOf offs t = some p := by
  induction offs with
  | nil => simp at h
  | cons x xs ih =>
    simp only [posOf]
    by_cases hx : x = t
    · exact ⟨1, by simp [hx]⟩
    · simp only [List.mem_cons] at h
      rcases h with h | h
      · exact absurd h.symm hx
      · obtain ⟨p, hp⟩ := ih h
        exact ⟨p + 1, by simp [hx, hp]⟩

theorem mem_of_posOf (offs : List Int) (t p : Int) (h : posOf offs t = some p) : t ∈ offs := by
  induction offs generalizing p with
  | nil => simp [posOf] at h
  | cons x xs ih =>
    simp only [posOf] at h
    split at h
    · rename_i hx; simp [hx]
    · cases hq : posOf xs t with
      | none => simp [hq] at h
      | some q => simp [ih q hq]

/-- in a set numbered 1..N a number in range denotes the op at that position -/
theorem posOf_seq_self (N : Nat) (p : Int) (h1 : 1 ≤ p) (h2 : p ≤ N) :
    posOf ((List.range' 1 N).map fun k : Nat => (k : Int)) p = some p := by
  have := posOf_seq 0 N p
  simp only [Nat.zero_add] at this
  rw [this, if_pos (by omega)]
  congr 1; omega

theorem posOf_seq_some (N : Nat) (t p : Int)
    (h : posOf ((List.range' 1 N).map fun k : Nat => (k : Int)) t = some p) : p = t := by
  have := posOf_seq 0 N t
  simp only [Nat.zero_add] at this
  rw [this] at h
  split at h
  · cases h; omega
  · cases h

/-! ### jump parameters under the two rewritings -/

theorem normParam_int (p : Param) (t : Int) : normParam p = .int t ↔ p = .int t := by
  cases p <;> simp [normParam]

theorem normParam_not_int (p : Param) (h : ∀ t, p ≠ .int t) : ∀ t, normParam p ≠ .int t := by
  intro t e; exact h t ((normParam_int p t).1 e)

theorem jumpOf_norm (off : Int) (o : Op) : jumpOf ⟨off, o.name, o.params.map normParam⟩ = jumpOf o := by
  unfold jumpOf
  simp only
  cases jumpIdx o.name with
  | none => rfl
  | some i =>
    simp only [List.getElem?_map]
    cases hp : o.params[i]? with
    | none => rfl
    | some p =>
      cases p <;> simp [normParam]

/-- the parameters with the jump parameter (if the op has one) blanked out -/
def blank (o : Op) : List Param :=
  match jumpIdx o.name with
  | none => o.params
  | some i =>
    match o.params[i]? with
    | some (.int _) => o.params.set i (.int 0)
    | _ => o.params

theorem map_set' {α β : Type} (f : α → β) (l : List α) (i : Nat) (a : α) :
    (l.set i a).map f = (l.map f).set i (f a) := by
  induction l generalizing i with
  | nil => rfl
  | cons x xs ih => cases i <;> simp [ih]

theorem blank_norm (off : Int) (o : Op) : blank ⟨off, o.name, o.params.map normParam⟩ = (blank o).map normParam := by
  unfold blank
  simp only
  cases jumpIdx o.name with
  | none => rfl
  | some i =>
    simp only [List.getElem?_map]
    cases hp : o.params[i]? with
    | none => rfl
    | some p =>
      cases p <;> simp [normParam]

theorem remapOp_name (offs : List Int) (o : Op) : (remapOp offs o).name = o.name := by
  unfold remapOp
  split
  · rfl
  · split
    · split <;> rfl
    · rfl

theorem remapOp_offset (offs : List Int) (o : Op) : (remapOp offs o).offset = o.offset := by
  unfold remapOp
  split
  · rfl
  · split
    · split <;> rfl
    · rfl

theorem getElem?_set_self' {α : Type} (l : List α) (i : Nat) (a b : α) (h : l[i]? = some b) :
    (l.set i a)[i]? = some a := by
  rw [List.getElem?_set]
  have : i < l.length := by
    rcases Nat.lt_or_ge i l.length with h' | h'
    · exact h'
    · rw [List.getElem?_eq_none h'] at h; cases h
  simp [this]

theorem jumpOf_remapOp (offs : List Int) (o : Op) :
    jumpOf (remapOp offs o) = (jumpOf o).map fun t => (posOf offs t).getD t := by
  unfold remapOp jumpOf
  cases hi : jumpIdx o.name with
  | none => simp [hi]
  | some i =>
    simp only
    cases hp : o.params[i]? with
    | none => simp [hi, hp]
    | some p =>
      cases p with
      | int t =>
        simp only
        cases hq : posOf offs t with
        | none => simp [hi, hp, hq]
        | some q => simp [hi, hq, getElem?_set_self' o.params i _ _ hp]
      | _ => simp [hi, hp]

theorem set_set' {α : Type} (l : List α) (i : Nat) (a b : α) : (l.set i a).set i b = l.set i b := by
  induction l generalizing i with
  | nil => rfl
  | cons x xs ih => cases i <;> simp [ih]

theorem blank_remapOp (offs : List Int) (o : Op) : blank (remapOp offs o) = blank o := by
  unfold remapOp blank
  cases hi : jumpIdx o.name with
  | none => simp [hi]
  | some i =>
    simp only
    cases hp : o.params[i]? with
    | none => simp [hi, hp]
    | some p =>
      cases p with
      | int t =>
        simp only
        cases hq : posOf offs t with
        | none => simp [hi, hp]
        | some q => simp [hi, getElem?_set_self' o.params i _ _ hp]
      | _ => simp [hi, hp]

theorem set_same' {α : Type} (l : List α) (i : Nat) (a : α) (h : l[i]? = some a) : l.set i a = l := by
  induction l generalizing i with
  | nil => rfl
  | cons x xs ih =>
    cases i with
    | zero => simp at h; simp [h]
    | succ i => simp at h; simp [ih i h]

/-- the repair changes nothing where the jump parameter already is the position -/
theorem remapOp_id (offs : List Int) (o : Op) (h : ∀ t, jumpOf o = some t → posOf offs t = some t) :
    remapOp offs o = o := by
  unfold remapOp
  unfold jumpOf at h
  cases hi : jumpIdx o.name with
  | none => rfl
  | some i =>
    simp only
    cases hp : o.params[i]? with
    | none => rfl
    | some p =>
      cases p with
      | int t =>
        simp only [hi, hp] at h
        simp only [h t rfl, set_same' o.params i _ hp]
      | _ => rfl

/-! ### flat views -/

theorem renum_flat (c : RoutineSet) : (renum c).flat = renumOps 0 c.flat := by
  simp [renum, RoutineSet.flat, renumRoutines_flatten]

theorem renum_offsets (c : RoutineSet) :
    (renum c).offsets = (List.range' 1 c.flat.length).map fun k : Nat => (k : Int) := by
  unfold RoutineSet.offsets
  rw [renum_flat, renumOps_offsets]

theorem remap_flat (c : RoutineSet) : (remap c).flat = c.flat.map (remapOp c.offsets) := by
  simp [remap, RoutineSet.flat, List.map_flatten]

theorem remap_offsets (c : RoutineSet) : (remap c).offsets = c.offsets := by
  unfold RoutineSet.offsets
  rw [remap_flat]
  simp [remapOp_offset]

theorem offsets_length (c : RoutineSet) : c.offsets.length = c.flat.length := by
  simp [RoutineSet.offsets]

end ESV.Cli
