import ESV.Cli.Lemmas
/-
Acceptance: every document with the documented structure (position coordinates integers or strings) is read by
check_settings + read_routines without an exception.
-/
namespace ESV.Cli
open ESV ESV.Lit

/-! ### decimal strings -/

theorem foldl_readStep_some (cs : Str) (h : ∀ c ∈ cs, isDigit c = true) (acc : Nat) :
    ∃ m, cs.foldl readStep (some acc) = some m := by
  induction cs generalizing acc with
  | nil => exact ⟨acc, rfl⟩
  | cons c cs ih =>
    simp only [List.foldl_cons, readStep, h c (by simp), ↓reduceIte]
    exact ih (fun d hd => h d (by simp [hd])) _

theorem readNat_digits (cs : Str) (h : isDigits cs = true) : ∃ m, readNat cs = some m := by
  simp only [isDigits, Bool.and_eq_true, Bool.not_eq_true', List.all_eq_true] at h
  unfold readNat
  rw [h.1]
  exact foldl_readStep_some cs h.2 0

theorem isDigits_head_ne (c : Char) (cs : Str) (h : isDigits (c :: cs) = true) (x : Char) (hx : isDigit x = false) : c ≠ x := by
  simp only [isDigits, Bool.and_eq_true, List.all_eq_true] at h
  have := h.2 c (by simp)
  intro e; subst e; simp [this] at hx

theorem expsNat_canon (a : Str) (h : isCanonNat a = true) : ∃ n, expsNat a = some n := by
  simp only [isCanonNat, Bool.or_eq_true, decide_eq_true_eq, Bool.and_eq_true] at h
  rcases h with rfl | ⟨hd, hh⟩
  · exact ⟨0, by decide⟩
  · cases a with
    | nil => simp at hh
    | cons c cs =>
      simp only [bne_iff_ne, ne_eq] at hh
      unfold expsNat
      simp only [hh, ↓reduceIte]
      exact readNat_digits (c :: cs) hd

theorem isCanonNat_digits (a : Str) (h : isCanonNat a = true) : isDigits a = true := by
  simp only [isCanonNat, Bool.or_eq_true, decide_eq_true_eq, Bool.and_eq_true] at h
  rcases h with rfl | ⟨hd, _⟩
  · decide
  · exact hd

theorem isDigits_ne_nil (a : Str) (h : isDigits a = true) : ∃ c cs, a = c :: cs ∧ isDigit c = true := by
  cases a with
  | nil => simp [isDigits] at h
  | cons c cs =>
    simp only [isDigits, Bool.and_eq_true, List.all_eq_true] at h
    exact ⟨c, cs, rfl, h.2 c (by simp)⟩

/-- `exps_int` on an optional minus sign followed by a canonical natural -/
theorem expsInt_signed (s : Str) (h : isCanonNat (stripMinus s) = true) : ∃ i, expsInt s = some i := by
  cases s with
  | nil => simp [stripMinus, isCanonNat, isDigits] at h
  | cons c cs =>
    by_cases hc : c = '-'
    · subst hc
      simp only [stripMinus] at h
      obtain ⟨n, hn⟩ := expsNat_canon cs h
      exact ⟨-(Int.ofNat n), by simp [expsInt, hn]⟩
    · have hs : stripMinus (c :: cs) = c :: cs := by
        unfold stripMinus
        split
        · rename_i heq; cases heq; exact absurd rfl hc
        · rfl
      rw [hs] at h
      obtain ⟨n, hn⟩ := expsNat_canon (c :: cs) h
      refine ⟨Int.ofNat n, ?_⟩
      unfold expsInt
      split
      · rename_i heq; cases heq; exact absurd rfl hc
      · simp [hn]

/-! ### split -/

theorem splitOn_cons_ne (sep c : Char) (r : Str) (h : c ≠ sep) :
    splitOn sep (c :: r) = (c :: (splitAux sep r).1) :: (splitAux sep r).2 := by
  simp [splitOn, splitAux, h]

theorem splitOn_stripMinus (s : Str) :
    ∃ (sign a : Str) (rest : List Str), (sign = [] ∨ sign = ['-']) ∧
      splitOn '.' (stripMinus s) = a :: rest ∧ splitOn '.' s = (sign ++ a) :: rest := by
  cases s with
  | nil => exact ⟨[], [], [], Or.inl rfl, rfl, rfl⟩
  | cons c cs =>
    by_cases hc : c = '-'
    · subst hc
      refine ⟨['-'], (splitAux '.' cs).1, (splitAux '.' cs).2, Or.inr rfl, rfl, ?_⟩
      rw [splitOn_cons_ne '.' '-' cs (by decide)]
      rfl
    · have hs : stripMinus (c :: cs) = c :: cs := by
        unfold stripMinus
        split
        · rename_i heq; cases heq; exact absurd rfl hc
        · rfl
      refine ⟨[], (splitAux '.' (c :: cs)).1, (splitAux '.' (c :: cs)).2, Or.inl rfl, ?_, rfl⟩
      rw [hs]; rfl

theorem stripMinus_sign (sign a : Str) (hs : sign = [] ∨ sign = ['-']) (ha : isDigits a = true) :
    stripMinus (sign ++ a) = a := by
  obtain ⟨c, cs, rfl, hc⟩ := isDigits_ne_nil a ha
  rcases hs with rfl | rfl
  · simp only [List.nil_append]
    unfold stripMinus
    split
    · rename_i heq; cases heq; simp [isDigit] at hc
    · rfl
  · rfl

/-- `parse_pos_mark_arg` accepts every whole/half tile string -/
theorem cliParsePos_total (s : Str) (h : isCoordLit s = true) : ∃ p, cliParsePos s = .ok p := by
  obtain ⟨sign, a0, rest, hsign, hq, hsplit⟩ := splitOn_stripMinus s
  unfold isCoordLit at h
  unfold cliParsePos
  rw [hsplit]
  rw [hq] at h
  match rest, h with
  | [], h =>
    have : isCanonNat (stripMinus (sign ++ a0)) = true := by
      rw [stripMinus_sign sign a0 hsign (isCanonNat_digits a0 h)]; exact h
    obtain ⟨i, hi⟩ := expsInt_signed (sign ++ a0) this
    exact ⟨(i, 0), by simp [hi]⟩
  | [b], h =>
    simp only [Bool.and_eq_true, decide_eq_true_eq] at h
    obtain ⟨ha, rfl⟩ := h
    have : isCanonNat (stripMinus (sign ++ a0)) = true := by
      rw [stripMinus_sign sign a0 hsign (isCanonNat_digits a0 ha)]; exact ha
    obtain ⟨i, hi⟩ := expsInt_signed (sign ++ a0) this
    exact ⟨(i, 2), by simp [hi]⟩

/-! ### fixed point -/

theorem splitAux_snd_nil (sep : Char) (t : Str) (h : (splitAux sep t).2 = []) : (splitAux sep t).1 = t := by
  induction t with
  | nil => rfl
  | cons c cs ih =>
    by_cases hc : c = sep
    · simp [splitAux, hc] at h
    · simp only [splitAux, hc, ↓reduceIte] at h ⊢
      rw [ih h]

theorem splitFirst_of_splitAux_nil (sep : Char) (t : Str) (h : (splitAux sep t).2 = []) :
    splitFirst sep t = (t, none) := by
  induction t with
  | nil => rfl
  | cons c cs ih =>
    by_cases hc : c = sep
    · simp [splitAux, hc] at h
    · simp only [splitAux, hc, ↓reduceIte] at h
      simp [splitFirst, hc, ih h]

theorem splitFirst_of_splitAux_one (sep : Char) (t b : Str) (h : (splitAux sep t).2 = [b]) :
    splitFirst sep t = ((splitAux sep t).1, some b) := by
  induction t with
  | nil => simp [splitAux] at h
  | cons c cs ih =>
    by_cases hc : c = sep
    · simp only [splitAux, hc, ↓reduceIte, List.cons.injEq] at h ⊢
      have := splitAux_snd_nil sep cs h.2
      simp [splitFirst, ← h.1, this]
    · simp only [splitAux, hc, ↓reduceIte] at h ⊢
      simp [splitFirst, hc, ih h]

theorem all_digits_of_isDigits (a : Str) (h : isDigits a = true) : a.all isDigit = true := by
  simp only [isDigits, Bool.and_eq_true] at h; exact h.2

theorem pyInt10_digits (a : Str) (h : isDigits a = true) : ∃ i, pyInt10 a = some i := by
  obtain ⟨c, cs, rfl, hc⟩ := isDigits_ne_nil a h
  obtain ⟨m, hm⟩ := readNat_digits (c :: cs) h
  refine ⟨Int.ofNat m, ?_⟩
  unfold pyInt10 readInt
  split
  · rename_i heq; cases heq; simp [isDigit] at hc
  · simp [hm]

theorem pyInt10_neg_digits (a : Str) (h : isDigits a = true) : ∃ i, pyInt10 ('-' :: a) = some i := by
  obtain ⟨m, hm⟩ := readNat_digits a h
  exact ⟨-(Int.ofNat m), by simp [pyInt10, readInt, hm]⟩

theorem isDigits_dropWhile (a : Str) (h : a.all isDigit = true) (hne : a.dropWhile (· = '0') ≠ []) :
    isDigits (a.dropWhile (· = '0')) = true := by
  simp only [isDigits, Bool.and_eq_true, Bool.not_eq_true']
  refine ⟨by cases hh : a.dropWhile (· = '0') <;> simp_all, ?_⟩
  simp only [List.all_eq_true] at h ⊢
  intro c hc
  exact h c ((List.dropWhile_suffix _).subset hc)

/-- `SsbOpParamFixedPoint.from_str` accepts every decimal number string -/
theorem fixedFromStr_total (s : Str) (h : isNumberLit s = true) : ∃ v, fixedFromStr s = .ok v := by
  obtain ⟨sign, a, rest, hsign, hq, hsplit⟩ := splitOn_stripMinus s
  unfold isNumberLit at h
  rw [hq] at h
  have h1 : (splitAux '.' s).1 = sign ++ a := by
    have := congrArg List.head? hsplit; simpa [splitOn] using this
  have h2 : (splitAux '.' s).2 = rest := by
    have := congrArg List.tail hsplit; simpa [splitOn] using this
  -- the whole part after normalisation is "-0" or a decimal integer
  have hw : ∀ w0 : Str, w0 = lstripC '0' (sign ++ a) → isDigits a = true →
      let w : Str := if w0 = [] then ['0'] else if rstripC '0' w0 = ['-'] then ['-', '0'] else w0
      w = ['-', '0'] ∨ ∃ i, pyInt10 w = some i := by
    intro w0 hw0 ha
    simp only
    by_cases e1 : w0 = []
    · simp only [e1, ↓reduceIte]; right; exact ⟨0, by decide⟩
    · simp only [e1, ↓reduceIte]
      by_cases e2 : rstripC '0' w0 = ['-']
      · simp only [e2, ↓reduceIte]; left; trivial
      · simp only [e2, ↓reduceIte]
        right
        rcases hsign with rfl | rfl
        · simp only [List.nil_append, lstripC] at hw0
          subst hw0
          exact pyInt10_digits _ (isDigits_dropWhile a (all_digits_of_isDigits a ha) e1)
        · have : w0 = '-' :: a := by
            subst hw0; simp [lstripC]
          subst this
          exact pyInt10_neg_digits a ha
  have fin : ∀ (w : Str) (f : Str), f.all isDigit = true → (w = ['-', '0'] ∨ ∃ i, pyInt10 w = some i) →
      ∃ v, (if w = ['-', '0'] then fixedMk none f
            else match pyInt10 w with
              | none => .error .valueError
              | some i => fixedMk (some i) f) = .ok v := by
    intro w f hf hw'
    by_cases e : w = ['-', '0']
    · simp only [e, ↓reduceIte, fixedMk, hf]; exact ⟨_, rfl⟩
    · rcases hw' with hw' | ⟨i, hi⟩
      · exact absurd hw' e
      · simp only [e, ↓reduceIte, hi, fixedMk, hf]; exact ⟨_, rfl⟩
  match rest, h, h2 with
  | [], h, h2 =>
    have hsf := splitFirst_of_splitAux_nil '.' s h2
    have hs1 : s = sign ++ a := by rw [← h1, splitAux_snd_nil '.' s h2]
    unfold fixedFromStr
    simp only [hsf]
    have := hw (lstripC '0' s) (by rw [← hs1]) h
    exact fin _ ['0'] (by decide) this
  | [b], h, h2 =>
    simp only [Bool.and_eq_true] at h
    have hsf := splitFirst_of_splitAux_one '.' s b h2
    unfold fixedFromStr
    simp only [hsf, h1]
    have := hw (lstripC '0' (sign ++ a)) rfl h.1
    exact fin _ b (all_digits_of_isDigits b h.2) this

/-! ### acceptance -/

theorem coordOf_total (ints : Bool) (x : J) (h : coordShapeG ints x = true) : ∃ p, coordOf x = .ok p := by
  cases x with
  | str s => exact cliParsePos_total s.toList h
  | int i =>
    have := cliParsePos_posFinal i 0
    simp only [posFinal, show ¬ ((0 : Int) > 1) by omega, ↓reduceIte, List.append_nil] at this
    exact ⟨_, this⟩
  | _ => simp [coordShapeG] at h

theorem langOf_total (l : List (String × J)) (h : langShape l = true) : ∃ r, langOf l = .ok r := by
  induction l with
  | nil => exact ⟨[], rfl⟩
  | cons x xs ih =>
    obtain ⟨k, v⟩ := x
    simp only [langShape, Bool.and_eq_true] at h
    obtain ⟨r, hr⟩ := ih h.2
    cases v with
    | str s => exact ⟨(k, s) :: r, by simp [langOf, hr]⟩
    | _ => simp [isStr] at h

theorem readParam_total (ints : Bool) (p : J) (h : paramShapeG ints p = true) : ∃ q, readParam p = .ok q := by
  cases p with
  | int i => exact ⟨.int i, rfl⟩
  | obj kv =>
    simp only [paramShapeG] at h
    simp only [readParam]
    split at h
    · -- FIXED_POINT
      rename_i v ht hv
      simp only [ht, hv]
      obtain ⟨w, hw⟩ := fixedFromStr_total v.toList h
      exact ⟨.fixed (String.ofList w), by simp [fixedOf, hw]⟩
    · rename_i v ht hv
      simp only [ht, hv]; exact ⟨_, rfl⟩
    · rename_i v ht hv
      simp only [ht, hv]; exact ⟨_, rfl⟩
    · rename_i l ht hv
      simp only [ht, hv]
      obtain ⟨r, hr⟩ := langOf_total l h
      exact ⟨.langString r, by simp [hr]⟩
    · rename_i m ht hv
      simp only [ht, hv]
      simp only [Bool.and_eq_true] at h
      obtain ⟨⟨hn, hx⟩, hy⟩ := h
      unfold posMarkOf subscript
      simp only
      cases ex : look m "x" with
      | none => simp [ex] at hx
      | some xj =>
        simp only [ex] at hx
        obtain ⟨⟨xr, xo⟩, hxp⟩ := coordOf_total ints xj hx
        cases ey : look m "y" with
        | none => simp [ey] at hy
        | some yj =>
          simp only [ey] at hy
          obtain ⟨⟨yr, yo⟩, hyp⟩ := coordOf_total ints yj hy
          cases en : look m "name" with
          | none => simp [en] at hn
          | some nj =>
            cases nj with
            | str n => exact ⟨.posMark n xo yo xr yr, by simp [hxp, hyp]⟩
            | _ => simp [en] at hn
    · simp at h
  | _ => simp [paramShapeG] at h

theorem readParams_total (ints : Bool) (l : List J) (h : paramsShapeG ints l = true) : ∃ r, readParams l = .ok r := by
  induction l with
  | nil => exact ⟨[], rfl⟩
  | cons p ps ih =>
    simp only [paramsShapeG, Bool.and_eq_true] at h
    obtain ⟨q, hq⟩ := readParam_total ints p h.1
    obtain ⟨r, hr⟩ := ih h.2
    exact ⟨q :: r, by simp [readParams, hq, hr, consR]⟩

theorem readOp_total (ints : Bool) (n : Nat) (o : J) (h : opShapeG ints o = true) : ∃ r, readOp n o = .ok r ∧ r.offset = n := by
  cases o with
  | obj kv =>
    simp only [opShapeG, Bool.and_eq_true] at h
    obtain ⟨h1, h2⟩ := h
    unfold readOp
    cases ep : look kv "params" with
    | none => simp [ep] at h2
    | some ps =>
      cases ps with
      | arr l =>
        simp only [ep] at h2
        obtain ⟨r, hr⟩ := readParams_total ints l h2
        cases eo : look kv "opcode" with
        | none => simp [eo] at h1
        | some oc =>
          cases oc with
          | str name => exact ⟨⟨n, name, r⟩, by simp [ep, eo, hr], rfl⟩
          | _ => simp [eo] at h1
      | _ => simp [ep] at h2
  | _ => simp [opShapeG] at h

theorem readOpsFrom_total (ints : Bool) (n : Nat) (l : List J) (h : opsShapeG ints l = true) : ∃ r, readOpsFrom n l = .ok r := by
  induction l generalizing n with
  | nil => exact ⟨[], rfl⟩
  | cons o os ih =>
    simp only [opsShapeG, Bool.and_eq_true] at h
    obtain ⟨q, hq, _⟩ := readOp_total ints (n + 1) o h.1
    obtain ⟨r, hr⟩ := ih (n + 1) h.2
    exact ⟨q :: r, by simp [readOpsFrom, hq, hr, consR]⟩

theorem targetOf_total (k : RoutineKind) (t : J) (h : targetShape t = true) : ∃ i, targetOf k t = .ok i := by
  cases t <;> simp [targetShape] at h <;> exact ⟨_, rfl⟩

theorem readRoutine_total (ints : Bool) (n idx : Nat) (r : J) (h : routineShapeG ints r = true) : ∃ x, readRoutine n idx r = .ok x := by
  cases r with
  | obj kv =>
    simp only [routineShapeG, Bool.and_eq_true] at h
    obtain ⟨h1, h2⟩ := h
    unfold readRoutine
    cases eo : look kv "ops" with
    | none => simp [eo] at h1
    | some ops =>
      cases ops with
      | arr l =>
        simp only [eo] at h1
        obtain ⟨rops, hrops⟩ := readOpsFrom_total ints n l h1
        have hw : ∀ info coro, withOps info coro n (.arr l) = .ok ⟨info, coro, rops⟩ := by
          intro info coro; simp [withOps, readOpsJ, hrops]
        simp only
        split at h2
        · rename_i ety
          simp only [ety]
          cases en : look kv "name" with
          | none => simp [en] at h2
          | some nm =>
            cases nm with
            | str s => exact ⟨_, by simp only [eo]; exact hw _ _⟩
            | _ => simp [en] at h2
        · rename_i ety
          simp only [ety, eo]; exact ⟨_, hw _ _⟩
        · rename_i ety
          simp only [ety]
          cases et : look kv "target_id" with
          | none => simp [et] at h2
          | some t =>
            simp only [et] at h2
            obtain ⟨i, hi⟩ := targetOf_total .actor t h2
            exact ⟨_, by simp only [eo, hi]; exact hw _ _⟩
        · rename_i ety
          simp only [ety]
          cases et : look kv "target_id" with
          | none => simp [et] at h2
          | some t =>
            simp only [et] at h2
            obtain ⟨i, hi⟩ := targetOf_total .object t h2
            exact ⟨_, by simp only [eo, hi]; exact hw _ _⟩
        · rename_i ety
          simp only [ety]
          cases et : look kv "target_id" with
          | none => simp [et] at h2
          | some t =>
            simp only [et] at h2
            obtain ⟨i, hi⟩ := targetOf_total .performer t h2
            exact ⟨_, by simp only [eo, hi]; exact hw _ _⟩
        · simp at h2
      | _ => simp [eo] at h1
  | _ => simp [routineShapeG] at h

theorem readRoutinesFrom_total (ints : Bool) (n idx : Nat) (l : List J) (h : routinesShapeG ints l = true) :
    ∃ rs, readRoutinesFrom n idx l = .ok rs := by
  induction l generalizing n idx with
  | nil => exact ⟨[], rfl⟩
  | cons r rs ih =>
    simp only [routinesShapeG, Bool.and_eq_true] at h
    obtain ⟨x, hx⟩ := readRoutine_total ints n idx r h.1
    obtain ⟨xs, hxs⟩ := ih (n + x.ops.length) (idx + 1) h.2
    exact ⟨x :: xs, by simp [readRoutinesFrom, hx, hxs]⟩

theorem checkSettings_of_look (kv : List (String × J)) (s : J) (hl : look kv "settings" = some s)
    (h : settingsShape s = true) : checkSettings kv = .ok () := by
  have := checkSettings_of_shape s [] h
  unfold checkSettings at this ⊢
  simp only [look, Dict.get?, ↓reduceIte] at this
  simp only [look] at hl
  simp only [look, hl]
  exact this

/-- **every documented document is read without an exception** -/
theorem readRaw_total (ints : Bool) (doc : J) (h : DocShapeG ints doc = true) : ∃ rs, readRaw doc = .ok rs := by
  cases doc with
  | obj kv =>
    simp only [DocShapeG, Bool.and_eq_true] at h
    obtain ⟨h1, h2⟩ := h
    unfold readRaw
    cases es : look kv "settings" with
    | none => simp [es] at h1
    | some s =>
      simp only [es] at h1
      simp only [checkSettings_of_look kv s es h1]
      cases er : look kv "routines" with
      | none => simp [er] at h2
      | some r =>
        cases r with
        | arr l =>
          simp only [er] at h2
          exact readRoutinesFrom_total ints 0 0 l h2
        | _ => simp [er] at h2
  | _ => simp [DocShapeG] at h

end ESV.Cli
