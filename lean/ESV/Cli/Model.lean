import ESV.Base.Ssb
import ESV.Lit.Model
/-
Model of the two command line tools (property C15):

  explorerscript/cli/compile.py     build_ops, build_routines_json, the `output_dict` of `__main__`
  explorerscript/cli/decompile.py   parse_pos_mark_arg, read_ops, read_routines, and the part of `__main__` up to the
                                    construction of the decompiler (check_settings, `ssb_file["routines"]`,
                                    `named_coroutines = {x.id: x.name for x in named_coroutines}` of
                                    ExplorerScriptSsbDecompiler.__init__)
  docs/cli_api_usage.rst            the documented JSON structure, as the decidable predicate `DocShape`

JSON is the value type `J` (what `json.load` returns / `json.dumps` takes): objects are Python dicts — insertion
ordered, each key once.  `json.loads (json.dumps v) = v` on this value type is trusted (stdlib).  `true`/`false` are not
part of `J` (Python's `bool` is an `int`; documents containing them are outside the model), a JSON number that is not an
integer is the opaque value `float`.

Where the Python code relies on duck typing for a value no documented document contains (an opcode that is not a string,
a language table whose values are not strings, a list where an object is expected …) the model answers `outside`; these
documents are never compared.  Every exception the code raises on purpose, and the AttributeError / TypeError / KeyError
cases that documented or compiler-written documents can reach, are modelled with their class.
-/
namespace ESV.Cli
open ESV ESV.Lit

inductive J where
  | null
  | int (i : Int)
  | float
  | str (s : String)
  | arr (l : List J)
  | obj (kv : List (String × J))
deriving Repr, Inhabited

inductive CErr where
  | valueError
  | attributeError
  | typeError
  | keyError
  | assertionError
  | systemExit      -- `exit(1)` of check_settings
  | outside         -- not an exception: the document is outside the modelled (typed) domain
deriving DecidableEq, Repr

def CErr.name : CErr → String
  | .valueError => "ValueError"
  | .attributeError => "AttributeError"
  | .typeError => "TypeError"
  | .keyError => "KeyError"
  | .assertionError => "AssertionError"
  | .systemExit => "SystemExit"
  | .outside => "Outside"

abbrev R := Except CErr

/-- `d[k]` / `k in d` of a Python dict -/
def look (kv : List (String × J)) (k : String) : Option J := Dict.get? kv k

def sOf (cs : Str) : J := .str (String.ofList cs)

/-! ## offsets, positions, jump targets -/

/-- the jump parameter of an op: the int at the index `OPS_WITH_JUMP_TO_MEM_OFFSET` gives for its opcode -/
def jumpOf (o : Op) : Option Int :=
  match jumpIdx o.name with
  | none => none
  | some i =>
    match o.params[i]? with
    | some (.int t) => some t
    | _ => none

/-- 1-based position of the first op with offset `t` ("The indices start at 1!") -/
def posOf : List Int → Int → Option Int
  | [], _ => none
  | x :: xs, t => if x = t then some 1 else (posOf xs t).map (· + 1)

/-- `build_ops(ops, positions)`: the jump parameter (an int at the index of OPS_WITH_JUMP_TO_MEM_OFFSET) is replaced by
`positions.get(param, param)` — the 1-based position of the op with that internal offset -/
def remapOp (offs : List Int) (o : Op) : Op :=
  match jumpIdx o.name with
  | none => o
  | some i =>
    match o.params[i]? with
    | some (.int t) =>
      match posOf offs t with
      | some p => ⟨o.offset, o.name, o.params.set i (.int p)⟩
      | none => o
    | _ => o

/-- `positions` is built from ALL of `routine_ops` (`setdefault`: first op with an offset wins) before the zip loop -/
def remap (c : RoutineSet) : RoutineSet := ⟨c.infos, c.ops.map fun r => r.map (remapOp c.offsets), c.coros⟩

/-! ## compile.py -/

/-- the `isinstance` chain of `build_ops` (every `Param` is one of the six classes, the final `raise` is unreachable) -/
def paramJ : Param → J
  | .int i => .int i
  | .fixed v => .obj [("type", .str "FIXED_POINT"), ("value", .str v)]
  | .const n => .obj [("type", .str "CONSTANT"), ("value", .str n)]
  | .constString s => .obj [("type", .str "CONST_STRING"), ("value", .str s)]
  | .langString kv => .obj [("type", .str "LANG_STRING"), ("value", .obj (kv.map fun p => (p.1, J.str p.2)))]
  | .posMark n xo yo xr yr =>
    .obj [("type", .str "POSITION_MARK"),
          ("value", .obj [("name", .str n), ("x", sOf (posFinal xr xo)), ("y", sOf (posFinal yr yo))])]

/-- one element of `build_ops`: `{"opcode": op.op_code.name, "params": [...]}` — the offset is not written -/
def opJ (o : Op) : J := .obj [("opcode", .str o.name), ("params", .arr (o.params.map paramJ))]

def opsJ (ops : List Op) : J := .arr (ops.map opJ)

/-- `info.linked_to_name if info.linked_to_name is not None else info.linked_to` -/
def targetJ (i : RoutineInfo) : J :=
  match i.linkedToName with
  | some n => .str n
  | none => .int i.linkedTo

/-- entry of `compiler.named_coroutines`: the name, or `[]` for a routine that is not a coroutine -/
def nameJ : Option String → J
  | some n => .str n
  | none => .arr []

/-- body of the loop of `build_routines_json` -/
def routineJ (i : RoutineInfo) (name : Option String) (ops : List Op) : R J :=
  match i.kind with
  | .coroutine => .ok (.obj [("type", .str "COROUTINE"), ("name", nameJ name), ("ops", opsJ ops)])
  | .generic => .ok (.obj [("type", .str "GENERIC"), ("ops", opsJ ops)])
  | .actor => .ok (.obj [("type", .str "ACTOR"), ("target_id", targetJ i), ("ops", opsJ ops)])
  | .object => .ok (.obj [("type", .str "OBJECT"), ("target_id", targetJ i), ("ops", opsJ ops)])
  | .performer => .ok (.obj [("type", .str "PERFORMER"), ("target_id", targetJ i), ("ops", opsJ ops)])
  | .invalid => .error .valueError

/-- `x :: rest` in the exception monad, `x` evaluated first -/
def consR {α : Type} (a : R α) (b : R (List α)) : R (List α) :=
  match a with
  | .error e => .error e
  | .ok x => match b with
    | .error e => .error e
    | .ok xs => .ok (x :: xs)

/-- `for info, name, ops in zip(routine_infos, named_coroutines, routine_ops)` (zip stops at the shortest list) -/
def routinesJ : List RoutineInfo → List (Option String) → List (List Op) → R (List J)
  | i :: is, n :: ns, o :: os => consR (routineJ i n o) (routinesJ is ns os)
  | _, _, _ => .ok []

/-- the zip loop and `output_dict`, on ops whose jump parameters already are what is to be printed -/
def buildJsonRaw (settings : J) (c : RoutineSet) : R J :=
  match routinesJ c.infos c.coros c.ops with
  | .error e => .error e
  | .ok rs => .ok (.obj [("settings", settings), ("routines", .arr rs)])

/-- `output_dict` of compile.py's `__main__`: `build_routines_json` with the position table -/
def buildJson (settings : J) (c : RoutineSet) : R J := buildJsonRaw settings (remap c)

/-! ## decompile.py -/

/-- `parse_pos_mark_arg(arg_str)`; `exps_int` is `int(s, 0)`, modelled on the INTEGER spellings (`Lit.expsInt`) -/
def cliParsePos (s : Str) : R (Int × Int) :=
  match splitOn '.' s with
  | [a] =>
    match expsInt a with
    | some i => .ok (i, 0)
    | none => .error .valueError
  | a :: b :: rest =>
    if b ≠ ['5'] ∨ rest ≠ [] then .error .valueError
    else match expsInt a with
      | some i => .ok (i, 2)
      | none => .error .valueError
  | [] => .error .valueError

/-- `parse_pos_mark_arg(str(param["value"]["x"]))`: `str()` of an int is its decimal spelling, of `None` the text "None"
(no integer: ValueError); `str()` of a float, list or dict is outside the model -/
def coordOf : J → R (Int × Int)
  | .str s => cliParsePos s.toList
  | .int i => cliParsePos (showInt i)
  | .null => .error .valueError
  | _ => .error .outside

def lerr : LErr → CErr
  | .valueError => .valueError
  | .assertionError => .assertionError
  | .compilerError => .valueError

/-- `SsbOpParamFixedPoint.from_str(param["value"])` -/
def fixedOf : J → R Param
  | .str s =>
    match fixedFromStr s.toList with
    | .ok v => .ok (.fixed (String.ofList v))
    | .error e => .error (lerr e)
  | _ => .error .attributeError

/-- the dict under "value" of a LANG_STRING as a `dict[str, str]` -/
def langOf : List (String × J) → R (List (String × String))
  | [] => .ok []
  | (k, .str v) :: rest => match langOf rest with
    | .ok r => .ok ((k, v) :: r)
    | .error e => .error e
  | _ => .error .outside

/-- `param["value"][key]` -/
def subscript (v : J) (k : String) : R J :=
  match v with
  | .obj kv => match look kv k with
    | some x => .ok x
    | none => .error .keyError
  | .arr _ => .error .typeError
  | .str _ => .error .typeError
  | .int _ => .error .typeError
  | .float => .error .typeError
  | .null => .error .typeError

/-- the POSITION_MARK branch: x, then y, then name -/
def posMarkOf (v : J) : R Param :=
  match subscript v "x" with
  | .error e => .error e
  | .ok xj =>
  match coordOf xj with
  | .error e => .error e
  | .ok (xr, xo) =>
  match subscript v "y" with
  | .error e => .error e
  | .ok yj =>
  match coordOf yj with
  | .error e => .error e
  | .ok (yr, yo) =>
  match subscript v "name" with
  | .error e => .error e
  | .ok (.str n) => .ok (.posMark n xo yo xr yr)
  | .ok _ => .error .outside

/-- body of `for param in op["params"]` -/
def readParam : J → R Param
  | .int i => .ok (.int i)
  | .obj kv =>
    match look kv "type", look kv "value" with
    | some t, some v =>
      match t with
      | .str "FIXED_POINT" => fixedOf v
      | .str "CONSTANT" => match v with
        | .str s => .ok (.const s)
        | _ => .error .outside
      | .str "CONST_STRING" => match v with
        | .str s => .ok (.constString s)
        | _ => .error .outside
      | .str "LANG_STRING" => match v with
        | .obj l => match langOf l with
          | .ok r => .ok (.langString r)
          | .error e => .error e
        | _ => .error .outside
      | .str "POSITION_MARK" => posMarkOf v
      | _ => .error .valueError
    | _, _ => .error .valueError
  | _ => .error .valueError

def readParams : List J → R (List Param)
  | [] => .ok []
  | p :: ps => consR (readParam p) (readParams ps)

/-- body of `for op in ops`; `off` is the value `counter()` returns for this op -/
def readOp (off : Nat) : J → R Op
  | .obj kv =>
    match look kv "params" with
    | none => .error .valueError
    | some ps =>
    match look kv "opcode" with
    | none => .error .valueError
    | some oc =>
    match ps with
    | .arr l =>
      match readParams l with
      | .error e => .error e
      | .ok params =>
        match oc with
        | .str name => .ok ⟨(off : Int), name, params⟩
        | _ => .error .outside
    | _ => .error .outside
  | _ => .error .outside

/-- `read_ops(ops, counter)` when the per-document counter of `read_routines` stands at `n`: the k-th op (from 0) gets offset `n + k + 1` -/
def readOpsFrom (n : Nat) : List J → R (List Op)
  | [] => .ok []
  | j :: js => consR (readOp (n + 1) j) (readOpsFrom (n + 1) js)

def readOpsJ (n : Nat) : J → R (List Op)
  | .arr l => readOpsFrom n l
  | _ => .error .outside

/-- one routine as read: info, the `SsbCoroutine(id, name)` registered for it, ops -/
structure RRoutine where
  info : RoutineInfo
  coro : Int × String
  ops : List Op
deriving DecidableEq, Repr

/-- `linked_to` / `linked_to_name` from `r["target_id"]`: an int is the id, anything else goes through `str()` -/
def targetOf (kind : RoutineKind) : J → R RoutineInfo
  | .int i => .ok ⟨kind, i, none⟩
  | .str s => .ok ⟨kind, -1, some s⟩
  | .null => .ok ⟨kind, -1, some "None"⟩
  | _ => .error .outside

def withOps (info : RoutineInfo) (coro : Int × String) (n : Nat) (ops : J) : R RRoutine :=
  match readOpsJ n ops with
  | .error e => .error e
  | .ok l => .ok ⟨info, coro, l⟩

/-- body of `for r in routines` of `read_routines`, op counter at `n`; `idx = len(routine_infos)` is the index of this routine -/
def readRoutine (n idx : Nat) : J → R RRoutine
  | .obj kv =>
    match look kv "ops" with
    | none => .error .valueError
    | some ops =>
    match look kv "type" with
    | none => .error .valueError
    | some ty =>
      match ty with
      | .str "COROUTINE" =>
        match look kv "name" with
        | none => .error .valueError
        | some (.str nm) => withOps ⟨.coroutine, -1, none⟩ ((idx : Int), nm) n ops
        | some _ => .error .outside
      | .str "GENERIC" => withOps ⟨.generic, -1, none⟩ (-1, "n/a") n ops
      | .str "ACTOR" =>
        match look kv "target_id" with
        | none => .error .valueError
        | some t => match targetOf .actor t with
          | .error e => .error e
          | .ok info => withOps info (-1, "n/a") n ops
      | .str "OBJECT" =>
        match look kv "target_id" with
        | none => .error .valueError
        | some t => match targetOf .object t with
          | .error e => .error e
          | .ok info => withOps info (-1, "n/a") n ops
      | .str "PERFORMER" =>
        match look kv "target_id" with
        | none => .error .valueError
        | some t => match targetOf .performer t with
          | .error e => .error e
          | .ok info => withOps info (-1, "n/a") n ops
      | _ => .error .valueError
  | _ => .error .outside

/-- `read_routines`, the counter threaded through the routines -/
def readRoutinesFrom (n idx : Nat) : List J → R (List RRoutine)
  | [] => .ok []
  | j :: js =>
    match readRoutine n idx j with
    | .error e => .error e
    | .ok r => match readRoutinesFrom (n + r.ops.length) (idx + 1) js with
      | .error e => .error e
      | .ok rs => .ok (r :: rs)

/-- `check_settings` of cli/__init__.py: `exit(1)` unless the settings block is complete
(`x in settings[...]` on something that is not a dict is outside the model) -/
def checkSettings (doc : List (String × J)) : R Unit :=
  match look doc "settings" with
  | none => .error .systemExit
  | some (.obj st) =>
    match look st "performance_progress_list_var_name" with
    | none => .error .systemExit
    | some _ =>
      match look st "dungeon_mode_constants" with
      | none => .error .systemExit
      | some (.obj dm) =>
        if (look dm "open").isSome && (look dm "closed").isSome && (look dm "request").isSome
            && (look dm "open_request").isSome then .ok ()
        else .error .systemExit
      | some _ => .error .outside
  | some _ => .error .outside

/-- decompile.py `__main__` from the loaded document to the arguments of the decompiler -/
def readRaw (doc : J) : R (List RRoutine) :=
  match doc with
  | .obj kv =>
    match checkSettings kv with
    | .error e => .error e
    | .ok _ =>
      match look kv "routines" with
      | none => .error .keyError
      | some (.arr l) => readRoutinesFrom 0 0 l
      | some _ => .error .outside
  | _ => .error .outside

/-- `{x.id: x.name for x in named_coroutines}` then, per routine id, `named_coroutines[r_id] if r_id in named_coroutines else None` -/
def coroTable (rs : List RRoutine) : List (Option String) :=
  let table : Dict Int String := Dict.ofItems (rs.map (·.coro))
  (List.range rs.length).map fun (i : Nat) => Dict.get? table (Int.ofNat i)

/-- what the decompiler is constructed with, as a routine set -/
def toSet (rs : List RRoutine) : RoutineSet := ⟨rs.map (·.info), rs.map (·.ops), coroTable rs⟩

def readJson (doc : J) : R RoutineSet :=
  match readRaw doc with
  | .error e => .error e
  | .ok rs => .ok (toSet rs)

/-- routine.py `_write_routine_header`: a COROUTINE whose id is not in the name table raises ValueError("Unknown coroutine") -/
def headersOk (c : RoutineSet) : Bool :=
  (c.infos.zip c.coros).all fun p => p.1.kind != .coroutine || p.2.isSome

/-! ## the documented structure (docs/cli_api_usage.rst) -/

def isStr : J → Bool
  | .str _ => true
  | _ => false

def isDigits (s : Str) : Bool := !s.isEmpty && s.all isDigit

/-- a decimal number as the documentation writes it: `123.456`, also `-1`, `10` -/
def isNumberLit (s : Str) : Bool :=
  match splitOn '.' (stripMinus s) with
  | [a] => isDigits a
  | [a, b] => isDigits a && isDigits b
  | _ => false

/-- a decimal natural number without superfluous leading zeros -/
def isCanonNat (a : Str) : Bool :=
  a = ['0'] || (isDigits a && match a with | c :: _ => c != '0' | [] => false)

/-- a position: whole or half tile, `"10"`, `"10.5"` (example output of the documentation) -/
def isCoordLit (s : Str) : Bool :=
  match splitOn '.' (stripMinus s) with
  | [a] => isCanonNat a
  | [a, b] => isCanonNat a && b = ['5']
  | _ => false

/-- "x": 10 (section "Position Mark", allowed when `ints`) or "x": "10.5" (section "Compiling an example").
All shape predicates take `ints`: `true` = the documented structure, `false` = the documented structure with position
coordinates written as strings (the only form the decompile command reads, see `cli_posmark_int_counterexample`). -/
def coordShapeG (ints : Bool) : J → Bool
  | .int _ => ints
  | .str s => isCoordLit s.toList
  | _ => false

def langShape : List (String × J) → Bool
  | [] => true
  | (_, v) :: rest => isStr v && langShape rest

/-- section "Argument types" -/
def paramShapeG (ints : Bool) : J → Bool
  | .int _ => true
  | .obj kv =>
    match look kv "type", look kv "value" with
    | some (.str "FIXED_POINT"), some (.str v) => isNumberLit v.toList
    | some (.str "CONSTANT"), some (.str _) => true
    | some (.str "CONST_STRING"), some (.str _) => true
    | some (.str "LANG_STRING"), some (.obj l) => langShape l
    | some (.str "POSITION_MARK"), some (.obj m) =>
      (match look m "name" with | some (.str _) => true | _ => false)
      && (match look m "x" with | some x => coordShapeG ints x | none => false)
      && (match look m "y" with | some y => coordShapeG ints y | none => false)
    | _, _ => false
  | _ => false

def paramsShapeG (ints : Bool) : List J → Bool
  | [] => true
  | p :: ps => paramShapeG ints p && paramsShapeG ints ps

def opShapeG (ints : Bool) : J → Bool
  | .obj kv =>
    (match look kv "opcode" with | some (.str _) => true | _ => false)
    && (match look kv "params" with | some (.arr l) => paramsShapeG ints l | _ => false)
  | _ => false

def opsShapeG (ints : Bool) : List J → Bool
  | [] => true
  | o :: os => opShapeG ints o && opsShapeG ints os

/-- "target_id": either a string or integer argument data type -/
def targetShape : J → Bool
  | .int _ => true
  | .str _ => true
  | _ => false

/-- section "Routine types" -/
def routineShapeG (ints : Bool) : J → Bool
  | .obj kv =>
    (match look kv "ops" with | some (.arr l) => opsShapeG ints l | _ => false)
    && (match look kv "type" with
      | some (.str "COROUTINE") => (match look kv "name" with | some (.str _) => true | _ => false)
      | some (.str "GENERIC") => true
      | some (.str "ACTOR") => (match look kv "target_id" with | some t => targetShape t | none => false)
      | some (.str "OBJECT") => (match look kv "target_id" with | some t => targetShape t | none => false)
      | some (.str "PERFORMER") => (match look kv "target_id" with | some t => targetShape t | none => false)
      | _ => false)
  | _ => false

def routinesShapeG (ints : Bool) : List J → Bool
  | [] => true
  | r :: rs => routineShapeG ints r && routinesShapeG ints rs

/-- section "Structure of settings" -/
def settingsShape : J → Bool
  | .obj st =>
    (match look st "performance_progress_list_var_name" with | some (.str _) => true | _ => false)
    && (match look st "dungeon_mode_constants" with
      | some (.obj dm) =>
        (match look dm "open" with | some (.str _) => true | _ => false)
        && (match look dm "closed" with | some (.str _) => true | _ => false)
        && (match look dm "request" with | some (.str _) => true | _ => false)
        && (match look dm "open_request" with | some (.str _) => true | _ => false)
      | _ => false)
  | _ => false

/-- section "General structure" (additional members are not forbidden by the documentation) -/
def DocShapeG (ints : Bool) : J → Bool
  | .obj kv =>
    (match look kv "settings" with | some s => settingsShape s | none => false)
    && (match look kv "routines" with | some (.arr l) => routinesShapeG ints l | _ => false)
  | _ => false

/-- the documented structure -/
abbrev DocShape : J → Bool := DocShapeG true

/-- the documented structure with string position coordinates -/
abbrev DocShapeStr : J → Bool := DocShapeG false

/-! ## closed and positional sets, renumbering -/

/-- every jump parameter is the offset of an op of the set -/
def Closed (c : RoutineSet) : Prop := ∀ o ∈ c.flat, ∀ t, jumpOf o = some t → t ∈ c.offsets

/-- every jump parameter equals the 1-based position, counted across all routines, of the op it denotes -/
def Positional (c : RoutineSet) : Prop := ∀ o ∈ c.flat, ∀ t, jumpOf o = some t → posOf c.offsets t = some t

def closedB (c : RoutineSet) : Bool := c.flat.all fun o => match jumpOf o with | some t => c.offsets.contains t | none => true
def positionalB (c : RoutineSet) : Bool := c.flat.all fun o => match jumpOf o with | some t => posOf c.offsets t == some t | none => true

/-- what `x_final`/`parse_pos_mark_arg` keep of a position mark: the half-tile flag becomes 0 or 2 -/
def normParam : Param → Param
  | .posMark n xo yo xr yr => .posMark n (if xo > 1 then 2 else 0) (if yo > 1 then 2 else 0) xr yr
  | p => p

/-- what `target_id` keeps of a routine info -/
def normInfo (i : RoutineInfo) : RoutineInfo :=
  match i.kind with
  | .coroutine => ⟨.coroutine, -1, none⟩
  | .generic => ⟨.generic, -1, none⟩
  | k =>
    match i.linkedToName with
    | some n => ⟨k, -1, some n⟩
    | none => ⟨k, i.linkedTo, none⟩

/-- the coroutine names the decompiler finds: the name of a COROUTINE routine, nothing for the others -/
def corosRead : List RoutineInfo → List (Option String) → List (Option String)
  | i :: is, n :: ns => (if i.kind = .coroutine then n else none) :: corosRead is ns
  | _, _ => []

/-- ops renumbered by the running counter standing at `n` -/
def renumOps (n : Nat) : List Op → List Op
  | [] => []
  | o :: os => ⟨((n + 1 : Nat) : Int), o.name, o.params.map normParam⟩ :: renumOps (n + 1) os

def renumRoutines (n : Nat) : List (List Op) → List (List Op)
  | [] => []
  | r :: rs => renumOps n r :: renumRoutines (n + r.length) rs

/-- the routine set the decompile command builds from a document in which the ops of `c` are printed as they are:
same routines, ops and parameters; offsets are the 1-based positions; coroutines keep their names -/
def renum (c : RoutineSet) : RoutineSet :=
  ⟨c.infos.map normInfo, renumRoutines 0 c.ops, corosRead c.infos c.coros⟩

/-- canonical (positional) form — what the decompile command builds from what the compile command prints for `c`:
jump parameters are positions, offsets are positions -/
def canon (c : RoutineSet) : RoutineSet := renum (remap c)

end ESV.Cli
