import ESV.Cli.Model
/-
The two command line tools AS THEY WERE on the pinned tree (commit c8fefe7), before the `fix:` commits
  e79af4f  compile CLI printed internal op offsets as jump parameters
  c9fbb9f  compile CLI printed a null target_id for routines targeting the id -1
  463a62a  decompile CLI registered every coroutine under id -1
  61b451d  decompile CLI rejected position marks with numeric coordinates
Definitions only (suffix `Pinned`): they are the OLD behaviour against which the `_counterexample` theorems of
ESV/Props/C15.lean witness the repaired defects.  The model of the current code is ESV/Cli/Model.lean.
-/
namespace ESV.Cli
open ESV ESV.Lit

/-- `info.linked_to if info.linked_to is not -1 else info.linked_to_name` (CPython: small ints are shared, `is not` is `!=`) -/
def targetJPinned (i : RoutineInfo) : J :=
  if i.linkedTo ≠ -1 then .int i.linkedTo
  else match i.linkedToName with
    | some n => .str n
    | none => .null

/-- body of the loop of `build_routines_json` -/
def routineJPinned (i : RoutineInfo) (name : Option String) (ops : List Op) : R J :=
  match i.kind with
  | .coroutine => .ok (.obj [("type", .str "COROUTINE"), ("name", nameJ name), ("ops", opsJ ops)])
  | .generic => .ok (.obj [("type", .str "GENERIC"), ("ops", opsJ ops)])
  | .actor => .ok (.obj [("type", .str "ACTOR"), ("target_id", targetJPinned i), ("ops", opsJ ops)])
  | .object => .ok (.obj [("type", .str "OBJECT"), ("target_id", targetJPinned i), ("ops", opsJ ops)])
  | .performer => .ok (.obj [("type", .str "PERFORMER"), ("target_id", targetJPinned i), ("ops", opsJ ops)])
  | .invalid => .error .valueError

/-- `for info, name, ops in zip(routine_infos, named_coroutines, routine_ops)` (zip stops at the shortest list) -/
def routinesJPinned : List RoutineInfo → List (Option String) → List (List Op) → R (List J)
  | i :: is, n :: ns, o :: os => consR (routineJPinned i n o) (routinesJPinned is ns os)
  | _, _, _ => .ok []

/-- `output_dict` of compile.py's `__main__` -/
def buildJsonPinned (settings : J) (c : RoutineSet) : R J :=
  match routinesJPinned c.infos c.coros c.ops with
  | .error e => .error e
  | .ok rs => .ok (.obj [("settings", settings), ("routines", .arr rs)])



/-- `parse_pos_mark_arg(param["value"]["x"])`: anything but a string has no `.split` -/
def coordOfPinned : J → R (Int × Int)
  | .str s => cliParsePos s.toList
  | _ => .error .attributeError

/-- the POSITION_MARK branch: x, then y, then name -/
def posMarkOfPinned (v : J) : R Param :=
  match subscript v "x" with
  | .error e => .error e
  | .ok xj =>
  match coordOfPinned xj with
  | .error e => .error e
  | .ok (xr, xo) =>
  match subscript v "y" with
  | .error e => .error e
  | .ok yj =>
  match coordOfPinned yj with
  | .error e => .error e
  | .ok (yr, yo) =>
  match subscript v "name" with
  | .error e => .error e
  | .ok (.str n) => .ok (.posMark n xo yo xr yr)
  | .ok _ => .error .outside

/-- body of `for param in op["params"]` -/
def readParamPinned : J → R Param
  | .int i => .ok (.int i)
  | .obj kv =>
    match look kv "type", look kv "value" with
    | some t, some v =>
      match t with
      | .str "FIXED_POINT" => fixedOf v
      | .str "CONSTANT" => match v with
        | .str s => .ok (.const s)
        | _ => .error .outside
      | .str "CONST_STRING" => match v with
        | .str s => .ok (.constString s)
        | _ => .error .outside
      | .str "LANG_STRING" => match v with
        | .obj l => match langOf l with
          | .ok r => .ok (.langString r)
          | .error e => .error e
        | _ => .error .outside
      | .str "POSITION_MARK" => posMarkOfPinned v
      | _ => .error .valueError
    | _, _ => .error .valueError
  | _ => .error .valueError

def readParamsPinned : List J → R (List Param)
  | [] => .ok []
  | p :: ps => consR (readParamPinned p) (readParamsPinned ps)

/-- body of `for op in ops`; `off` is the value `counter()` returns for this op -/
def readOpPinned (off : Nat) : J → R Op
  | .obj kv =>
    match look kv "params" with
    | none => .error .valueError
    | some ps =>
    match look kv "opcode" with
    | none => .error .valueError
    | some oc =>
    match ps with
    | .arr l =>
      match readParamsPinned l with
      | .error e => .error e
      | .ok params =>
        match oc with
        | .str name => .ok ⟨(off : Int), name, params⟩
        | _ => .error .outside
    | _ => .error .outside
  | _ => .error .outside

/-- `read_ops` when the module-level counter stands at `n`: the k-th op (from 0) gets offset `n + k + 1` -/
def readOpsFromPinned (n : Nat) : List J → R (List Op)
  | [] => .ok []
  | j :: js => consR (readOpPinned (n + 1) j) (readOpsFromPinned (n + 1) js)

def readOpsJPinned (n : Nat) : J → R (List Op)
  | .arr l => readOpsFromPinned n l
  | _ => .error .outside

def withOpsPinned (info : RoutineInfo) (coro : Int × String) (n : Nat) (ops : J) : R RRoutine :=
  match readOpsJPinned n ops with
  | .error e => .error e
  | .ok l => .ok ⟨info, coro, l⟩

/-- body of `for r in routines` of `read_routines`, counter at `n` -/
def readRoutinePinned (n : Nat) : J → R RRoutine
  | .obj kv =>
    match look kv "ops" with
    | none => .error .valueError
    | some ops =>
    match look kv "type" with
    | none => .error .valueError
    | some ty =>
      match ty with
      | .str "COROUTINE" =>
        match look kv "name" with
        | none => .error .valueError
        | some (.str nm) => withOpsPinned ⟨.coroutine, -1, none⟩ (-1, nm) n ops
        | some _ => .error .outside
      | .str "GENERIC" => withOpsPinned ⟨.generic, -1, none⟩ (-1, "n/a") n ops
      | .str "ACTOR" =>
        match look kv "target_id" with
        | none => .error .valueError
        | some t => match targetOf .actor t with
          | .error e => .error e
          | .ok info => withOpsPinned info (-1, "n/a") n ops
      | .str "OBJECT" =>
        match look kv "target_id" with
        | none => .error .valueError
        | some t => match targetOf .object t with
          | .error e => .error e
          | .ok info => withOpsPinned info (-1, "n/a") n ops
      | .str "PERFORMER" =>
        match look kv "target_id" with
        | none => .error .valueError
        | some t => match targetOf .performer t with
          | .error e => .error e
          | .ok info => withOpsPinned info (-1, "n/a") n ops
      | _ => .error .valueError
  | _ => .error .outside

/-- `read_routines`, the counter threaded through the routines -/
def readRoutinesFromPinned (n : Nat) : List J → R (List RRoutine)
  | [] => .ok []
  | j :: js =>
    match readRoutinePinned n j with
    | .error e => .error e
    | .ok r => match readRoutinesFromPinned (n + r.ops.length) js with
      | .error e => .error e
      | .ok rs => .ok (r :: rs)

/-- decompile.py `__main__` from the loaded document to the arguments of the decompiler -/
def readRawPinned (doc : J) : R (List RRoutine) :=
  match doc with
  | .obj kv =>
    match checkSettings kv with
    | .error e => .error e
    | .ok _ =>
      match look kv "routines" with
      | none => .error .keyError
      | some (.arr l) => readRoutinesFromPinned 0 l
      | some _ => .error .outside
  | _ => .error .outside

/-- `{x.id: x.name for x in named_coroutines}` then, per routine id, `named_coroutines[r_id] if r_id in named_coroutines else None` -/
def coroTablePinned (rs : List RRoutine) : List (Option String) :=
  let table : Dict Int String := Dict.ofItems (rs.map (·.coro))
  (List.range rs.length).map fun (i : Nat) => Dict.get? table (Int.ofNat i)

/-- what the decompiler is constructed with, as a routine set -/
def toSetPinned (rs : List RRoutine) : RoutineSet := ⟨rs.map (·.info), rs.map (·.ops), coroTablePinned rs⟩

def readJsonPinned (doc : J) : R RoutineSet :=
  match readRawPinned doc with
  | .error e => .error e
  | .ok rs => .ok (toSetPinned rs)

end ESV.Cli
