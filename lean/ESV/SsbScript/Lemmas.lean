import ESV.SsbScript.Model
/-
Lemmas about the SsbScript model.
 §1 dictionary / list facts
 §2 the compiler keyed by label *names* (`compileRawN`) and the proof that the real (id-keyed) compiler
    computes the same result for every AST (`compileRaw_eq_N`)
-/
namespace ESV.SsbScript
open ESV

/-! ## §1 dictionaries -/
section dict
variable {α β : Type} [DecidableEq α]

theorem get?_none_iff (d : Dict α β) (k : α) : Dict.get? d k = none ↔ k ∉ Dict.keys d := by
  induction d with
  | nil => simp [Dict.get?, Dict.keys]
  | cons hd tl ih =>
    obtain ⟨k', v'⟩ := hd
    unfold Dict.get?
    by_cases h : k' = k
    · simp [h, Dict.keys]
    · have h' : ¬ k = k' := fun e => h e.symm
      simp only [h, if_false, ih]
      simp [Dict.keys, h']

theorem get?_isSome_iff (d : Dict α β) (k : α) : (Dict.get? d k).isSome = true ↔ k ∈ Dict.keys d := by
  cases h : Dict.get? d k with
  | none => simpa using (get?_none_iff d k).1 h
  | some v =>
    simp only [Option.isSome_some, true_iff]
    have := Dict.mem_of_get? d k v h
    exact List.mem_map.2 ⟨(k, v), this, rfl⟩

theorem get?_set (d : Dict α β) (k k2 : α) (v : β) :
    Dict.get? (Dict.set d k v) k2 = if k = k2 then some v else Dict.get? d k2 := by
  by_cases h : k = k2
  · subst h; simp [Dict.get?_set_self]
  · simp [h, Dict.get?_set_other d k k2 v h]

theorem get?_setMany (ks : List α) (v : β) (d : Dict α β) (k : α) :
    Dict.get? (ks.foldl (fun d k => Dict.set d k v) d) k = if k ∈ ks then some v else Dict.get? d k := by
  induction ks generalizing d with
  | nil => simp
  | cons a as ih =>
    simp only [List.foldl_cons, ih, get?_set, List.mem_cons]
    by_cases h1 : k ∈ as
    · simp [h1]
    · by_cases h2 : a = k
      · subst h2; simp
      · have : ¬ k = a := fun e => h2 e.symm
        simp [h1, h2, this]

/-- `e` extends `d`: every binding of `d` is a binding of `e` -/
def Ext (d e : Dict α β) : Prop := ∀ k v, Dict.get? d k = some v → Dict.get? e k = some v

theorem Ext.refl (d : Dict α β) : Ext d d := fun _ _ h => h
theorem Ext.trans {d e f : Dict α β} (h1 : Ext d e) (h2 : Ext e f) : Ext d f := fun k v h => h2 k v (h1 k v h)

theorem Ext.set_new (d : Dict α β) (k : α) (v : β) (h : Dict.get? d k = none) : Ext d (Dict.set d k v) := by
  intro k2 v2 h2
  rw [get?_set]
  by_cases e : k = k2
  · subst e; rw [h] at h2; cases h2
  · simp [e, h2]

/-- values determine keys -/
def InjD (d : Dict α β) : Prop := ∀ k1 k2 v, Dict.get? d k1 = some v → Dict.get? d k2 = some v → k1 = k2

end dict

/-! ## §2 the compiler keyed by label names -/

inductive NItem where
  | op (o : Op)
  | label (nm : String)
  | jump (root : Op) (nm : String)
deriving DecidableEq, Repr

structure NState where
  offs : Dict String Int
  pending : List String
  total : Nat

def NState.init : NState := ⟨[], [], 0⟩

def argStepN (acc : List Param × Option String) (a : SArg) : List Param × Option String :=
  match a with
  | .param p => (acc.1 ++ [p], none)
  | .jump nm => (acc.1, some nm)

def runArgsN (args : List SArg) : List Param × Option String := args.foldl argStepN ([], none)

def mkItemN (root : Op) : Option String → NItem
  | none => .op root
  | some nm => .jump root nm

def setAllN (d : Dict String Int) (nms : List String) (off : Int) : Dict String Int :=
  nms.foldl (fun d n => Dict.set d n off) d

def stmtStepN (a : NState) (st : SStmt) : NState × List NItem :=
  match st with
  | .label nm => (⟨a.offs, a.pending ++ [nm], a.total⟩, [.label nm])
  | .op name args =>
    (⟨setAllN a.offs a.pending.reverse a.total, [], a.total + 1⟩,
     [mkItemN ⟨a.total, name, (runArgsN args).1⟩ (runArgsN args).2])

def runStmtsN (a : NState) : List SStmt → NState × List NItem
  | [] => (a, [])
  | st :: rest => ((runStmtsN (stmtStepN a st).1 rest).1, (stmtStepN a st).2 ++ (runStmtsN (stmtStepN a st).1 rest).2)

def removeItemsN (offs : Dict String Int) : List NItem → Except Err (List Op)
  | [] => .ok []
  | .op o :: rest =>
    match removeItemsN offs rest with
    | .error e => .error e
    | .ok os => .ok (o :: os)
  | .label _ :: rest => removeItemsN offs rest
  | .jump o nm :: rest =>
    match Dict.get? offs nm with
    | none => .error .ssbCompilerError
    | some off =>
      match removeItemsN offs rest with
      | .error e => .error e
      | .ok os => .ok (⟨o.offset, o.name, o.params ++ [.int off]⟩ :: os)

def compileRawN (ast : List SRoutine) : Except Err CompileOut :=
  match goG runStmtsN NState.init RState.init ast with
  | .error e => .error e
  | .ok (a, r) =>
    match mapE (removeItemsN a.offs) r.ops with
    | .error e => .error e
    | .ok ops => .ok ⟨r.infos, ops, r.coros⟩

/-! ### refinement relation -/

def idOf (C : Dict String Nat) (nm : String) : Nat := (Dict.get? C nm).getD 0

def toC (C : Dict String Nat) : NItem → CItem
  | .op o => .op o
  | .label nm => .label (idOf C nm)
  | .jump o nm => .jump o (idOf C nm)

def NItem.names : NItem → List String
  | .op _ => []
  | .label nm => [nm]
  | .jump _ nm => [nm]

/-- all names of the items are bound in `C` -/
def Bound (C : Dict String Nat) (items : List NItem) : Prop :=
  ∀ it ∈ items, ∀ nm ∈ it.names, (Dict.get? C nm).isSome = true

structure Rel (s : LState) (a : NState) : Prop where
  total : s.total = a.total
  inj : InjD s.collected
  lt : ∀ nm id, Dict.get? s.collected nm = some id → id < s.nextLabel
  pend : s.pending = a.pending.map (idOf s.collected)
  pendB : ∀ nm ∈ a.pending, (Dict.get? s.collected nm).isSome = true
  offs : ∀ nm id, Dict.get? s.collected nm = some id → Dict.get? s.labelOffsets id = Dict.get? a.offs nm
  offsNone : ∀ nm, Dict.get? s.collected nm = none → Dict.get? a.offs nm = none
  fresh : ∀ id, s.nextLabel ≤ id → Dict.get? s.labelOffsets id = none

theorem idOf_ext {C C' : Dict String Nat} (h : Ext C C') (nm : String) (hb : (Dict.get? C nm).isSome = true) :
    idOf C' nm = idOf C nm := by
  cases hc : Dict.get? C nm with
  | none => rw [hc] at hb; cases hb
  | some id => simp [idOf, hc, h nm id hc]

theorem toC_ext {C C' : Dict String Nat} (h : Ext C C') (it : NItem)
    (hb : ∀ nm ∈ it.names, (Dict.get? C nm).isSome = true) : toC C' it = toC C it := by
  cases it with
  | op o => rfl
  | label nm => simp [toC, idOf_ext h nm (hb nm (by simp [NItem.names]))]
  | jump o nm => simp [toC, idOf_ext h nm (hb nm (by simp [NItem.names]))]

theorem map_toC_ext {C C' : Dict String Nat} (h : Ext C C') (items : List NItem) (hb : Bound C items) :
    items.map (toC C') = items.map (toC C) := by
  apply List.map_congr_left
  intro it hit
  exact toC_ext h it (hb it hit)

theorem Bound.ext {C C' : Dict String Nat} (h : Ext C C') {items : List NItem} (hb : Bound C items) : Bound C' items := by
  intro it hit nm hnm
  have := hb it hit nm hnm
  cases hc : Dict.get? C nm with
  | none => rw [hc] at this; cases this
  | some id => simp [h nm id hc]

theorem Bound.append {C : Dict String Nat} {l1 l2 : List NItem} (h1 : Bound C l1) (h2 : Bound C l2) : Bound C (l1 ++ l2) := by
  intro it hit
  rcases List.mem_append.1 hit with h | h
  · exact h1 it h
  · exact h2 it h

/-- `getLabel`: the returned id is bound to the name afterwards; only `collected`/`nextLabel` change; the
relation to the by-name state is kept -/
theorem getLabel_spec (s : LState) (a : NState) (nm : String) (R : Rel s a) :
    Rel (getLabel s nm).2 a ∧ Ext s.collected (getLabel s nm).2.collected ∧
    Dict.get? (getLabel s nm).2.collected nm = some (getLabel s nm).1 ∧
    (getLabel s nm).2.labelOffsets = s.labelOffsets ∧ (getLabel s nm).2.pending = s.pending ∧
    (getLabel s nm).2.total = s.total := by
  unfold getLabel
  cases hc : Dict.get? s.collected nm with
  | some id => exact ⟨R, Ext.refl _, hc, by trivial, by trivial, by trivial⟩
  | none =>
    simp only
    have hext : Ext s.collected (Dict.set s.collected nm s.nextLabel) := Ext.set_new _ _ _ hc
    refine ⟨?_, hext, Dict.get?_set_self _ _ _, by trivial, by trivial, by trivial⟩
    constructor
    · exact R.total
    · intro k1 k2 v h1 h2
      simp only [get?_set] at h1 h2
      by_cases e1 : nm = k1 <;> by_cases e2 : nm = k2
      · rw [← e1, ← e2]
      · rw [if_pos e1] at h1
        rw [if_neg e2] at h2
        cases h1
        have := R.lt k2 _ h2
        omega
      · rw [if_neg e1] at h1
        rw [if_pos e2] at h2
        cases h2
        have := R.lt k1 _ h1
        omega
      · rw [if_neg e1] at h1
        rw [if_neg e2] at h2
        exact R.inj k1 k2 v h1 h2
    · intro k id h
      simp only [get?_set] at h
      by_cases e : nm = k
      · rw [if_pos e] at h; cases h; simp
      · rw [if_neg e] at h
        have := R.lt k id h
        simp; omega
    · simp only
      rw [R.pend]
      apply List.map_congr_left
      intro p hp
      exact (idOf_ext hext p (R.pendB p hp)).symm
    · intro p hp
      have := R.pendB p hp
      cases hq : Dict.get? s.collected p with
      | none => rw [hq] at this; cases this
      | some id => simp [hext p id hq]
    · intro k id h
      simp only [get?_set] at h
      by_cases e : nm = k
      · rw [if_pos e] at h
        cases h
        subst e
        rw [R.fresh _ (Nat.le_refl _), R.offsNone nm hc]
      · rw [if_neg e] at h
        exact R.offs k id h
    · intro k h
      simp only [get?_set] at h
      by_cases e : nm = k
      · rw [if_pos e] at h; cases h
      · rw [if_neg e] at h
        exact R.offsNone k h
    · intro id h
      simp only at h
      exact R.fresh id (by omega)

theorem idOf_of_get {C : Dict String Nat} {nm : String} {id : Nat} (h : Dict.get? C nm = some id) : idOf C nm = id := by
  simp [idOf, h]

theorem get_of_bound {C : Dict String Nat} {nm : String} (h : (Dict.get? C nm).isSome = true) :
    Dict.get? C nm = some (idOf C nm) := by
  cases hc : Dict.get? C nm with
  | none => rw [hc] at h; cases h
  | some id => simp [idOf, hc]

theorem runArgs_fold (args : List SArg) : ∀ (s : LState) (a : NState) (ps : List Param) (t : Option Nat) (tn : Option String),
    Rel s a → t = tn.map (idOf s.collected) → (∀ nm, tn = some nm → (Dict.get? s.collected nm).isSome = true) →
    Rel (args.foldl argStep (s, ps, t)).1 a ∧ Ext s.collected (args.foldl argStep (s, ps, t)).1.collected ∧
    (args.foldl argStep (s, ps, t)).2.1 = (args.foldl argStepN (ps, tn)).1 ∧
    (args.foldl argStep (s, ps, t)).2.2 = (args.foldl argStepN (ps, tn)).2.map (idOf (args.foldl argStep (s, ps, t)).1.collected) ∧
    (∀ nm, (args.foldl argStepN (ps, tn)).2 = some nm → (Dict.get? (args.foldl argStep (s, ps, t)).1.collected nm).isSome = true) ∧
    (args.foldl argStep (s, ps, t)).1.labelOffsets = s.labelOffsets ∧ (args.foldl argStep (s, ps, t)).1.pending = s.pending ∧
    (args.foldl argStep (s, ps, t)).1.total = s.total := by
  induction args with
  | nil =>
    intro s a ps t tn R ht htb
    exact ⟨R, Ext.refl _, rfl, ht, htb, rfl, rfl, rfl⟩
  | cons x xs ih =>
    intro s a ps t tn R ht htb
    cases x with
    | param p =>
      simp only [List.foldl_cons, argStep, argStepN]
      exact ih s a (ps ++ [p]) none none R rfl (by intro nm h; cases h)
    | jump nm =>
      simp only [List.foldl_cons, argStep, argStepN]
      obtain ⟨R1, e1, g1, lo1, pe1, to1⟩ := getLabel_spec s a nm R
      have := ih (getLabel s nm).2 a ps (some (getLabel s nm).1) (some nm) R1
        (by simp [idOf_of_get g1]) (by intro n h; cases h; simp [g1])
      obtain ⟨h1, h2, h3, h4, h5, h6, h7, h8⟩ := this
      exact ⟨h1, e1.trans h2, h3, h4, h5, h6.trans lo1, h7.trans pe1, h8.trans to1⟩

theorem stmtStep_spec (s : LState) (a : NState) (st : SStmt) (R : Rel s a) :
    Rel (stmtStep s st).1 (stmtStepN a st).1 ∧ Ext s.collected (stmtStep s st).1.collected ∧
    (stmtStep s st).2 = (stmtStepN a st).2.map (toC (stmtStep s st).1.collected) ∧
    Bound (stmtStep s st).1.collected (stmtStepN a st).2 := by
  cases st with
  | label nm =>
    obtain ⟨R1, e1, g1, lo1, pe1, to1⟩ := getLabel_spec s a nm R
    simp only [stmtStep, stmtStepN, labelDone]
    refine ⟨?_, e1, ?_, ?_⟩
    · constructor
      · exact R1.total
      · exact R1.inj
      · exact R1.lt
      · simp only [List.map_append, List.map_cons, List.map_nil, idOf_of_get g1, R1.pend]
      · intro p hp
        rcases List.mem_append.1 hp with h | h
        · exact R1.pendB p h
        · simp at h; subst h; simp [g1]
      · exact R1.offs
      · exact R1.offsNone
      · exact R1.fresh
    · simp [toC, idOf_of_get g1]
    · intro it hit n hn
      simp at hit; subst hit
      simp [NItem.names] at hn; subst hn
      simp [g1]
  | op name args =>
    obtain ⟨R1, e1, hps, ht, htb, lo1, pe1, to1⟩ := runArgs_fold args s a [] none none R rfl (by intro nm h; cases h)
    simp only [stmtStep, stmtStepN, runArgs, runArgsN, opDone]
    generalize hr : args.foldl argStep (s, [], none) = r at *
    generalize hrn : args.foldl argStepN ([], none) = rn at *
    have hmem : ∀ nm id, Dict.get? r.1.collected nm = some id → (id ∈ r.1.pending ↔ nm ∈ a.pending) := by
      intro nm id h
      rw [R1.pend]
      constructor
      · intro hm
        obtain ⟨n', hn', he⟩ := List.mem_map.1 hm
        have := get_of_bound (R1.pendB n' hn')
        rw [he] at this
        rw [← R1.inj n' nm id this h]; exact hn'
      · intro hm
        exact List.mem_map.2 ⟨nm, hm, idOf_of_get h⟩
    refine ⟨?_, e1, ?_, ?_⟩
    · constructor
      · simp only; rw [R1.total]
      · exact R1.inj
      · exact R1.lt
      · rfl
      · intro p hp; cases hp
      · intro nm id h
        simp only [setAll, setAllN, get?_setMany, List.mem_reverse, hmem nm id h, R1.total, R1.offs nm id h]
      · intro nm h
        simp only [setAllN, get?_setMany, List.mem_reverse]
        have : nm ∉ a.pending := by
          intro hm
          have := R1.pendB nm hm
          rw [h] at this; cases this
        simp [this, R1.offsNone nm h]
      · intro id h
        simp only [setAll, get?_setMany, List.mem_reverse]
        have : id ∉ r.1.pending := by
          intro hm
          rw [R1.pend] at hm
          obtain ⟨n', hn', he⟩ := List.mem_map.1 hm
          have := R1.lt n' _ (get_of_bound (R1.pendB n' hn'))
          simp only at h
          omega
        simp only [this, if_false]
        exact R1.fresh id h
    · simp only [List.map_cons, List.map_nil, List.cons.injEq, and_true]
      rw [hps, ht, R1.total]
      cases rn.2 <;> simp [mkItem, mkItemN, toC]
    · intro it hit n hn
      simp at hit; subst hit
      cases h2 : rn.2 with
      | none => simp [h2, mkItemN, NItem.names] at hn
      | some nm =>
        simp [h2, mkItemN, NItem.names] at hn; subst hn
        exact htb _ h2

theorem runStmts_spec (stmts : List SStmt) : ∀ (s : LState) (a : NState), Rel s a →
    Rel (runStmts s stmts).1 (runStmtsN a stmts).1 ∧ Ext s.collected (runStmts s stmts).1.collected ∧
    (runStmts s stmts).2 = (runStmtsN a stmts).2.map (toC (runStmts s stmts).1.collected) ∧
    Bound (runStmts s stmts).1.collected (runStmtsN a stmts).2 := by
  induction stmts with
  | nil => intro s a R; exact ⟨R, Ext.refl _, rfl, by intro it h; cases h⟩
  | cons st rest ih =>
    intro s a R
    obtain ⟨R1, e1, i1, b1⟩ := stmtStep_spec s a st R
    obtain ⟨R2, e2, i2, b2⟩ := ih _ _ R1
    simp only [runStmts, runStmtsN]
    refine ⟨R2, e1.trans e2, ?_, (b1.ext e2).append b2⟩
    rw [List.map_append, i1, i2, map_toC_ext e2 _ b1]

/-! ### the routine-level machine is parametric in the item type -/

def mapR {ι κ : Type} (f : ι → κ) (r : RState ι) : RState κ := ⟨r.infos, r.ops.map (List.map f), r.coros, r.active⟩

def emap {α β : Type} (f : α → β) : Except Err α → Except Err β
  | .ok a => .ok (f a)
  | .error e => .error e

theorem pySet_map {α β : Type} (f : α → β) (l : List α) (i : Int) (v : α) :
    pySet (l.map f) i (f v) = emap (List.map f) (pySet l i v) := by
  unfold pySet
  simp only [List.length_map]
  generalize (if i < 0 then i + (l.length : Int) else i) = j
  by_cases h : j < 0 ∨ j ≥ (l.length : Int)
  · rw [if_pos h, if_pos h]; rfl
  · rw [if_neg h, if_neg h]; simp [emap, List.map_set]

theorem enlarge_mapR {ι κ : Type} (f : ι → κ) (r : RState ι) : enlarge (mapR f r) = emap (mapR f) (enlarge r) := by
  unfold enlarge
  have e1 : (mapR f r).infos = r.infos := rfl
  have e2 : (mapR f r).active = r.active := rfl
  rw [e1, e2]
  by_cases h0 : r.active < 0 ∨ r.active > (r.infos.length : Int)
  · rw [if_pos h0, if_pos h0]; rfl
  · rw [if_neg h0, if_neg h0]
    by_cases h : (r.infos.length : Int) - 1 < r.active
    · rw [if_pos h, if_pos h]
      simp [mapR, emap]
    · rw [if_neg h, if_neg h]; rfl

theorem assign_mapR {ι κ : Type} (f : ι → κ) (r : RState ι) (info : RoutineInfo) (items : List ι) :
    assign (mapR f r) info (items.map f) = emap (mapR f) (assign r info items) := by
  unfold assign
  simp only [mapR]
  cases h1 : pySet r.infos r.active (some info) with
  | error e => simp [emap]
  | ok infos =>
    simp only
    have := pySet_map (List.map f) r.ops r.active items
    rw [this]
    cases h2 : pySet r.ops r.active items with
    | error e => simp [emap]
    | ok ops => simp [emap, mapR]

theorem exitDef_mapR {ι κ : Type} (f : ι → κ) (r : RState ι) (h : SHeader) (items : List ι) :
    exitDef (mapR f r) h (items.map f) = emap (mapR f) (exitDef r h items) := by
  cases h with
  | simple id =>
    simp only [exitDef]
    have : ({ mapR f r with active := id } : RState κ) = mapR f { r with active := id } := rfl
    rw [this, enlarge_mapR]
    cases enlarge { r with active := id } with
    | error e => simp [emap]
    | ok r1 => exact assign_mapR f r1 _ items
  | coro name =>
    simp only [exitDef]
    have : ({ mapR f r with active := (mapR f r).active + 1 } : RState κ) = mapR f { r with active := r.active + 1 } := rfl
    rw [this, enlarge_mapR]
    cases enlarge { r with active := r.active + 1 } with
    | error e => simp [emap]
    | ok r1 =>
      show (match pySet (mapR f r1).coros (mapR f r1).active (some name) with
        | .error e => .error e
        | .ok coros => assign { mapR f r1 with coros := coros } ⟨.coroutine, 0, none⟩ (items.map f)) =
        emap (mapR f) (match pySet r1.coros r1.active (some name) with
        | .error e => .error e
        | .ok coros => assign { r1 with coros := coros } ⟨.coroutine, 0, none⟩ items)
      have e1 : (mapR f r1).coros = r1.coros := rfl
      have e2 : (mapR f r1).active = r1.active := rfl
      rw [e1, e2]
      cases pySet r1.coros r1.active (some name) with
      | error e => simp [emap]
      | ok coros =>
        exact assign_mapR f { r1 with coros := coros } _ items
  | forTarget id word target =>
    simp only [exitDef]
    have : ({ mapR f r with active := id } : RState κ) = mapR f { r with active := id } := rfl
    rw [this, enlarge_mapR]
    cases enlarge { r with active := id } with
    | error e => simp [emap]
    | ok r1 =>
      show (match kindOfWord word with
        | none => .error .ssbCompilerError
        | some k => assign (mapR f r1) (infoOfTarget k target) (items.map f)) =
        emap (mapR f) (match kindOfWord word with
        | none => .error .ssbCompilerError
        | some k => assign r1 (infoOfTarget k target) items)
      cases kindOfWord word with
      | none => simp [emap]
      | some k => exact assign_mapR f r1 _ items

theorem pySet_mem {α : Type} (l l' : List α) (i : Int) (v : α) (h : pySet l i v = .ok l') :
    ∀ x ∈ l', x ∈ l ∨ x = v := by
  unfold pySet at h
  simp only at h
  generalize (if i < 0 then i + (l.length : Int) else i) = j at h
  by_cases hc : j < 0 ∨ j ≥ (l.length : Int)
  · rw [if_pos hc] at h; cases h
  · rw [if_neg hc] at h
    cases h
    intro x hx
    exact List.mem_or_eq_of_mem_set hx

theorem enlarge_ops_mem {ι : Type} (r r' : RState ι) (h : enlarge r = .ok r') :
    ∀ l ∈ r'.ops, l ∈ r.ops ∨ l = [] := by
  unfold enlarge at h
  split at h
  · cases h
  · split at h
    · cases h
      intro l hl
      simp only [List.mem_append, List.mem_replicate] at hl
      rcases hl with h | h
      · exact .inl h
      · exact .inr h.2
    · cases h
      intro l hl; exact .inl hl

theorem assign_ops_mem {ι : Type} (r r' : RState ι) (info : RoutineInfo) (items : List ι)
    (h : assign r info items = .ok r') : ∀ l ∈ r'.ops, l ∈ r.ops ∨ l = items := by
  unfold assign at h
  cases h1 : pySet r.infos r.active (some info) with
  | error e => rw [h1] at h; cases h
  | ok infos =>
    rw [h1] at h
    cases h2 : pySet r.ops r.active items with
    | error e => rw [h2] at h; cases h
    | ok ops =>
      rw [h2] at h
      cases h
      exact pySet_mem _ _ _ _ h2

theorem exitDef_ops_mem {ι : Type} (r r' : RState ι) (hd : SHeader) (items : List ι)
    (h : exitDef r hd items = .ok r') : ∀ l ∈ r'.ops, l ∈ r.ops ∨ l = items ∨ l = [] := by
  intro l hl
  cases hd with
  | simple id =>
    simp only [exitDef] at h
    cases he : enlarge { r with active := id } with
    | error e => rw [he] at h; cases h
    | ok r1 =>
      rw [he] at h
      rcases assign_ops_mem _ _ _ _ h l hl with h1 | h1
      · rcases enlarge_ops_mem _ _ he l h1 with h2 | h2
        · exact .inl h2
        · exact .inr (.inr h2)
      · exact .inr (.inl h1)
  | coro name =>
    simp only [exitDef] at h
    cases he : enlarge { r with active := r.active + 1 } with
    | error e => rw [he] at h; cases h
    | ok r1 =>
      rw [he] at h
      simp only at h
      split at h
      · cases h
      · rcases assign_ops_mem _ _ _ _ h l hl with h1 | h1
        · rcases enlarge_ops_mem _ _ he l h1 with h2 | h2
          · exact .inl h2
          · exact .inr (.inr h2)
        · exact .inr (.inl h1)
  | forTarget id word target =>
    simp only [exitDef] at h
    cases he : enlarge { r with active := id } with
    | error e => rw [he] at h; cases h
    | ok r1 =>
      rw [he] at h
      simp only at h
      split at h
      · cases h
      · rcases assign_ops_mem _ _ _ _ h l hl with h1 | h1
        · rcases enlarge_ops_mem _ _ he l h1 with h2 | h2
          · exact .inl h2
          · exact .inr (.inr h2)
        · exact .inr (.inl h1)

def BoundR (C : Dict String Nat) (r : RState NItem) : Prop := ∀ l ∈ r.ops, Bound C l

theorem mapR_toC_ext {C C' : Dict String Nat} (h : Ext C C') (r : RState NItem) (hb : BoundR C r) :
    mapR (toC C') r = mapR (toC C) r := by
  simp only [mapR, RState.mk.injEq, true_and, and_true]
  apply List.map_congr_left
  intro l hl
  exact map_toC_ext h l (hb l hl)

theorem goG_refine (ast : List SRoutine) : ∀ (s : LState) (a : NState) (rN : RState NItem),
    Rel s a → BoundR s.collected rN →
    match goG runStmtsN a rN ast with
    | .error e => goG runStmts s (mapR (toC s.collected) rN) ast = .error e
    | .ok (a', rN') => ∃ s', goG runStmts s (mapR (toC s.collected) rN) ast = .ok (s', mapR (toC s'.collected) rN') ∧
        Rel s' a' ∧ BoundR s'.collected rN' := by
  induction ast with
  | nil =>
    intro s a rN R hb
    simp only [goG]
    exact ⟨s, rfl, R, hb⟩
  | cons rt rest ih =>
    intro s a rN R hb
    obtain ⟨R1, e1, i1, b1⟩ := runStmts_spec (rt.body.getD []) s a R
    simp only [goG]
    rw [i1, ← mapR_toC_ext e1 rN hb, exitDef_mapR]
    cases hx : exitDef rN rt.header (runStmtsN a (rt.body.getD [])).2 with
    | error e => simp [emap]
    | ok rN1 =>
      simp only [emap]
      have hb1 : BoundR (runStmts s (rt.body.getD [])).1.collected rN1 := by
        intro l hl
        rcases exitDef_ops_mem _ _ _ _ hx l hl with h | h | h
        · exact (hb l h).ext e1
        · rw [h]; exact b1
        · rw [h]; intro it hit; cases hit
      exact ih _ _ rN1 R1 hb1

theorem removeItems_toC (s : LState) (a : NState) (R : Rel s a) (items : List NItem) (hb : Bound s.collected items) :
    removeItems s.labelOffsets (items.map (toC s.collected)) = removeItemsN a.offs items := by
  induction items with
  | nil => rfl
  | cons it rest ih =>
    have hb' : Bound s.collected rest := fun x hx => hb x (List.mem_cons_of_mem _ hx)
    cases it with
    | op o => simp only [List.map_cons, toC, removeItems, removeItemsN, ih hb']; rfl
    | label nm => simp only [List.map_cons, toC, removeItems, removeItemsN, ih hb']
    | jump o nm =>
      have hg := get_of_bound (hb (.jump o nm) List.mem_cons_self nm (by simp [NItem.names]))
      simp only [List.map_cons, toC, removeItems, removeItemsN, ih hb', R.offs nm _ hg]; rfl

theorem mapE_congr {α β γ : Type} (f : β → Except Err γ) (g : α → β) (h : α → Except Err γ) (l : List α)
    (hc : ∀ x ∈ l, f (g x) = h x) : mapE f (l.map g) = mapE h l := by
  induction l with
  | nil => rfl
  | cons a as ih =>
    simp only [List.map_cons, mapE]
    rw [hc a List.mem_cons_self, ih (fun x hx => hc x (List.mem_cons_of_mem _ hx))]

theorem Rel.init : Rel LState.init NState.init := by
  constructor <;> simp [LState.init, NState.init, InjD, Dict.get?]

/-- Label ids are an implementation detail: for every AST the compiler computes what the compiler keyed by
label names computes (same routine infos, ops, coroutine names, or the same exception class). -/
theorem compileRaw_eq_N (ast : List SRoutine) : compileRaw ast = compileRawN ast := by
  have h := goG_refine ast LState.init NState.init RState.init Rel.init (by intro l hl; cases hl)
  have hinit : mapR (toC LState.init.collected) (RState.init : RState NItem) = (RState.init : RState CItem) := rfl
  rw [hinit] at h
  unfold compileRaw compileRawN
  cases hN : goG runStmtsN NState.init RState.init ast with
  | error e => rw [hN] at h; simp only at h; rw [h]
  | ok p =>
    obtain ⟨a', rN'⟩ := p
    rw [hN] at h
    obtain ⟨s', hs, R', hb'⟩ := h
    rw [hs]
    simp only [mapR]
    rw [mapE_congr (removeItems s'.labelOffsets) (List.map (toC s'.collected)) (removeItemsN a'.offs) rN'.ops
      (fun l hl => removeItems_toC s' a' R' l (hb' l hl))]
    rfl

end ESV.SsbScript
