import ESV.SsbScript.Text
import ESV.Props.C09
/-
Lemmas for the text model of the SsbScript decompiler (ESV/SsbScript/Text.lean), part 1:
lines of a text (`Lit.splitOn '\n'`, Python's `text.split("\n")`), the predicate "line `n` of the text begins with `s`",
pairing of two lists, the shape of the label pass (`processAll` keeps offsets and opcode names).
-/
namespace ESV.SsbScript.Text
open ESV ESV.Writer ESV.SsbScript ESV.C09

/-! ### `str.split("\n")` -/

theorem splitAux_append (sep : Char) (a b : Str) :
    Lit.splitAux sep (a ++ sep :: b) =
      ((Lit.splitAux sep a).1, (Lit.splitAux sep a).2 ++ (Lit.splitAux sep b).1 :: (Lit.splitAux sep b).2) := by
  induction a with
  | nil => simp [Lit.splitAux]
  | cons c a ih =>
    simp only [List.cons_append, Lit.splitAux, ih]
    split <;> simp

theorem splitOn_append (sep : Char) (a b : Str) :
    Lit.splitOn sep (a ++ sep :: b) = Lit.splitOn sep a ++ Lit.splitOn sep b := by
  simp [Lit.splitOn, splitAux_append]

theorem length_splitAux (sep : Char) (a : Str) : (Lit.splitAux sep a).2.length = a.count sep := by
  induction a with
  | nil => simp [Lit.splitAux]
  | cons c a ih =>
    simp only [Lit.splitAux]
    by_cases h : c = sep
    · subst h; simp [ih]
    · simp [h, ih]

theorem length_splitOn (sep : Char) (a : Str) : (Lit.splitOn sep a).length = a.count sep + 1 := by
  simp [Lit.splitOn, length_splitAux]

theorem splitAux_fst_append (sep : Char) (s c : Str) (h : sep ∉ s) :
    (Lit.splitAux sep (s ++ c)).1 = s ++ (Lit.splitAux sep c).1 := by
  induction s with
  | nil => rfl
  | cons x s ih =>
    have hx : ¬ x = sep := fun e => h (by simp [e])
    have hs : sep ∉ s := fun e => h (List.mem_cons_of_mem _ e)
    simp [Lit.splitAux, hx, ih hs]

/-- the text has a line break after `a`, and `s` is written right behind it: 0-based line `line` begins with `s` -/
def PointsAt (text : Str) (line : Nat) (s : Str) : Prop :=
  ∃ a b, text = a ++ '\n' :: b ∧ countNl a + 1 = line ∧ s <+: b

theorem PointsAt.append {text : Str} {line : Nat} {s : Str} (h : PointsAt text line s) (more : Str) :
    PointsAt (text ++ more) line s := by
  obtain ⟨a, b, rfl, hl, hp⟩ := h
  exact ⟨a, b ++ more, by simp, hl, List.IsPrefix.trans hp (List.prefix_append _ _)⟩

/-- with `s` free of newlines: line `line` of `text.split("\n")` exists and starts with `s` -/
theorem PointsAt.line {text : Str} {line : Nat} {s : Str} (h : PointsAt text line s) (hs : '\n' ∉ s) :
    ∃ l, (Lit.splitOn '\n' text)[line]? = some l ∧ s <+: l := by
  obtain ⟨a, b, rfl, rfl, c, rfl⟩ := h
  refine ⟨s ++ (Lit.splitAux '\n' c).1, ?_, List.prefix_append _ _⟩
  rw [splitOn_append, List.getElem?_append_right (by rw [length_splitOn]; exact Nat.le_refl _), length_splitOn]
  have : countNl a + 1 - (List.count '\n' a + 1) = 0 := by simp [countNl]
  rw [this]
  simp [Lit.splitOn, splitAux_fst_append '\n' s c hs]

/-! ### two lists related position by position -/

def All2 {α β : Type} (R : α → β → Prop) : List α → List β → Prop
  | [], [] => True
  | a :: as, b :: bs => R a b ∧ All2 R as bs
  | _, _ => False

theorem All2.imp {α β : Type} {R S : α → β → Prop} (h : ∀ a b, R a b → S a b) :
    ∀ {l : List α} {m : List β}, All2 R l m → All2 S l m
  | [], [], _ => trivial
  | _ :: _, _ :: _, ⟨h1, h2⟩ => ⟨h _ _ h1, All2.imp h h2⟩
  | [], _ :: _, h => h.elim
  | _ :: _, [], h => h.elim

theorem All2.append {α β : Type} {R : α → β → Prop} :
    ∀ {l1 : List α} {m1 : List β} {l2 : List α} {m2 : List β}, All2 R l1 m1 → All2 R l2 m2 → All2 R (l1 ++ l2) (m1 ++ m2)
  | [], [], _, _, _, h2 => by simpa using h2
  | _ :: _, _ :: _, _, _, ⟨h1, h1'⟩, h2 => ⟨h1, All2.append h1' h2⟩
  | [], _ :: _, _, _, h, _ => h.elim
  | _ :: _, [], _, _, h, _ => h.elim

theorem All2.get {α β : Type} {R : α → β → Prop} :
    ∀ {l : List α} {m : List β}, All2 R l m → ∀ (k : Nat) (a : α), l[k]? = some a → ∃ b, m[k]? = some b ∧ R a b
  | [], [], _, k, a, h => by simp at h
  | x :: l, y :: m, ⟨h1, h2⟩, k, a, h => by
    cases k with
    | zero => simp at h; subst h; exact ⟨y, by simp, h1⟩
    | succ k => simp at h; simpa using All2.get h2 k a h
  | [], _ :: _, h, _, _, _ => h.elim
  | _ :: _, [], h, _, _, _ => h.elim

theorem All2.map_eq {α β γ : Type} {R : α → β → Prop} (f : α → γ) (g : β → γ) (h : ∀ a b, R a b → f a = g b) :
    ∀ {l : List α} {m : List β}, All2 R l m → l.map f = m.map g
  | [], [], _ => rfl
  | _ :: _, _ :: _, ⟨h1, h2⟩ => by simp [h _ _ h1, All2.map_eq f g h h2]
  | [], _ :: _, h => h.elim
  | _ :: _, [], h => h.elim

/-! ### the label pass keeps offsets and opcode names -/

/-- what the theorems need of an op: its offset and its opcode name -/
def opKey (o : Op) : Int × String := (o.offset, o.name)

/-- offset recorded for the op (`op.offset`) and opcode name printed for it (`real_op.op_code.name`) -/
def ropKey (r : ROp) : Int × String := (r.offset, (ROp.root r).name)

theorem processOp_key {ends : List Int} {rid : Nat} {ls ls' : Labels} {o : Op} {r : ROp}
    (h : processOp ends rid ls o = .ok (ls', r)) : ropKey r = opKey o := by
  unfold processOp at h
  split at h
  · cases h; rfl
  · split at h
    · cases h
    · split at h
      · cases h
      · split at h
        · cases h; rfl
        · split at h
          · cases h
          · split at h
            · cases h
            · cases h; rfl
      · cases h

theorem processRoutine_key {ends : List Int} {rid : Nat} :
    ∀ {os : List Op} {ls ls' : Labels} {rs : List ROp}, processRoutine ends rid ls os = .ok (ls', rs) →
      rs.map ropKey = os.map opKey
  | [], _, _, _, h => by cases h; rfl
  | o :: os, ls, ls', rs, h => by
    unfold processRoutine at h
    split at h
    · cases h
    · rename_i ls1 r h1
      split at h
      · cases h
      · rename_i ls2 rs' h2
        cases h
        simp [processOp_key h1, processRoutine_key h2]

theorem processAll_key {ends : List Int} :
    ∀ {rts : List (List Op)} {rid : Nat} {ls ls' : Labels} {rr : List (List ROp)}, processAll ends rid ls rts = .ok (ls', rr) →
      rr.map (List.map ropKey) = rts.map (List.map opKey)
  | [], _, _, _, _, h => by cases h; rfl
  | r :: rts, rid, ls, ls', rr, h => by
    unfold processAll at h
    split at h
    · cases h
    · rename_i ls1 r' h1
      split at h
      · cases h
      · rename_i ls2 rs' h2
        cases h
        simp [processRoutine_key h1, processAll_key h2]

end ESV.SsbScript.Text
