import ESV.SsbScript.Lemmas
/-
C03 for the SsbScript compiler model (ESV/SsbScript/Model.lean `compileRaw` / `compile`): the compile result is a closed,
uniquely addressed op list, provided
  * every op named like a jump-carrying op is written with a jump marker `@label` as LAST argument (otherwise its last
    parameter is whatever was written — or nothing, a marker that is not last is dropped), and
  * no routine id is defined twice and none is negative (otherwise `routine_ops[id] = …` overwrites the ops of the first
    definition while the labels inside keep their offsets, resp. Python's negative indexing hits another routine).
Both guards are decidable and both are needed (counterexamples in ESV/Props/C03.lean, replayed on the real compiler).
-/
namespace ESV.SsbScript.Cl
open ESV ESV.SsbScript

/-! ### vocabulary -/

def CItem.off : CItem → Option Int
  | .op o => some o.offset
  | .jump r _ => some r.offset
  | .label _ => none

def coffs (l : List CItem) : List Int := l.filterMap CItem.off

def CItem.plain : CItem → Option String
  | .op o => some o.name
  | _ => none

def cplain (l : List CItem) : List String := l.filterMap CItem.plain

def isJumpName (n : String) : Bool := (jumpIdx n).isSome

def lastIntIn (all : List Int) (params : List Param) : Bool :=
  match params.getLast? with
  | some (.int t) => all.contains t
  | _ => false

def jumpOK (all : List Int) (o : Op) : Bool := !isJumpName o.name || lastIntIn all o.params

def flatOffsets (ops : List (List Op)) : List Int := ops.flatten.map (·.offset)

/-- the property C03 on the three tables of a compile result -/
def ClosedTables (nInfos nCoros : Nat) (ops : List (List Op)) : Prop :=
  (flatOffsets ops).Nodup ∧ (∀ o ∈ ops.flatten, jumpOK (flatOffsets ops) o = true) ∧ nInfos = ops.length ∧ nCoros = ops.length

instance (a b : Nat) (ops : List (List Op)) : Decidable (ClosedTables a b ops) := by unfold ClosedTables; infer_instance

@[simp] theorem coffs_nil : coffs [] = [] := rfl
@[simp] theorem coffs_cons_op (o : Op) (l : List CItem) : coffs (.op o :: l) = o.offset :: coffs l := rfl
@[simp] theorem coffs_cons_label (i : Nat) (l : List CItem) : coffs (.label i :: l) = coffs l := rfl
@[simp] theorem coffs_cons_jump (r : Op) (t : Nat) (l : List CItem) : coffs (.jump r t :: l) = r.offset :: coffs l := rfl
@[simp] theorem cplain_cons_op (o : Op) (l : List CItem) : cplain (.op o :: l) = o.name :: cplain l := rfl
@[simp] theorem cplain_cons_label (i : Nat) (l : List CItem) : cplain (.label i :: l) = cplain l := rfl
@[simp] theorem cplain_cons_jump (r : Op) (t : Nat) (l : List CItem) : cplain (.jump r t :: l) = cplain l := rfl
@[simp] theorem coffs_append (a b : List CItem) : coffs (a ++ b) = coffs a ++ coffs b := by simp [coffs]
@[simp] theorem cplain_nil : cplain [] = [] := rfl
@[simp] theorem cplain_append (a b : List CItem) : cplain (a ++ b) = cplain a ++ cplain b := by simp [cplain]

/-! ### the guards -/

def lastIsMarker (args : List SArg) : Bool :=
  match args.getLast? with
  | some (.jump _) => true
  | _ => false

def stmtOK : SStmt → Bool
  | .label _ => true
  | .op name args => !isJumpName name || lastIsMarker args

/-- every op named like a jump-carrying op has a jump marker as last argument -/
def MarkersLast (ast : List SRoutine) : Prop := ∀ rt ∈ ast, ∀ st ∈ rt.body.getD [], stmtOK st = true

instance (ast : List SRoutine) : Decidable (MarkersLast ast) := by unfold MarkersLast; infer_instance

def headerId (active : Int) : SHeader → Int
  | .simple id => id
  | .coro _ => active + 1
  | .forTarget id _ _ => id

/-- the routine ids in source order (`coro` continues after the previous routine) -/
def idsFrom : Int → List SRoutine → List Int
  | _, [] => []
  | active, rt :: rest => headerId active rt.header :: idsFrom (headerId active rt.header) rest

/-- no routine id is negative or defined twice -/
def IdsFresh (ast : List SRoutine) : Prop := (∀ i ∈ idsFrom (-1) ast, 0 ≤ i) ∧ (idsFrom (-1) ast).Nodup

instance (ast : List SRoutine) : Decidable (IdsFresh ast) := by unfold IdsFresh; infer_instance

/-! ### statements: offsets are consecutive, label offsets are offsets of ops already collected -/

/-- all recorded label offsets are offsets of collected ops -/
def LblOK (s : LState) : Prop := ∀ id t, Dict.get? s.labelOffsets id = some t → 0 ≤ t ∧ t < (s.total : Int)

theorem getLabel_total (s : LState) (nm : String) : (getLabel s nm).2.total = s.total ∧ (getLabel s nm).2.labelOffsets = s.labelOffsets
    ∧ (getLabel s nm).2.pending = s.pending := by
  unfold getLabel
  split <;> simp

theorem argStep_keeps (acc : LState × List Param × Option Nat) (a : SArg) :
    (argStep acc a).1.total = acc.1.total ∧ (argStep acc a).1.labelOffsets = acc.1.labelOffsets ∧ (argStep acc a).1.pending = acc.1.pending := by
  cases a with
  | param p => simp [argStep]
  | jump nm => simp only [argStep]; exact getLabel_total _ _

theorem foldl_argStep_keeps (args : List SArg) : ∀ (acc : LState × List Param × Option Nat),
    (args.foldl argStep acc).1.total = acc.1.total ∧ (args.foldl argStep acc).1.labelOffsets = acc.1.labelOffsets ∧
    (args.foldl argStep acc).1.pending = acc.1.pending := by
  induction args with
  | nil => intro acc; simp
  | cons a r ih =>
    intro acc
    simp only [List.foldl_cons]
    obtain ⟨h1, h2, h3⟩ := ih (argStep acc a)
    obtain ⟨k1, k2, k3⟩ := argStep_keeps acc a
    exact ⟨h1.trans k1, h2.trans k2, h3.trans k3⟩

theorem runArgs_keeps (s : LState) (args : List SArg) :
    (runArgs s args).1.total = s.total ∧ (runArgs s args).1.labelOffsets = s.labelOffsets ∧ (runArgs s args).1.pending = s.pending :=
  foldl_argStep_keeps args _

theorem foldl_argStep_marker (args : List SArg) : ∀ (acc : LState × List Param × Option Nat),
    (args.foldl argStep acc).2.2.isSome = (match args.getLast? with
      | some (.jump _) => true
      | some (.param _) => false
      | none => acc.2.2.isSome) := by
  induction args with
  | nil => intro acc; simp
  | cons a r ih =>
    intro acc
    simp only [List.foldl_cons]
    rw [ih]
    cases r with
    | nil => cases a <;> simp [argStep]
    | cons b r' =>
      cases hgl : (b :: r').getLast? with
      | none => simp at hgl
      | some x => rw [List.getLast?_cons_cons, hgl]; cases x <;> rfl

theorem runArgs_marker (s : LState) (args : List SArg) (h : lastIsMarker args = true) : (runArgs s args).2.2.isSome = true := by
  unfold runArgs
  rw [foldl_argStep_marker]
  unfold lastIsMarker at h
  cases hl : args.getLast? with
  | none => rw [hl] at h; cases h
  | some x =>
    cases x with
    | param p => rw [hl] at h; cases h
    | jump nm => rfl

/-- one number per op: `[lo, hi)` each exactly once -/
def Exact (lo hi : Nat) (l : List Int) : Prop := ∀ n : Int, l.count n ≤ 1 ∧ (0 < l.count n ↔ (lo : Int) ≤ n ∧ n < (hi : Int))

theorem Exact.nil (lo : Nat) : Exact lo lo [] := fun n => by simp

theorem Exact.append {a b c : Nat} {x y : List Int} (h1 : Exact a b x) (h2 : Exact b c y) (hab : a ≤ b) (hbc : b ≤ c) : Exact a c (x ++ y) := by
  intro n
  have := h1 n
  have := h2 n
  simp only [List.count_append]
  omega

theorem Exact.single (a : Nat) : Exact a (a + 1) [(a : Int)] := by
  intro n
  by_cases h : (a : Int) = n
  · subst h; simp; omega
  · have : ((a : Int) == n) = false := by simpa using h
    simp [List.count_cons, this]
    omega

theorem stmtStep_spec (s : LState) (st : SStmt) (hl : LblOK s) :
    s.total ≤ (stmtStep s st).1.total ∧ Exact s.total (stmtStep s st).1.total (coffs (stmtStep s st).2) ∧ LblOK (stmtStep s st).1 ∧
    (stmtOK st = true → ∀ n ∈ cplain (stmtStep s st).2, isJumpName n = false) := by
  cases st with
  | label nm =>
    obtain ⟨t1, t2, _⟩ := getLabel_total s nm
    refine ⟨by simp [stmtStep, labelDone, t1], ?_, ?_, fun _ n hn => by simp [stmtStep, cplain, CItem.plain] at hn⟩
    · simpa [stmtStep, labelDone, t1] using Exact.nil s.total
    · intro id t h
      simp only [stmtStep, labelDone, t2, t1] at h ⊢
      exact hl id t h
  | op name args =>
    obtain ⟨t1, t2, t3⟩ := runArgs_keeps s args
    refine ⟨by simp [stmtStep, opDone, t1], ?_, ?_, ?_⟩
    · have : ∀ (ps : List Param) (m : Option Nat), coffs [mkItem ⟨(s.total : Int), name, ps⟩ m] = [(s.total : Int)] := by
        intro ps m; cases m <;> rfl
      simp only [stmtStep, opDone, t1, this]
      exact Exact.single s.total
    · intro id t h
      simp only [stmtStep, opDone, setAll, get?_setMany, t1, t2] at h ⊢
      split at h
      · simp only [Option.some.injEq] at h; subst h; omega
      · have := hl id t h; omega
    · intro hok n hn
      simp only [stmtOK, Bool.or_eq_true, Bool.not_eq_true'] at hok
      simp only [stmtStep] at hn
      cases hm : (runArgs s args).2.2 with
      | none =>
        rw [hm] at hn
        simp only [mkItem, cplain, List.filterMap_cons, CItem.plain, List.filterMap_nil, List.mem_singleton] at hn
        rcases hok with hok | hok
        · rw [hn]; exact hok
        · have := runArgs_marker s args hok; rw [hm] at this; cases this
      | some id => rw [hm] at hn; simp [mkItem, cplain, CItem.plain] at hn

theorem runStmts_spec' (stmts : List SStmt) : ∀ (s : LState), LblOK s → (∀ st ∈ stmts, stmtOK st = true) →
    s.total ≤ (runStmts s stmts).1.total ∧ Exact s.total (runStmts s stmts).1.total (coffs (runStmts s stmts).2) ∧
    LblOK (runStmts s stmts).1 ∧ ∀ n ∈ cplain (runStmts s stmts).2, isJumpName n = false := by
  induction stmts with
  | nil => intro s hl _; exact ⟨Nat.le_refl _, by simpa [runStmts] using Exact.nil s.total, hl, fun n hn => by simp [runStmts] at hn⟩
  | cons st r ih =>
    intro s hl hok
    obtain ⟨a1, a2, a3, a4⟩ := stmtStep_spec s st hl
    obtain ⟨b1, b2, b3, b4⟩ := ih (stmtStep s st).1 a3 (fun x hx => hok x (by simp [hx]))
    refine ⟨Nat.le_trans a1 b1, ?_, b3, ?_⟩
    · simpa [runStmts] using a2.append b2 a1 b1
    · intro n hn
      simp only [runStmts, cplain_append, List.mem_append] at hn
      rcases hn with hn | hn
      · exact a4 (hok st (by simp)) n hn
      · exact b4 n hn

/-! ### the routine table -/

theorem count_set_flatten (v : List CItem) (n : Int) : ∀ (l : List (List CItem)) (i : Nat),
    (coffs (l.set i v).flatten).count n ≤ (coffs l.flatten).count n + (coffs v).count n := by
  intro l
  induction l with
  | nil => intro i; simp
  | cons a r ih =>
    intro i
    cases i with
    | zero => simp only [List.set_cons_zero, List.flatten_cons, coffs_append, List.count_append]; omega
    | succ j =>
      have := ih j
      simp only [List.set_cons_succ, List.flatten_cons, coffs_append, List.count_append]
      omega

theorem plain_set_flatten (v : List CItem) (n : String) : ∀ (l : List (List CItem)) (i : Nat),
    n ∈ cplain (l.set i v).flatten → n ∈ cplain l.flatten ∨ n ∈ cplain v := by
  intro l
  induction l with
  | nil => intro i h; simp at h
  | cons a r ih =>
    intro i h
    cases i with
    | zero =>
      simp only [List.set_cons_zero, List.flatten_cons, cplain_append, List.mem_append] at h ⊢
      rcases h with h | h
      · exact .inr h
      · exact .inl (.inr h)
    | succ j =>
      simp only [List.set_cons_succ, List.flatten_cons, cplain_append, List.mem_append] at h ⊢
      rcases h with h | h
      · exact .inl (.inl h)
      · rcases ih j h with h | h
        · exact .inl (.inr h)
        · exact .inr h

/-- the new content of slot `i` is in the table -/
theorem mem_set_flatten_new (v : List CItem) (x : Int) (hx : x ∈ coffs v) : ∀ (l : List (List CItem)) (i : Nat), i < l.length →
    x ∈ coffs (l.set i v).flatten := by
  intro l
  induction l with
  | nil => intro i h; simp at h
  | cons a r ih =>
    intro i h
    cases i with
    | zero => simp [hx]
    | succ j => simp only [List.set_cons_succ, List.flatten_cons, coffs_append, List.mem_append]; exact .inr (ih j (by simpa using h))

/-- what was in the table stays there when the overwritten slot was empty -/
theorem mem_set_flatten_old (v : List CItem) (x : Int) : ∀ (l : List (List CItem)) (i : Nat), (∀ y ∈ l[i]?, y = []) →
    x ∈ coffs l.flatten → x ∈ coffs (l.set i v).flatten := by
  intro l
  induction l with
  | nil => intro i _ h; simp at h
  | cons a r ih =>
    intro i he h
    cases i with
    | zero =>
      have : a = [] := he a (by simp)
      subst this
      simp only [List.flatten_cons, coffs_append, coffs_nil, List.nil_append] at h
      simp only [List.set_cons_zero, List.flatten_cons, coffs_append, List.mem_append]
      exact .inr h
    | succ j =>
      simp only [List.flatten_cons, coffs_append, List.mem_append] at h
      simp only [List.set_cons_succ, List.flatten_cons, coffs_append, List.mem_append]
      rcases h with h | h
      · exact .inl h
      · exact .inr (ih j (fun y hy => he y (by simpa using hy)) h)

structure TabInv (total : Nat) (r : RState CItem) (A : List Int) : Prop where
  li : r.infos.length = r.ops.length
  lc : r.coros.length = r.ops.length
  uniq : ∀ n : Int, (coffs r.ops.flatten).count n ≤ 1 ∧ (0 < (coffs r.ops.flatten).count n → 0 ≤ n ∧ n < (total : Int))
  full : ∀ n : Int, 0 ≤ n → n < (total : Int) → n ∈ coffs r.ops.flatten
  empty : ∀ i : Nat, (i : Int) ∉ A → ∀ y ∈ r.ops[i]?, y = []
  names : ∀ n ∈ cplain r.ops.flatten, isJumpName n = false

theorem TabInv.enlarge {total : Nat} {r r1 : RState CItem} {A : List Int} (h : TabInv total r A)
    (he : SsbScript.enlarge r = .ok r1) : TabInv total r1 A ∧ r1.active = r.active := by
  unfold SsbScript.enlarge at he
  split at he
  · cases he
  · split at he
    · simp only [Except.ok.injEq] at he
      subst he
      refine ⟨⟨by simp [h.li], by simp [h.lc, h.li], ?_, ?_, ?_, ?_⟩, rfl⟩
      · simpa [List.flatten_append, List.flatten_replicate_nil] using h.uniq
      · simpa [List.flatten_append, List.flatten_replicate_nil] using h.full
      · intro i hi y hy
        simp only [List.getElem?_append] at hy
        split at hy
        · exact h.empty i hi y hy
        · simp only [List.getElem?_replicate] at hy
          split at hy
          · simp only [Option.mem_def, Option.some.injEq] at hy; exact hy.symm
          · simp at hy
      · simpa [List.flatten_append, List.flatten_replicate_nil] using h.names
    · simp only [Except.ok.injEq] at he
      subst he
      exact ⟨h, rfl⟩

theorem pySet_nonneg {α : Type} {l l' : List α} {i : Int} {v : α} (hi : 0 ≤ i) (h : pySet l i v = .ok l') :
    l' = l.set i.toNat v ∧ i.toNat < l.length := by
  unfold pySet at h
  simp only at h
  have hn : ¬ i < 0 := by omega
  rw [if_neg hn] at h
  by_cases hc : i < 0 ∨ i ≥ (l.length : Int)
  · rw [if_pos hc] at h; cases h
  · rw [if_neg hc] at h
    cases h
    exact ⟨rfl, by omega⟩

theorem pySet_length {α : Type} {l l' : List α} {i : Int} {v : α} (h : pySet l i v = .ok l') : l'.length = l.length := by
  unfold pySet at h
  simp only at h
  generalize (if i < 0 then i + (l.length : Int) else i) = j at h
  by_cases hc : j < 0 ∨ j ≥ (l.length : Int)
  · rw [if_pos hc] at h; cases h
  · rw [if_neg hc] at h; cases h; simp

/-- assigning the items of a new routine (offsets `[total, total')`) to a fresh non-negative id -/
theorem TabInv.assign {total total' : Nat} {r r' : RState CItem} {A : List Int} {info : RoutineInfo} {items : List CItem}
    (h : TabInv total r A) (hid : 0 ≤ r.active) (hfresh : r.active ∉ A) (ht : total ≤ total')
    (hex : Exact total total' (coffs items)) (hnames : ∀ n ∈ cplain items, isJumpName n = false)
    (ha : assign r info items = .ok r') : TabInv total' r' (r.active :: A) ∧ r'.active = r.active := by
  unfold SsbScript.assign at ha
  cases h1 : pySet r.infos r.active (some info) with
  | error e => rw [h1] at ha; cases ha
  | ok infos =>
    rw [h1] at ha
    cases h2 : pySet r.ops r.active items with
    | error e => rw [h2] at ha; cases ha
    | ok ops =>
      rw [h2] at ha
      simp only [Except.ok.injEq] at ha
      subst ha
      obtain ⟨e, hlt⟩ := pySet_nonneg hid h2
      subst e
      have hempty : ∀ y ∈ r.ops[r.active.toNat]?, y = [] := h.empty r.active.toNat (by
        have : ((r.active.toNat : Nat) : Int) = r.active := Int.toNat_of_nonneg hid
        rw [this]; exact hfresh)
      refine ⟨⟨by simp [pySet_length h1, h.li], by simp [h.lc], ?_, ?_, ?_, ?_⟩, rfl⟩
      · intro n
        have c := count_set_flatten items n r.ops r.active.toNat
        have u := h.uniq n
        have e := hex n
        simp only at c ⊢
        omega
      · intro n h0 hlt'
        by_cases hc : n < (total : Int)
        · exact mem_set_flatten_old items n r.ops _ hempty (h.full n h0 hc)
        · exact mem_set_flatten_new items n (List.count_pos_iff.mp ((hex n).2.mpr ⟨by omega, hlt'⟩)) r.ops _ hlt
      · intro i hi y hy
        simp only [List.mem_cons, not_or] at hi
        have hne : r.active.toNat ≠ i := by
          intro hc
          apply hi.1
          rw [← hc]; exact (Int.toNat_of_nonneg hid)
        simp only [List.getElem?_set_ne hne] at hy
        exact h.empty i hi.2 y hy
      · intro n hn
        rcases plain_set_flatten items n r.ops _ hn with h' | h'
        · exact h.names n h'
        · exact hnames n h'

theorem pySet_coros_inv {total : Nat} {r : RState CItem} {A : List Int} (h : TabInv total r A) {coros : List (Option String)} {v : Option String}
    (hc : pySet r.coros r.active v = .ok coros) : TabInv total { r with coros := coros } A :=
  ⟨h.li, by simp [pySet_length hc, h.lc], h.uniq, h.full, h.empty, h.names⟩

/-- `exitDef` with a fresh non-negative id -/
theorem TabInv.exitDef {total total' : Nat} {r r' : RState CItem} {A : List Int} {hdr : SHeader} {items : List CItem}
    (h : TabInv total r A) (hid : 0 ≤ headerId r.active hdr) (hfresh : headerId r.active hdr ∉ A) (ht : total ≤ total')
    (hex : Exact total total' (coffs items)) (hnames : ∀ n ∈ cplain items, isJumpName n = false)
    (ha : exitDef r hdr items = .ok r') : TabInv total' r' (headerId r.active hdr :: A) ∧ r'.active = headerId r.active hdr := by
  cases hdr with
  | simple id =>
    simp only [SsbScript.exitDef, headerId] at ha hid hfresh ⊢
    have inv0 : TabInv total ({ r with active := id } : RState CItem) A := ⟨h.li, h.lc, h.uniq, h.full, h.empty, h.names⟩
    split at ha
    · cases ha
    · rename_i r1 he
      obtain ⟨inv1, e1⟩ := inv0.enlarge he
      simp only at e1
      obtain ⟨a, b⟩ := inv1.assign (by rw [e1]; exact hid) (by rw [e1]; exact hfresh) ht hex hnames ha
      rw [e1] at a b
      exact ⟨a, b⟩
  | coro name =>
    simp only [SsbScript.exitDef, headerId] at ha hid hfresh ⊢
    have inv0 : TabInv total ({ r with active := r.active + 1 } : RState CItem) A := ⟨h.li, h.lc, h.uniq, h.full, h.empty, h.names⟩
    split at ha
    · cases ha
    · rename_i r1 he
      obtain ⟨inv1, e1⟩ := inv0.enlarge he
      simp only at e1
      split at ha
      · cases ha
      · rename_i coros hc
        have inv2 := pySet_coros_inv inv1 hc
        obtain ⟨a, b⟩ := inv2.assign (by simp only; rw [e1]; exact hid) (by simp only; rw [e1]; exact hfresh) ht hex hnames ha
        simp only [e1] at a b
        exact ⟨a, b⟩
  | forTarget id word target =>
    simp only [SsbScript.exitDef, headerId] at ha hid hfresh ⊢
    have inv0 : TabInv total ({ r with active := id } : RState CItem) A := ⟨h.li, h.lc, h.uniq, h.full, h.empty, h.names⟩
    split at ha
    · cases ha
    · rename_i r1 he
      obtain ⟨inv1, e1⟩ := inv0.enlarge he
      simp only at e1
      split at ha
      · cases ha
      · obtain ⟨a, b⟩ := inv1.assign (by rw [e1]; exact hid) (by rw [e1]; exact hfresh) ht hex hnames ha
        rw [e1] at a b
        exact ⟨a, b⟩

theorem goG_spec (ast : List SRoutine) : ∀ (l : LState) (r : RState CItem) (A : List Int) (l' : LState) (r' : RState CItem),
    LblOK l → TabInv l.total r A →
    (∀ rt ∈ ast, ∀ st ∈ rt.body.getD [], stmtOK st = true) →
    (∀ i ∈ idsFrom r.active ast, 0 ≤ i ∧ i ∉ A) → (idsFrom r.active ast).Nodup →
    goG runStmts l r ast = .ok (l', r') → LblOK l' ∧ ∃ A', TabInv l'.total r' A' := by
  induction ast with
  | nil =>
    intro l r A l' r' hl inv _ _ _ h
    simp only [goG, Except.ok.injEq, Prod.mk.injEq] at h
    obtain ⟨rfl, rfl⟩ := h
    exact ⟨hl, A, inv⟩
  | cons rt rest ih =>
    intro l r A l' r' hl inv hok hids hnd h
    simp only [goG] at h
    split at h
    · cases h
    · rename_i r1 he
      obtain ⟨b1, b2, b3, b4⟩ := runStmts_spec' (rt.body.getD []) l hl (hok rt (by simp))
      simp only [idsFrom, List.mem_cons, forall_eq_or_imp, List.nodup_cons] at hids hnd
      obtain ⟨inv1, act⟩ := inv.exitDef hids.1.1 hids.1.2 b1 b2 b4 he
      refine ih _ _ _ _ _ b3 inv1 (fun x hx => hok x (by simp [hx])) ?_ (by rw [act]; exact hnd.2) h
      intro i hi
      rw [act] at hi
      refine ⟨(hids.2 i hi).1, ?_⟩
      simp only [List.mem_cons, not_or]
      exact ⟨fun hc => hnd.1 (hc ▸ hi), (hids.2 i hi).2⟩

/-! ### the remover -/

theorem removeItems_spec (lo : Dict Nat Int) (items : List CItem) : ∀ ops, removeItems lo items = .ok ops →
    ops.map (·.offset) = coffs items ∧
    ∀ o ∈ ops, o.name ∈ cplain items ∨ ∃ id t, Dict.get? lo id = some t ∧ ∃ ps, o.params = ps ++ [.int t] := by
  induction items with
  | nil => intro ops h; simp [removeItems] at h; subst h; simp
  | cons x r ih =>
    intro ops h
    cases x with
    | label id =>
      simp only [removeItems] at h
      simpa using ih ops h
    | op o =>
      simp only [removeItems] at h
      split at h
      · cases h
      · rename_i os hos
        simp only [Except.ok.injEq] at h
        subst h
        obtain ⟨a, b⟩ := ih os hos
        refine ⟨by simp [a], fun o' ho' => ?_⟩
        simp only [List.mem_cons] at ho'
        rcases ho' with h | h
        · subst h; exact .inl (by simp)
        · rcases b o' h with h | h
          · exact .inl (by simp [h])
          · exact .inr h
    | jump root id =>
      simp only [removeItems] at h
      split at h
      · cases h
      · rename_i t ht
        split at h
        · cases h
        · rename_i os hos
          simp only [Except.ok.injEq] at h
          subst h
          obtain ⟨a, b⟩ := ih os hos
          refine ⟨by simp [a], fun o' ho' => ?_⟩
          simp only [List.mem_cons] at ho'
          rcases ho' with h | h
          · subst h; exact .inr ⟨id, t, ht, root.params, rfl⟩
          · rcases b o' h with h | h
            · exact .inl (by simpa using h)
            · exact .inr h

theorem mapE_ok_cons {α β : Type} {f : α → Except Err β} {a : α} {r : List α} {out : List β}
    (h : mapE f (a :: r) = .ok out) : ∃ b bs, f a = .ok b ∧ mapE f r = .ok bs ∧ out = b :: bs := by
  simp only [mapE] at h
  split at h
  · cases h
  · rename_i b hb
    split at h
    · cases h
    · rename_i bs hbs
      simp only [Except.ok.injEq] at h
      exact ⟨b, bs, hb, hbs, h.symm⟩

theorem remover_spec (lo : Dict Nat Int) (rs : List (List CItem)) : ∀ out, mapE (removeItems lo) rs = .ok out →
    flatOffsets out = coffs rs.flatten ∧ out.length = rs.length ∧
    ∀ o ∈ out.flatten, o.name ∈ cplain rs.flatten ∨ ∃ id t, Dict.get? lo id = some t ∧ ∃ ps, o.params = ps ++ [.int t] := by
  induction rs with
  | nil => intro out h; simp [mapE] at h; subst h; simp [flatOffsets]
  | cons a r ih =>
    intro out h
    obtain ⟨b, bs, h1, h2, h3⟩ := mapE_ok_cons h
    subst h3
    obtain ⟨x1, y1⟩ := removeItems_spec lo a b h1
    obtain ⟨x2, l2, y2⟩ := ih bs h2
    refine ⟨?_, by simp [l2], ?_⟩
    · simp only [flatOffsets] at x2 ⊢
      simp [x1, x2]
    · intro o ho
      simp only [List.flatten_cons, List.mem_append, cplain_append] at ho ⊢
      rcases ho with ho | ho
      · rcases y1 o ho with h | h
        · exact .inl (.inl h)
        · exact .inr h
      · rcases y2 o ho with h | h
        · exact .inl (.inr h)
        · exact .inr h

theorem nodup_of_count_le_one {l : List Int} (h : ∀ n, l.count n ≤ 1) : l.Nodup := by
  induction l with
  | nil => exact List.nodup_nil
  | cons a r ih =>
    have ha := h a
    simp only [List.count_cons_self] at ha
    have hnot : a ∉ r := by
      intro hm
      have := List.count_pos_iff.mpr hm
      omega
    refine List.nodup_cons.mpr ⟨hnot, ih (fun n => ?_)⟩
    have := h n
    simp only [List.count_cons] at this
    omega

/-- **C03 for the SsbScript compiler model.** -/
theorem compileRaw_closed (ast : List SRoutine) (c : CompileOut) (hm : MarkersLast ast) (hi : IdsFresh ast)
    (h : compileRaw ast = .ok c) : ClosedTables c.infos.length c.coros.length c.ops := by
  unfold compileRaw at h
  cases hg : goG runStmts LState.init RState.init ast with
  | error e => rw [hg] at h; cases h
  | ok p =>
    obtain ⟨l, r⟩ := p
    rw [hg] at h
    simp only at h
    cases hr : mapE (removeItems l.labelOffsets) r.ops with
    | error e => rw [hr] at h; cases h
    | ok ops =>
      rw [hr] at h
      simp only [Except.ok.injEq] at h
      subst h
      have hl0 : LblOK LState.init := fun id t h => by simp [LState.init, Dict.get?] at h
      have inv0 : TabInv LState.init.total (RState.init : RState CItem) [] :=
        ⟨rfl, rfl, fun n => by simp [RState.init], fun n h0 h1 => by simp [LState.init] at h1; omega,
         fun i _ y hy => by simp [RState.init] at hy, fun n hn => by simp [RState.init] at hn⟩
      obtain ⟨hl, A, inv⟩ := goG_spec ast _ _ [] _ _ hl0 inv0 hm
        (fun i hi' => ⟨hi.1 i (by simpa [RState.init] using hi'), by simp⟩) (by simpa [RState.init] using hi.2) hg
      obtain ⟨r1, r2, r3⟩ := remover_spec _ _ _ hr
      refine ⟨?_, ?_, by simp only; rw [r2]; exact inv.li, by simp only; rw [r2]; exact inv.lc⟩
      · rw [r1]; exact nodup_of_count_le_one (fun n => (inv.uniq n).1)
      · intro o ho
        unfold jumpOK
        cases hj : isJumpName o.name with
        | false => rfl
        | true =>
          simp only [Bool.not_true, Bool.false_or]
          rcases r3 o ho with hp | ⟨id, t, ht, ps, hps⟩
          · rw [inv.names _ hp] at hj; cases hj
          · obtain ⟨t0, t1⟩ := hl id t ht
            simp only [lastIntIn, hps, List.getLast?_concat, List.contains_iff_mem, r1]
            exact inv.full t t0 t1

/-! ### the routine id check of repo commits 6c4e703 / 418dd8e

`SsbScriptCompilerListener._enlarge_routine_info` raises `SsbCompilerError` unless `0 ≤ id ≤ len(routine_infos)`;
ESV/SsbScript/Model.lean has the check itself (`enlarge`), so the name below is just the model's `compileRaw`
(kept for the driver op `comp.ssbs_compile` and the theorem name). -/

def compileRawChecked (ast : List SRoutine) : Except Err CompileOut := compileRaw ast

theorem compileRawChecked_closed (ast : List SRoutine) (c : CompileOut) (hm : MarkersLast ast) (hi : IdsFresh ast)
    (h : compileRawChecked ast = .ok c) : ClosedTables c.infos.length c.coros.length c.ops :=
  compileRaw_closed ast c hm hi h

end ESV.SsbScript.Cl
