import ESV.SsbScript.TextLemmas
/-
Lemmas for the text model of the SsbScript decompiler, part 2: the invariant of the writer fold.
`Good w done`: the line counter is exact (`C09.Inv`), the recorded entries correspond one by one to the ops `done`
(offset, column 4, and the line named by the entry begins with four blanks, the opcode name and `(`), all recorded
lines lie before the line counter and increase strictly.  The step for `_read_op` is `C09.writer_entry_pos`.
-/
namespace ESV.SsbScript.Text
open ESV ESV.Writer ESV.SsbScript ESV.C09

/-- what is printed at the start of the statement of an op with opcode name `name`, on a line of a routine body -/
def stmtHead (name : String) : Str := spaces 4 ++ (name.toList ++ ['('])

def EntryOK (out : Str) (e : Int × Nat × Nat) (k : Int × String) : Prop :=
  e.1 = k.1 ∧ e.2.2 = 4 ∧ PointsAt out e.2.1 (stmtHead k.2)

structure Good (w : W) (done : List (Int × String)) : Prop where
  inv : Inv w
  ents : All2 (EntryOK w.out) w.map done
  below : ∀ e ∈ w.map, e.2.1 < w.line
  incr : w.map.Pairwise (fun a b => a.2.1 < b.2.1)

theorem EntryOK.append {out : Str} {e : Int × Nat × Nat} {k : Int × String} (h : EntryOK out e k) (more : Str) :
    EntryOK (out ++ more) e k := ⟨h.1, h.2.1, h.2.2.append more⟩

/-- a step that only appends text and does not lower the line counter keeps the invariant -/
theorem Good.grow {w w' : W} {d : List (Int × String)} (g : Good w d) (more : Str) (hout : w'.out = w.out ++ more)
    (hmap : w'.map = w.map) (hline : w.line ≤ w'.line) (hinv : Inv w') : Good w' d := by
  refine ⟨hinv, ?_, ?_, ?_⟩
  · rw [hmap, hout]; exact All2.imp (fun a b h => h.append more) g.ents
  · rw [hmap]; intro e he; exact Nat.lt_of_lt_of_le (g.below e he) hline
  · rw [hmap]; exact g.incr

theorem writeStmnt_indent (w : W) (s : Str) (nl : Bool) : (writeStmnt w s nl).indent = w.indent := by
  cases nl <;> rfl

theorem good_writeStmnt {w : W} {d : List (Int × String)} (g : Good w d) (s : Str) (nl : Bool) :
    Good (writeStmnt w s nl) d := by
  have hinv : Inv (writeStmnt w s nl) := inv_step w (.stmnt s nl) g.inv
  cases nl with
  | false => exact g.grow s rfl rfl (by simp [writeStmnt]) hinv
  | true =>
    exact g.grow (('\n' :: spaces (w.indent * ESV.Spec.spacesPerIndent)) ++ s) (by simp [writeStmnt, writeLine]) rfl
      (by simp [writeStmnt, writeLine]; omega) hinv

theorem good_writeLine {w : W} {d : List (Int × String)} (g : Good w d) : Good (writeLine w) d :=
  g.grow ('\n' :: spaces (w.indent * ESV.Spec.spacesPerIndent)) rfl rfl (by simp [writeLine]) (inv_writeLine w g.inv)

theorem good_setIndent {w : W} {d : List (Int × String)} (g : Good w d) (n : Nat) : Good (setIndentW w n) d :=
  g.grow [] (by simp [setIndentW]) rfl (Nat.le_refl _) g.inv

theorem good_start (pre : Str) : Good (start pre).w [] := by
  refine ⟨inv_step Writer.init (.stmnt pre false) inv_init, ?_, ?_, ?_⟩
  · simp [start, writeStmnt, Writer.init, All2]
  · simp [start, writeStmnt, Writer.init]
  · simp [start, writeStmnt, Writer.init]

/-- the unfiltered builder call is the protocol's `addOpcode` for every offset the ExplorerScript writer records -/
theorem addEntry_eq_addOpcode (w : W) (off : Int) (h : ¬ off < 0) : addEntry w off = addOpcode w off := by
  simp [addEntry, addOpcode, h]

/-- `C09.writer_entry_pos`, read for the unfiltered call: the statement written after the entry begins behind a newline
and `indent * 4` blanks, the entry names the 0-based line of that text, the line counter moves past it -/
theorem entry_pos (w : W) (h : Inv w) (off : Int) (s : Str) :
    (writeStmnt (addEntry w off) s true).out = (w.out ++ '\n' :: spaces (w.indent * ESV.Spec.spacesPerIndent)) ++ s ∧
    (writeStmnt (addEntry w off) s true).map = w.map ++ [(off, countNl w.out + 1, w.indent * ESV.Spec.spacesPerIndent)] ∧
    (writeStmnt (addEntry w off) s true).line = w.line + 1 + countNl s ∧
    w.line = countNl w.out + 1 := by
  obtain ⟨pre, h1, h2, h3⟩ := writer_entry_pos w h 0 (by decide) s
  have hl : w.line = countNl w.out + 1 := by
    subst h2
    have h4 : w.line = countNl (w.out ++ '\n' :: spaces (w.indent * ESV.Spec.spacesPerIndent)) := by
      simpa [addOpcode] using h3
    rw [h4, countNl_append]
    have : countNl ('\n' :: spaces (w.indent * ESV.Spec.spacesPerIndent)) = 1 := by
      have := countNl_spaces (w.indent * ESV.Spec.spacesPerIndent)
      simp [countNl] at this ⊢
      exact this
    omega
  refine ⟨?_, ?_, ?_, hl⟩
  · rw [← h2, ← h1]; rfl
  · simp [writeStmnt, writeLine, addEntry, hl]
  · simp [writeStmnt, writeLine, addEntry]

/-- the step of `_read_op`: entry, then `Name(…);` on a new line of the routine body -/
theorem good_entry_stmnt {w : W} {d : List (Int × String)} (g : Good w d) (hi : w.indent = 1) (off : Int)
    (name : String) (rest : Str) :
    Good (writeStmnt (addEntry w off) (name.toList ++ '(' :: rest) true) (d ++ [(off, name)]) := by
  obtain ⟨h1, h2, h3, h4⟩ := entry_pos w g.inv off (name.toList ++ '(' :: rest)
  have hinv : Inv (writeStmnt (addEntry w off) (name.toList ++ '(' :: rest) true) :=
    inv_step (addEntry w off) (.stmnt _ true) g.inv
  have h4' : ESV.Spec.spacesPerIndent = 4 := rfl
  refine ⟨hinv, ?_, ?_, ?_⟩
  · rw [h2, h1]
    refine All2.append (All2.imp (fun a b h => by rw [List.append_assoc]; exact h.append _) g.ents) ⟨⟨rfl, ?_, ?_⟩, trivial⟩
    · simp [hi, h4']
    · refine ⟨w.out, spaces (w.indent * ESV.Spec.spacesPerIndent) ++ (name.toList ++ '(' :: rest), by simp, rfl, ?_⟩
      rw [hi, h4']
      refine ⟨rest, ?_⟩
      simp [stmtHead]
  · rw [h2, h3]
    intro e he
    rcases List.mem_append.1 he with he | he
    · have := g.below e he; omega
    · simp at he; subst he; simp; omega
  · rw [h2, List.pairwise_append]
    refine ⟨g.incr, by simp, ?_⟩
    intro a ha b hb
    simp at hb; subst hb
    have := g.below a ha
    simp; omega

/-! ### the fold -/

theorem readOp_good {t : TW} {d : List (Int × String)} (g : Good t.w d) (hi : t.w.indent = 1) (r : ROp) :
    Good (readOp t r).w (d ++ [ropKey r]) ∧ (readOp t r).w.indent = 1 := by
  constructor
  · cases r with
    | plain o =>
      have := good_entry_stmnt g hi o.offset o.name
        (Lit.joinWith [',', ' '] ((o.params.map SArg.param).map (argStr t.w.indent)) ++ [')', ';'])
      simpa [readOp, TW.stmnt, TW.entry, TW.addMarks, opStmt, stmtStr, ropKey, ROp.root, ROp.offset] using this
    | jump o id =>
      have := good_entry_stmnt g hi o.offset o.name
        (Lit.joinWith [',', ' '] ((o.params.map SArg.param ++ [SArg.jump (labelName id)]).map (argStr t.w.indent)) ++ [')', ';'])
      simpa [readOp, TW.stmnt, TW.entry, TW.addMarks, opStmt, stmtStr, ropKey, ROp.root, ROp.offset] using this
  · simp [readOp, TW.stmnt, TW.entry, TW.addMarks, writeStmnt_indent, addEntry, hi]

theorem writeOps_good (ls : Labels) :
    ∀ (rs : List ROp) {t : TW} {d : List (Int × String)}, Good t.w d → t.w.indent = 1 →
      Good (writeOps ls t rs).w (d ++ rs.map ropKey) ∧ (writeOps ls t rs).w.indent = 1
  | [], t, d, g, hi => by simpa [writeOps] using ⟨g, hi⟩
  | r :: rs, t, d, g, hi => by
    unfold writeOps
    split
    · rename_i id _
      have g1 : Good (t.stmnt (stmtStr t.w.indent (.label (labelName id))) true).w d := good_writeStmnt g _ _
      have hi1 : (t.stmnt (stmtStr t.w.indent (.label (labelName id))) true).w.indent = 1 := by
        simp [TW.stmnt, writeStmnt_indent, hi]
      obtain ⟨g2, hi2⟩ := readOp_good g1 hi1 r
      have := writeOps_good ls rs g2 hi2
      simpa [List.append_assoc] using this
    · obtain ⟨g2, hi2⟩ := readOp_good g hi r
      have := writeOps_good ls rs g2 hi2
      simpa [List.append_assoc] using this

theorem writeRoutine_good (ls : Labels) {t : TW} {d : List (Int × String)} (g : Good t.w d) (hi : t.w.indent = 0)
    (h : SHeader) (r : List ROp) :
    Good (writeRoutine ls t h r).w (d ++ r.map ropKey) ∧ (writeRoutine ls t h r).w.indent = 0 := by
  simp only [writeRoutine]
  have g1 : Good (t.stmnt (headerStr h) true).w d := good_writeStmnt g _ _
  have hi1 : (t.stmnt (headerStr h) true).w.indent = 0 := by simp [TW.stmnt, writeStmnt_indent, hi]
  generalize t.stmnt (headerStr h) true = t1 at g1 hi1 ⊢
  have g2 : Good ((t1.setIndent (t1.w.indent + 1)).stmnt " {".toList false).w d :=
    good_writeStmnt (good_setIndent g1 _) _ _
  have hi2 : ((t1.setIndent (t1.w.indent + 1)).stmnt " {".toList false).w.indent = 1 := by
    simp [TW.stmnt, TW.setIndent, setIndentW, writeStmnt_indent, hi1]
  generalize (t1.setIndent (t1.w.indent + 1)).stmnt " {".toList false = t2 at g2 hi2 ⊢
  have g3 : Good (if r.isEmpty then t2.stmnt "alias previous;".toList true else t2).w d := by
    split
    · exact good_writeStmnt g2 _ _
    · exact g2
  have hi3 : (if r.isEmpty then t2.stmnt "alias previous;".toList true else t2).w.indent = 1 := by
    split
    · simp [TW.stmnt, writeStmnt_indent, hi2]
    · exact hi2
  generalize (if r.isEmpty then t2.stmnt "alias previous;".toList true else t2) = t3 at g3 hi3 ⊢
  obtain ⟨g4, hi4⟩ := writeOps_good ls r g3 hi3
  generalize writeOps ls t3 r = t4 at g4 hi4 ⊢
  have g5 : Good ((t4.setIndent (t4.w.indent - 1)).stmnt "}".toList true).w (d ++ r.map ropKey) :=
    good_writeStmnt (good_setIndent g4 _) _ _
  have hi5 : ((t4.setIndent (t4.w.indent - 1)).stmnt "}".toList true).w.indent = 0 := by
    simp [TW.stmnt, TW.setIndent, setIndentW, writeStmnt_indent, hi4]
  exact ⟨good_writeLine g5, by simpa [TW.newline, writeLine] using hi5⟩

/-- the routine loop prints the routines that `zip(infos, ops)` pairs: the first `infos.length` ones -/
theorem writeRoutines_good (ls : Labels) (coros : List (Option String)) :
    ∀ (is : List RoutineInfo) (rs : List (List ROp)) (rid : Nat) {t t' : TW} {d : List (Int × String)},
      Good t.w d → t.w.indent = 0 → writeRoutines ls coros rid is rs t = .ok t' →
      Good t'.w (d ++ ((rs.take is.length).flatten.map ropKey))
  | [], rs, rid, t, t', d, g, _, h => by
    simp only [writeRoutines] at h; cases h; simpa using g
  | _ :: _, [], rid, t, t', d, g, _, h => by
    simp only [writeRoutines] at h; cases h; simpa using g
  | i :: is, r :: rs, rid, t, t', d, g, hi, h => by
    simp only [writeRoutines] at h
    split at h
    · cases h
    · rename_i hd _
      obtain ⟨g1, hi1⟩ := writeRoutine_good ls g hi hd r
      have := writeRoutines_good ls coros is rs (rid + 1) g1 hi1 h
      simpa [List.append_assoc] using this

/-- the ops the routine loop prints: `zip(infos, ops)` stops at the shorter list -/
def printedOps (x : RoutineSet) : List Op := (x.ops.take x.infos.length).flatten

/-- a successful run ends in a writer state that satisfies the invariant for all printed ops -/
theorem decompileText_good {pre : Str} {x : RoutineSet} {text : Str} {entries : List (Int × Nat × Nat)} {marks : List Mark}
    (h : decompileText pre x = .ok (text, entries, marks)) :
    ∃ w : W, w.out = text ∧ w.map = entries ∧ Good w ((printedOps x).map opKey) := by
  unfold decompileText at h
  split at h
  · cases h
  · rename_i ls rr hp
    split at h
    · cases h
    · rename_i t hw
      cases h
      refine ⟨t.w, rfl, rfl, ?_⟩
      have g := writeRoutines_good ls x.coros x.infos rr 0 (good_start pre) (by simp [start, writeStmnt, Writer.init]) hw
      have hk := processAll_key hp
      have : (rr.take x.infos.length).flatten.map ropKey = (printedOps x).map opKey := by
        rw [printedOps, List.map_flatten, List.map_flatten, List.map_take, List.map_take, hk]
      simpa [this] using g

end ESV.SsbScript.Text
