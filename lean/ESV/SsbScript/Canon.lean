import ESV.SsbScript.RoundTrip
/-
Facts about the expected round-trip result `canon x` (renumbered ops) and a few small facts about the two
compilers that the property file quotes.
-/
namespace ESV.SsbScript
open ESV

/-! ### renumbering -/

theorem renumFrom_append (offs : List Int) (a : List Op) : ∀ (k : Nat) (b : List Op),
    renumFrom offs k (a ++ b) = renumFrom offs k a ++ renumFrom offs (k + a.length) b := by
  induction a with
  | nil => intro k b; simp [renumFrom]
  | cons o os ih =>
    intro k b
    simp only [List.cons_append, renumFrom, ih, List.length_cons]
    have : k + 1 + os.length = k + (os.length + 1) := by omega
    rw [this]

theorem renumFrom_length (offs : List Int) (os : List Op) : ∀ k, (renumFrom offs k os).length = os.length := by
  induction os with
  | nil => intro k; rfl
  | cons o os ih => intro k; simp [renumFrom, ih]

theorem flatten_renumRoutines (offs : List Int) (rs : List (List Op)) : ∀ k,
    (renumRoutines offs k rs).flatten = renumFrom offs k rs.flatten := by
  induction rs with
  | nil => intro k; rfl
  | cons r rs ih => intro k; simp only [renumRoutines, List.flatten_cons, ih, renumFrom_append]

theorem renumRoutines_shape (offs : List Int) (rs : List (List Op)) : ∀ k,
    (renumRoutines offs k rs).map List.length = rs.map List.length := by
  induction rs with
  | nil => intro k; rfl
  | cons r rs ih => intro k; simp only [renumRoutines, List.map_cons, ih, renumFrom_length]

theorem renumRoutines_length (offs : List Int) (rs : List (List Op)) (k : Nat) :
    (renumRoutines offs k rs).length = rs.length := by
  have := congrArg List.length (renumRoutines_shape offs rs k)
  simpa using this

theorem renumFrom_getElem? (offs : List Int) (os : List Op) : ∀ (k i : Nat),
    (renumFrom offs k os)[i]? = (os[i]?).map (renumOp offs (k + i)) := by
  induction os with
  | nil => intro k i; simp [renumFrom]
  | cons o os ih =>
    intro k i
    cases i with
    | zero => simp [renumFrom]
    | succ i =>
      simp only [renumFrom, List.getElem?_cons_succ, ih]
      have : k + 1 + i = k + (i + 1) := by omega
      rw [this]

theorem renumFrom_offset_ge (offs : List Int) (os : List Op) : ∀ (k : Nat), ∀ o ∈ renumFrom offs k os, (k : Int) ≤ o.offset := by
  induction os with
  | nil => intro k o ho; cases ho
  | cons o os ih =>
    intro k o' ho'
    simp only [renumFrom, List.mem_cons] at ho'
    rcases ho' with h | h
    · subst h; simp [renumOp]
    · have := ih (k + 1) o' h
      omega

theorem renumFrom_sorted (offs : List Int) (os : List Op) : ∀ (k : Nat),
    ((renumFrom offs k os).map (·.offset)).Pairwise (· < ·) := by
  induction os with
  | nil => intro k; simp [renumFrom]
  | cons o os ih =>
    intro k
    simp only [renumFrom, List.map_cons, List.pairwise_cons, List.mem_map]
    refine ⟨?_, ih (k + 1)⟩
    rintro _ ⟨o', ho', rfl⟩
    have := renumFrom_offset_ge offs os (k + 1) o' ho'
    simp only [renumOp]
    omega

/-- a list of length `idx + 1` is its `eraseIdx idx` followed by its element at `idx` -/
theorem eq_eraseIdx_append {α : Type} (l : List α) : ∀ (idx : Nat) (v : α), l.length = idx + 1 → l[idx]? = some v →
    l = l.eraseIdx idx ++ [v] := by
  induction l with
  | nil => intro idx v h; simp at h
  | cons a l ih =>
    intro idx v hl hv
    cases idx with
    | zero =>
      simp only [List.length_cons, Nat.zero_add, Nat.add_eq_right, List.length_eq_zero_iff] at hl
      subst hl
      simp at hv
      subst hv
      rfl
    | succ n =>
      simp only [List.length_cons, Nat.add_right_cancel_iff] at hl
      simp only [List.getElem?_cons_succ] at hv
      simp only [List.eraseIdx_cons_succ, List.cons_append]
      rw [← ih n v hl hv]

theorem sorted_nodup (l : List Int) (h : l.Pairwise (· < ·)) : l.Nodup := by
  refine List.Pairwise.imp ?_ h
  intro a b hab; omega

/-- in a strictly increasing list positions and values are ordered alike -/
theorem sorted_idxOf_lt (l : List Int) (h : l.Pairwise (· < ·)) (t1 t2 : Int) (h1 : t1 ∈ l) (h2 : t2 ∈ l) :
    t1 < t2 ↔ l.idxOf t1 < l.idxOf t2 := by
  have i1 := List.idxOf_lt_length_of_mem h1
  have i2 := List.idxOf_lt_length_of_mem h2
  have e1 : l[l.idxOf t1] = t1 := List.getElem_idxOf i1
  have e2 : l[l.idxOf t2] = t2 := List.getElem_idxOf i2
  have hp := List.pairwise_iff_getElem.1 h
  constructor
  · intro hlt
    rcases Nat.lt_trichotomy (l.idxOf t1) (l.idxOf t2) with hc | hc | hc
    · exact hc
    · exfalso
      have : l[l.idxOf t1] = l[l.idxOf t2] := by simp only [hc]
      rw [e1, e2] at this; omega
    · exfalso
      have := hp _ _ i2 i1 hc
      rw [e1, e2] at this; omega
  · intro hlt
    have := hp _ _ i1 i2 hlt
    rw [e1, e2] at this; exact this

/-! ### small facts about the compilers -/

theorem runStmtsN_append (l1 : List SStmt) : ∀ (a : NState) (l2 : List SStmt),
    runStmtsN a (l1 ++ l2) =
      ((runStmtsN (runStmtsN a l1).1 l2).1, (runStmtsN a l1).2 ++ (runStmtsN (runStmtsN a l1).1 l2).2) := by
  induction l1 with
  | nil => intro a l2; simp [runStmtsN]
  | cons st rest ih =>
    intro a l2
    simp only [List.cons_append, runStmtsN, ih, List.append_assoc]

theorem runStmtsN_labels (nms : List String) : ∀ (a : NState),
    (runStmtsN a (nms.map SStmt.label)).1 = ⟨a.offs, a.pending ++ nms, a.total⟩ := by
  induction nms with
  | nil => intro a; simp [runStmtsN]
  | cons nm nms ih =>
    intro a
    simp only [List.map_cons, runStmtsN, stmtStepN, ih, List.append_assoc, List.singleton_append]

/-- the statement-level state after a whole file is the state after the concatenated bodies: routine boundaries
are invisible to label resolution -/
theorem goG_state (ast : List SRoutine) : ∀ (a : NState) (r : RState NItem) (a' : NState) (r' : RState NItem),
    goG runStmtsN a r ast = .ok (a', r') → a' = (runStmtsN a (ast.flatMap fun rt => rt.body.getD [])).1 := by
  induction ast with
  | nil => intro a r a' r' h; simp only [goG] at h; cases h; rfl
  | cons rt rest ih =>
    intro a r a' r' h
    simp only [goG] at h
    split at h
    · cases h
    · rename_i r1 _
      have := ih _ r1 a' r' h
      rw [List.flatMap_cons, runStmtsN_append]
      exact this

theorem runArgs_param_last (s : LState) (args : List SArg) (p : Param) : (runArgs s (args ++ [.param p])).2.2 = none := by
  unfold runArgs
  rw [List.foldl_append]
  simp [argStep]

/-- the bodies the decompiler writes: `alias previous` exactly for the empty routines -/
theorem routinesOf_bodies (ls : Labels) (coros : List (Option String)) (rs : List (List ROp)) :
    ∀ (rid : Nat) (is : List RoutineInfo) (ast : List SRoutine), is.length = rs.length →
    routinesOf ls coros rid is rs = .ok ast →
    ast.map (·.body) = rs.map (fun r => if r.isEmpty then none else some (stmtsOf ls r)) := by
  induction rs with
  | nil =>
    intro rid is ast hl h
    have : is = [] := List.eq_nil_of_length_eq_zero hl
    subst this
    simp only [routinesOf] at h
    cases h; rfl
  | cons r rs ih =>
    intro rid is ast hl h
    cases is with
    | nil => simp at hl
    | cons i is' =>
      simp only [routinesOf] at h
      split at h
      · cases h
      · split at h
        · cases h
        · rename_i rest hrest
          cases h
          simp only [List.map_cons, List.cons.injEq, true_and]
          exact ih (rid + 1) is' rest (by simpa using hl) hrest

/-! ### routine ids (`_enlarge_routine_info` after the repair: `0 <= id <= len(routine_infos)`) -/

/-- an id outside `0 … len(routine_infos)` is rejected with `SsbCompilerError` (`def N`, `def N for …`) -/
theorem enlarge_rejects {ι : Type} (r : RState ι) (h : r.active < 0 ∨ r.active > (r.infos.length : Int)) :
    enlarge r = .error .ssbCompilerError := by
  unfold enlarge
  rw [if_pos h]

/-- when the check passes: the id names an existing routine (nothing is added) or the next one (one slot is added) -/
theorem enlarge_ok_cases {ι : Type} (r r' : RState ι) (h : enlarge r = .ok r') :
    r'.active = r.active ∧
    ((0 ≤ r.active ∧ r.active < (r.infos.length : Int) ∧ r'.infos = r.infos) ∨
     (r.active = (r.infos.length : Int) ∧ r'.infos = r.infos ++ [none])) := by
  unfold enlarge at h
  split at h
  · cases h
  · rename_i h0
    split at h
    · rename_i h1
      cases h
      have ha : r.active = (r.infos.length : Int) := by omega
      refine ⟨rfl, .inr ⟨ha, ?_⟩⟩
      have : (r.active - (r.infos.length : Int) + 1).toNat = 1 := by omega
      simp [this]
    · rename_i h1
      cases h
      exact ⟨rfl, .inl ⟨by omega, by omega, rfl⟩⟩

theorem assign_infos {ι : Type} (r r' : RState ι) (info : RoutineInfo) (items : List ι)
    (h : assign r info items = .ok r') : pySet r.infos r.active (some info) = .ok r'.infos := by
  unfold assign at h
  cases h1 : pySet r.infos r.active (some info) with
  | error e => rw [h1] at h; cases h
  | ok infos =>
    rw [h1] at h
    cases h2 : pySet r.ops r.active items with
    | error e => rw [h2] at h; cases h
    | ok ops => rw [h2] at h; cases h; rfl

/-- every slot that exists after `enlarge` and is still `None` is the one the following assignment fills -/
theorem enlarge_assign_allSome {ι : Type} (r r1 r' : RState ι) (info : RoutineInfo) (items : List ι) (cs : List (Option String))
    (hs : ∀ x ∈ r.infos, x.isSome = true) (he : enlarge r = .ok r1)
    (ha : assign { r1 with coros := cs } info items = .ok r') : ∀ x ∈ r'.infos, x.isSome = true := by
  obtain ⟨hact, hc⟩ := enlarge_ok_cases r r1 he
  have hp := assign_infos _ _ _ _ ha
  simp only at hp
  rcases hc with ⟨_, _, hi⟩ | ⟨hl, hi⟩
  · rw [hi] at hp
    intro x hx
    rcases pySet_mem _ _ _ _ hp x hx with h | h
    · exact hs x h
    · rw [h]; rfl
  · rw [hi, hact, hl, pySet_append_end] at hp
    have hp' : r.infos ++ [some info] = r'.infos := by injection hp
    intro x hx
    rw [← hp'] at hx
    rcases List.mem_append.1 hx with h | h
    · exact hs x h
    · simp at h; rw [h]; rfl

theorem exitDef_allSome {ι : Type} (r r' : RState ι) (hd : SHeader) (items : List ι)
    (hs : ∀ x ∈ r.infos, x.isSome = true) (h : exitDef r hd items = .ok r') : ∀ x ∈ r'.infos, x.isSome = true := by
  cases hd with
  | simple id =>
    simp only [exitDef] at h
    cases he : enlarge { r with active := id } with
    | error e => rw [he] at h; cases h
    | ok r1 =>
      rw [he] at h
      exact enlarge_assign_allSome { r with active := id } r1 r' _ items r1.coros hs he h
  | coro name =>
    simp only [exitDef] at h
    cases he : enlarge { r with active := r.active + 1 } with
    | error e => rw [he] at h; cases h
    | ok r1 =>
      rw [he] at h
      simp only at h
      split at h
      · cases h
      · rename_i cs _
        exact enlarge_assign_allSome { r with active := r.active + 1 } r1 r' _ items cs hs he h
  | forTarget id word target =>
    simp only [exitDef] at h
    cases he : enlarge { r with active := id } with
    | error e => rw [he] at h; cases h
    | ok r1 =>
      rw [he] at h
      simp only at h
      split at h
      · cases h
      · exact enlarge_assign_allSome { r with active := id } r1 r' _ items r1.coros hs he h

theorem goG_allSome {σ ι : Type} (run : σ → List SStmt → σ × List ι) (ast : List SRoutine) :
    ∀ (l l' : σ) (r r' : RState ι), (∀ x ∈ r.infos, x.isSome = true) → goG run l r ast = .ok (l', r') →
    ∀ x ∈ r'.infos, x.isSome = true := by
  induction ast with
  | nil => intro l l' r r' hs h; simp only [goG] at h; cases h; exact hs
  | cons rt rest ih =>
    intro l l' r r' hs h
    simp only [goG] at h
    split at h
    · cases h
    · rename_i r1 hx
      exact ih _ l' r1 r' (exitDef_allSome _ _ _ _ hs hx) h

theorem allSome_isSome {α : Type} (l : List (Option α)) (h : ∀ x ∈ l, x.isSome = true) : ∃ l', allSome l = some l' := by
  induction l with
  | nil => exact ⟨[], rfl⟩
  | cons a l ih =>
    cases a with
    | none => have := h none List.mem_cons_self; cases this
    | some a =>
      obtain ⟨l', hl⟩ := ih (fun x hx => h x (List.mem_cons_of_mem _ hx))
      exact ⟨a :: l', by simp [allSome, hl]⟩

/-- with the id check no routine slot stays unassigned: whatever the compiler returns is a routine set -/
theorem compileRaw_toSet (ast : List SRoutine) (o : CompileOut) (h : compileRaw ast = .ok o) : ∃ y, o.toSet = .ok y := by
  unfold compileRaw at h
  cases hg : goG runStmts LState.init RState.init ast with
  | error e => rw [hg] at h; cases h
  | ok p =>
    obtain ⟨l, r⟩ := p
    rw [hg] at h
    simp only at h
    have hs := goG_allSome runStmts ast LState.init l RState.init r (by intro x hx; cases hx) hg
    cases hm : mapE (removeItems l.labelOffsets) r.ops with
    | error e => rw [hm] at h; cases h
    | ok ops =>
      rw [hm] at h
      cases h
      obtain ⟨infos, hi⟩ := allSome_isSome r.infos hs
      exact ⟨⟨infos, ops, r.coros⟩, by simp [CompileOut.toSet, hi]⟩

end ESV.SsbScript
