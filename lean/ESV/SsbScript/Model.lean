import ESV.Base.Ssb
import ESV.Base.Dec
/-
Model of the SsbScript decompiler and compiler at the level of a statement AST.

  decompile : explorerscript/ssb_converting/decompiler/label_jump_to_resolver.py (OpsLabelJumpToResolver),
              ssb_special_ops.py process_op_for_jump,
              ssb_script/ssb_converting/ssb_decompiler.py (SsbScriptSsbDecompiler.convert)
  compile   : ssb_script/ssb_converting/compiler/compiler_listener.py (SsbScriptCompilerListener, the parse events
              in the order the parser delivers them), ssb_converting/compiler/label_jump_to_remover.py,
              ssb_script/ssb_converting/ssb_compiler.py

The text layer (printing of literals, ANTLR lexing/parsing) is outside this model: the AST below is what
the text denotes (harness/astdump_ssbs.py walks the repository's parse tree into the same AST).
Two counters are kept shifted by one against the Python attributes so that they are naturals:
`nextLabel = _label_increment_id + 1`, `total = _total_number_collected_ops + 1`.
-/
namespace ESV.SsbScript
open ESV

/-! ### statement AST of SsbScript -/

/-- `pos_argument`: a parameter literal or a jump marker `@name` -/
inductive SArg where
  | param (p : Param)
  | jump (label : String)
deriving DecidableEq, Repr

/-- `stmt`: `@name;` or `Name(args);` -/
inductive SStmt where
  | label (name : String)
  | op (name : String) (args : List SArg)
deriving DecidableEq, Repr

/-- the `integer_like` after `for actor`: an integer (when `exps_int` accepts the token) or a name -/
inductive STarget where
  | int (i : Int)
  | name (s : String)
deriving DecidableEq, Repr

/-- `funcdef` headers: `def N`, `coro NAME`, `def N for WORD TARGET` (WORD is the identifier after `for`, or the
whole legacy token `for_actor` / `for_object` / `for_performer`) -/
inductive SHeader where
  | simple (id : Int)
  | coro (name : String)
  | forTarget (id : Int) (word : String) (target : STarget)
deriving DecidableEq, Repr

/-- `body = none` is `alias previous;` -/
structure SRoutine where
  header : SHeader
  body : Option (List SStmt)
deriving DecidableEq, Repr

/-! ### decompiler: OpsLabelJumpToResolver -/

/-- `_build_end_offsets`: offset of the last op of every routine; an empty routine inherits (initially 0) -/
def lastOffsetOr (prev : Int) (r : List Op) : Int :=
  match r.getLast? with
  | some o => o.offset
  | none => prev

def endOffsetsAux : Int → List (List Op) → List Int
  | _, [] => []
  | prev, r :: rs => lastOffsetOr prev r :: endOffsetsAux (lastOffsetOr prev r) rs

def endOffsets (rs : List (List Op)) : List Int := endOffsetsAux 0 rs

/-- `known_labels`: offset ↦ label id (the label's `routine_id` is never read by the SsbScript decompiler) -/
abbrev Labels := Dict Int Nat

def maxId : List Nat → Nat
  | [] => 0
  | a :: as => max a (maxId as)

/-- `0 if len(known_labels) == 0 else max(label.id ...) + 1` -/
def nextLabelId (ls : Labels) : Nat := if ls.isEmpty then 0 else maxId (ls.map (·.2)) + 1

/-- `while routine_id > 0 and old_offset < routine_end_offsets[routine_id - 1]: routine_id -= 1` -/
def lookDown (ends : List Int) (t : Int) : Nat → Except Err Nat
  | 0 => .ok 0
  | r + 1 =>
    match ends[r]? with
    | none => .error .indexError
    | some e => if t < e then lookDown ends t r else .ok (r + 1)

/-- `while old_offset > routine_end_offsets[routine_id]: routine_id += 1; if routine_id >= len(...): raise ValueError`
(`fuel` bounds the iterations; `ends.length + 1` is always enough, the `0` case is never reached) -/
def lookUp (ends : List Int) (t : Int) : Nat → Nat → Except Err Nat
  | 0, _ => .error .valueError
  | fuel + 1, r =>
    match ends[r]? with
    | none => .error .indexError
    | some e =>
      if t > e then
        if r + 1 ≥ ends.length then .error .valueError else lookUp ends t fuel (r + 1)
      else .ok r

/-- result of `process_op_for_jump`: the op itself, or `SsbLabelJump(root = op without the jump parameter, label)` -/
inductive ROp where
  | plain (o : Op)
  | jump (root : Op) (label : Nat)
deriving DecidableEq, Repr

def ROp.offset : ROp → Int
  | .plain o => o.offset
  | .jump o _ => o.offset

def processOp (ends : List Int) (rid : Nat) (ls : Labels) (op : Op) : Except Err (Labels × ROp) :=
  match jumpIdx op.name with
  | none => .ok (ls, .plain op)
  | some idx =>
    if op.params.length < idx then .error .valueError
    else
      match op.params[idx]? with
      | none => .error .indexError
      | some (.int t) =>
        let root : Op := ⟨op.offset, op.name, op.params.eraseIdx idx⟩
        match Dict.get? ls t with
        | some id => .ok (ls, .jump root id)
        | none =>
          let id := nextLabelId ls
          match lookDown ends t rid with
          | .error e => .error e
          | .ok r0 =>
            match lookUp ends t (ends.length + 1) r0 with
            | .error e => .error e
            | .ok _ => .ok (Dict.set ls t id, .jump root id)
      | some _ => .error .assertionError

def processRoutine (ends : List Int) (rid : Nat) : Labels → List Op → Except Err (Labels × List ROp)
  | ls, [] => .ok (ls, [])
  | ls, o :: os =>
    match processOp ends rid ls o with
    | .error e => .error e
    | .ok (ls1, r) =>
      match processRoutine ends rid ls1 os with
      | .error e => .error e
      | .ok (ls2, rs) => .ok (ls2, r :: rs)

def processAll (ends : List Int) : Nat → Labels → List (List Op) → Except Err (Labels × List (List ROp))
  | _, ls, [] => .ok (ls, [])
  | rid, ls, r :: rs =>
    match processRoutine ends rid ls r with
    | .error e => .error e
    | .ok (ls1, r') =>
      match processAll ends (rid + 1) ls1 rs with
      | .error e => .error e
      | .ok (ls2, rs') => .ok (ls2, r' :: rs')

/-! ### decompiler: SsbScriptSsbDecompiler.convert down to the AST -/

def labelName (n : Nat) : String := String.ofList ("label_".toList ++ showNat n)

/-- `_read_op`: parameters in order, `@label_N` appended last for a label jump -/
def opStmt : ROp → SStmt
  | .plain o => .op o.name (o.params.map .param)
  | .jump o id => .op o.name (o.params.map .param ++ [.jump (labelName id)])

/-- `_iter_routine` + the statement loop: `@label_N;` before every op whose offset is in the label table -/
def stmtsOf (ls : Labels) : List ROp → List SStmt
  | [] => []
  | r :: rs =>
    match Dict.get? ls r.offset with
    | some id => .label (labelName id) :: opStmt r :: stmtsOf ls rs
    | none => opStmt r :: stmtsOf ls rs

/-- `linked_to_repr` (`if self.linked_to_name:` is truthiness: `None` and `""` print the number) -/
def linkedToRepr (i : RoutineInfo) : STarget :=
  match i.linkedToName with
  | none => .int i.linkedTo
  | some s => if s = "" then .int i.linkedTo else .name s

/-- `_write_routine_header` -/
def header (coros : List (Option String)) (rid : Nat) (i : RoutineInfo) : Except Err SHeader :=
  match i.kind with
  | .coroutine =>
    match coros[rid]? with
    | some (some n) => .ok (.coro n)
    | _ => .error .valueError
  | .actor => .ok (.forTarget rid "actor" (linkedToRepr i))
  | .object => .ok (.forTarget rid "object" (linkedToRepr i))
  | .performer => .ok (.forTarget rid "performer" (linkedToRepr i))
  | .generic => .ok (.simple rid)
  | .invalid => .error .valueError

/-- `for r_id, (r_info, r_ops) in enumerate(zip(infos, ops))` -/
def routinesOf (ls : Labels) (coros : List (Option String)) : Nat → List RoutineInfo → List (List ROp) → Except Err (List SRoutine)
  | _, [], _ => .ok []
  | _, _ :: _, [] => .ok []
  | rid, i :: is, r :: rs =>
    match header coros rid i with
    | .error e => .error e
    | .ok h =>
      match routinesOf ls coros (rid + 1) is rs with
      | .error e => .error e
      | .ok rest => .ok (⟨h, if r.isEmpty then none else some (stmtsOf ls r)⟩ :: rest)

def decompile (x : RoutineSet) : Except Err (List SRoutine) :=
  match processAll (endOffsets x.ops) 0 [] x.ops with
  | .error e => .error e
  | .ok (ls, rr) => routinesOf ls x.coros 0 x.infos rr

/-! ### compiler: SsbScriptCompilerListener -/

/-- entries of `_collected_ops`: `SsbOperation`, `SsbLabel(id)`, `SsbLabelJump(root, label)` -/
inductive CItem where
  | op (o : Op)
  | label (id : Nat)
  | jump (root : Op) (label : Nat)
deriving DecidableEq, Repr

/-- the statement-level part of the listener state -/
structure LState where
  labelOffsets : Dict Nat Int     -- `label_offsets`: label id ↦ offset of the next op
  collected : Dict String Nat     -- `_collected_labels`: name ↦ label (id)
  nextLabel : Nat                 -- `_label_increment_id + 1`
  pending : List Nat              -- `_labels_before_op`
  total : Nat                     -- `_total_number_collected_ops + 1`
deriving Repr

def LState.init : LState := ⟨[], [], 0, [], 0⟩

/-- the `if label_name in self._collected_labels … else …` block of `exitPos_argument` / `exitLabel` -/
def getLabel (s : LState) (nm : String) : Nat × LState :=
  match Dict.get? s.collected nm with
  | some id => (id, s)
  | none => (s.nextLabel, { s with collected := Dict.set s.collected nm s.nextLabel, nextLabel := s.nextLabel + 1 })

/-- `exitPos_argument`: `_turn_next_op_into_label_jump_for` (third component) is reset on every argument -/
def argStep (acc : LState × List Param × Option Nat) (a : SArg) : LState × List Param × Option Nat :=
  match a with
  | .param p => (acc.1, acc.2.1 ++ [p], none)
  | .jump nm => ((getLabel acc.1 nm).2, acc.2.1, some (getLabel acc.1 nm).1)

def runArgs (s : LState) (args : List SArg) : LState × List Param × Option Nat :=
  args.foldl argStep (s, [], none)

/-- the `while len(self._labels_before_op) > 0: pop()` loop -/
def setAll (d : Dict Nat Int) (ids : List Nat) (off : Int) : Dict Nat Int :=
  ids.foldl (fun d id => Dict.set d id off) d

def mkItem (root : Op) : Option Nat → CItem
  | none => .op root
  | some id => .jump root id

def opDone (s : LState) : LState :=
  { s with total := s.total + 1, labelOffsets := setAll s.labelOffsets s.pending.reverse s.total, pending := [] }

def labelDone (s : LState) (id : Nat) : LState := { s with pending := s.pending ++ [id] }

/-- `exitLabel` / `exitOperation` (with the argument events before it); returns the entries appended to `_collected_ops` -/
def stmtStep (s : LState) (st : SStmt) : LState × List CItem :=
  match st with
  | .label nm => (labelDone (getLabel s nm).2 (getLabel s nm).1, [.label (getLabel s nm).1])
  | .op name args =>
    let r := runArgs s args
    (opDone r.1, [mkItem ⟨r.1.total, name, r.2.1⟩ r.2.2])

def runStmts (s : LState) : List SStmt → LState × List CItem
  | [] => (s, [])
  | st :: rest => ((runStmts (stmtStep s st).1 rest).1, (stmtStep s st).2 ++ (runStmts (stmtStep s st).1 rest).2)

/-- the routine-level part of the listener state (`named_coroutines` holds `[]` where no name was set: `none`) -/
structure RState (ι : Type) where
  infos : List (Option RoutineInfo)
  ops : List (List ι)
  coros : List (Option String)
  active : Int
deriving Repr

def RState.init {ι : Type} : RState ι := ⟨[], [], [], -1⟩

/-- Python `l[i] = v` (negative indices count from the end) -/
def pySet {α : Type} (l : List α) (i : Int) (v : α) : Except Err (List α) :=
  let j : Int := if i < 0 then i + l.length else i
  if j < 0 ∨ j ≥ l.length then .error .indexError else .ok (l.set j.toNat v)

/-- `_enlarge_routine_info` (called after `_active_routine_id` was set). The first `if` is the check added by the
repair "the SsbScript compiler crashed on negative and far too large routine ids": ids must satisfy
`0 <= id <= len(routine_infos)`. The rest is kept in the shape of the code; with the check in front `needed` is 0 or 1
and the negative-index branch of `pySet` below is no longer reachable from `exitDef`. -/
def enlarge {ι : Type} (r : RState ι) : Except Err (RState ι) :=
  if r.active < 0 ∨ r.active > (r.infos.length : Int) then .error .ssbCompilerError
  else if (r.infos.length : Int) - 1 < r.active then
    let needed := (r.active - r.infos.length + 1).toNat
    .ok { r with infos := r.infos ++ List.replicate needed none,
                 ops := r.ops ++ List.replicate needed [],
                 coros := r.coros ++ List.replicate needed none }
  else .ok r

def kindOfWord (w : String) : Option RoutineKind :=
  if w = "for_actor" ∨ w = "actor" then some .actor
  else if w = "for_object" ∨ w = "object" then some .object
  else if w = "for_performer" ∨ w = "performer" then some .performer
  else none

/-- `try: linked_to = exps_int(..) except ValueError: linked_to_name = ..` -/
def infoOfTarget (k : RoutineKind) : STarget → RoutineInfo
  | .int i => ⟨k, i, none⟩
  | .name s => ⟨k, -1, some s⟩

def assign {ι : Type} (r : RState ι) (info : RoutineInfo) (items : List ι) : Except Err (RState ι) :=
  match pySet r.infos r.active (some info) with
  | .error e => .error e
  | .ok infos =>
    match pySet r.ops r.active items with
    | .error e => .error e
    | .ok ops => .ok { r with infos := infos, ops := ops }

/-- `exitSimple_def` / `exitCoro_def` / `exitFor_target_def`; `items` is `_collected_ops` -/
def exitDef {ι : Type} (r : RState ι) (h : SHeader) (items : List ι) : Except Err (RState ι) :=
  match h with
  | .simple id =>
    match enlarge { r with active := id } with
    | .error e => .error e
    | .ok r1 => assign r1 ⟨.generic, 0, none⟩ items
  | .coro name =>
    match enlarge { r with active := r.active + 1 } with
    | .error e => .error e
    | .ok r1 =>
      match pySet r1.coros r1.active (some name) with
      | .error e => .error e
      | .ok coros => assign { r1 with coros := coros } ⟨.coroutine, 0, none⟩ items
  | .forTarget id word target =>
    match enlarge { r with active := id } with
    | .error e => .error e
    | .ok r1 =>
      match kindOfWord word with
      | none => .error .ssbCompilerError
      | some k => assign r1 (infoOfTarget k target) items

/-- the parse: per routine the statements of the body, then the `exit…_def` event -/
def goG {σ ι : Type} (run : σ → List SStmt → σ × List ι) : σ → RState ι → List SRoutine → Except Err (σ × RState ι)
  | l, r, [] => .ok (l, r)
  | l, r, rt :: rest =>
    match exitDef r rt.header (run l (rt.body.getD [])).2 with
    | .error e => .error e
    | .ok r1 => goG run (run l (rt.body.getD [])).1 r1 rest

/-! ### compiler: OpsLabelJumpToRemover -/

def removeItems (lo : Dict Nat Int) : List CItem → Except Err (List Op)
  | [] => .ok []
  | .op o :: rest =>
    match removeItems lo rest with
    | .error e => .error e
    | .ok os => .ok (o :: os)
  | .label _ :: rest => removeItems lo rest
  | .jump o id :: rest =>
    match Dict.get? lo id with
    | none => .error .ssbCompilerError
    | some off =>
      match removeItems lo rest with
      | .error e => .error e
      | .ok os => .ok (⟨o.offset, o.name, o.params ++ [.int off]⟩ :: os)

def mapE {α β : Type} (f : α → Except Err β) : List α → Except Err (List β)
  | [] => .ok []
  | a :: as =>
    match f a with
    | .error e => .error e
    | .ok b =>
      match mapE f as with
      | .error e => .error e
      | .ok bs => .ok (b :: bs)

/-- what `SsbScriptSsbCompiler.compile` leaves in `routine_infos`, `routine_ops`, `named_coroutines` -/
structure CompileOut where
  infos : List (Option RoutineInfo)
  ops : List (List Op)
  coros : List (Option String)
deriving DecidableEq, Repr

def compileRaw (ast : List SRoutine) : Except Err CompileOut :=
  match goG runStmts LState.init RState.init ast with
  | .error e => .error e
  | .ok (l, r) =>
    match mapE (removeItems l.labelOffsets) r.ops with
    | .error e => .error e
    | .ok ops => .ok ⟨r.infos, ops, r.coros⟩

def allSome {α : Type} : List (Option α) → Option (List α)
  | [] => some []
  | none :: _ => none
  | some a :: rest => (allSome rest).map (a :: ·)

/-- a compile result is a routine set when every routine id up to the largest was defined -/
def CompileOut.toSet (o : CompileOut) : Except Err RoutineSet :=
  match allSome o.infos with
  | none => .error .gap
  | some infos => .ok ⟨infos, o.ops, o.coros⟩

def compile (ast : List SRoutine) : Except Err RoutineSet :=
  match compileRaw ast with
  | .error e => .error e
  | .ok o => o.toSet

/-! ### the class of routine sets of C07 and the expected result of the round trip -/

/-- an op of the jump table has its jump parameter (an int, the offset of an op of the set) at the table index,
and that is the last parameter -/
def jumpOK (offs : List Int) (o : Op) : Bool :=
  match jumpIdx o.name with
  | none => true
  | some idx =>
    o.params.length == idx + 1 &&
      (match o.params[idx]? with
       | some (.int t) => offs.contains t
       | _ => false)

/-- what the SsbScript header can express: no target for `def N` / `coro`, a number or a (non-empty) name with
`linked_to = -1` for actor/object/performer; a coroutine has a name; the kind is a real one -/
def infoOK (i : RoutineInfo) (coro : Option String) : Bool :=
  match i.kind with
  | .generic => i.linkedTo == 0 && i.linkedToName == none
  | .coroutine => i.linkedTo == 0 && i.linkedToName == none && coro.isSome
  | .actor | .object | .performer =>
    (match i.linkedToName with
     | none => true
     | some s => i.linkedTo == -1 && s != "")
  | .invalid => false

def WF' (x : RoutineSet) : Prop :=
  x.infos.length = x.ops.length ∧ x.coros.length = x.ops.length ∧
  x.offsets.Pairwise (· < ·) ∧
  (∀ o ∈ x.flat, jumpOK x.offsets o = true) ∧
  (∀ p ∈ x.infos.zip x.coros, infoOK p.1 p.2 = true)

instance (x : RoutineSet) : Decidable (WF' x) := by unfold WF'; infer_instance

/-- the op as the round trip returns it: offset = position in the file, jump parameter = position of its target -/
def renumOp (offs : List Int) (k : Nat) (o : Op) : Op :=
  ⟨k, o.name,
    match jumpIdx o.name with
    | none => o.params
    | some idx =>
      match o.params[idx]? with
      | some (.int t) => o.params.eraseIdx idx ++ [.int (offs.idxOf t)]
      | _ => o.params⟩

def renumFrom (offs : List Int) : Nat → List Op → List Op
  | _, [] => []
  | k, o :: os => renumOp offs k o :: renumFrom offs (k + 1) os

def renumRoutines (offs : List Int) : Nat → List (List Op) → List (List Op)
  | _, [] => []
  | k, r :: rs => renumFrom offs k r :: renumRoutines offs (k + r.length) rs

def canonCoro (i : RoutineInfo) (c : Option String) : Option String :=
  if i.kind = .coroutine then c else none

/-- expected result of compile ∘ decompile -/
def canon (x : RoutineSet) : RoutineSet :=
  ⟨x.infos, renumRoutines x.offsets 0 x.ops, List.zipWith canonCoro x.infos x.coros⟩

end ESV.SsbScript
