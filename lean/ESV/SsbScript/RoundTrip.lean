import ESV.SsbScript.Lemmas
/-
The round trip compile ∘ decompile on well-formed routine sets (`WF'`).
 §3 the decompiler succeeds and its output is described by the final label table
 §4 the by-name compiler on that output: every label resolves to the position of the op it precedes
 §5 assembly: compile (decompile x) = canon x
-/
namespace ESV.SsbScript
open ESV

/-! ## §3 decompiler -/

theorem endOffsetsAux_length (rs : List (List Op)) : ∀ prev, (endOffsetsAux prev rs).length = rs.length := by
  induction rs with
  | nil => intro prev; rfl
  | cons r rs ih => intro prev; simp [endOffsetsAux, ih]

theorem lastOffsetOr_append (prev : Int) (a b : List Op) :
    lastOffsetOr prev (a ++ b) = lastOffsetOr (lastOffsetOr prev a) b := by
  unfold lastOffsetOr
  rw [List.getLast?_append]
  cases b.getLast? <;> simp

theorem endOffsetsAux_getLast (rs : List (List Op)) : ∀ prev, rs ≠ [] →
    (endOffsetsAux prev rs).getLast? = some (lastOffsetOr prev rs.flatten) := by
  induction rs with
  | nil => intro prev h; exact absurd rfl h
  | cons r rs ih =>
    intro prev _
    cases rs with
    | nil =>
      simp only [endOffsetsAux, List.getLast?_singleton, List.flatten_cons, List.flatten_nil, List.append_nil]
    | cons r2 rs2 =>
      have h2 := ih (lastOffsetOr prev r) (by simp)
      have hne : endOffsetsAux (lastOffsetOr prev r) (r2 :: rs2) ≠ [] := by
        intro e
        have := endOffsetsAux_length (r2 :: rs2) (lastOffsetOr prev r)
        rw [e] at this; simp at this
      have hfl : (r :: r2 :: rs2).flatten = r ++ (r2 :: rs2).flatten := List.flatten_cons
      rw [endOffsetsAux, List.getLast?_cons_of_ne_nil hne, h2, hfl, lastOffsetOr_append]

theorem le_getLast_of_sorted (l : List Int) (h : l.Pairwise (· < ·)) (t e : Int) (ht : t ∈ l)
    (he : l.getLast? = some e) : t ≤ e := by
  induction l with
  | nil => cases ht
  | cons a l ih =>
    cases l with
    | nil =>
      simp at ht he; omega
    | cons b l' =>
      rw [List.getLast?_cons_cons] at he
      rw [List.pairwise_cons] at h
      rcases List.mem_cons.1 ht with h1 | h1
      · have : e ∈ b :: l' := List.mem_of_getLast? he
        have := h.1 e this
        omega
      · exact ih h.2 h1 he

theorem lookDown_ok (ends : List Int) (t : Int) : ∀ rid, rid ≤ ends.length → ∃ r0, lookDown ends t rid = .ok r0 ∧ r0 ≤ rid := by
  intro rid
  induction rid with
  | zero => intro _; exact ⟨0, rfl, Nat.le_refl _⟩
  | succ r ih =>
    intro h
    unfold lookDown
    have hr : r < ends.length := by omega
    rw [List.getElem?_eq_getElem hr]
    simp only
    split
    · obtain ⟨r0, h1, h2⟩ := ih (by omega)
      exact ⟨r0, h1, by omega⟩
    · exact ⟨r + 1, rfl, Nat.le_refl _⟩

theorem lookUp_ok (ends : List Int) (t e : Int) (hl : ends.getLast? = some e) (hte : t ≤ e) :
    ∀ fuel r, r < ends.length → ends.length - r ≤ fuel → ∃ r', lookUp ends t fuel r = .ok r' := by
  intro fuel
  induction fuel with
  | zero => intro r h1 h2; omega
  | succ f ih =>
    intro r h1 h2
    unfold lookUp
    rw [List.getElem?_eq_getElem h1]
    simp only
    split
    · rename_i hgt
      split
      · rename_i hge
        exfalso
        have : r = ends.length - 1 := by omega
        rw [List.getLast?_eq_getElem?] at hl
        rw [← this, List.getElem?_eq_getElem h1] at hl
        cases hl
        omega
      · rename_i hlt
        exact ih (r + 1) (by omega) (by omega)
    · exact ⟨r, rfl⟩

/-- both routine-lookup loops of `process_op_for_jump` terminate without raising -/
def Reach (ends : List Int) (rid : Nat) (t : Int) : Prop :=
  ∃ r0 r1, lookDown ends t rid = .ok r0 ∧ lookUp ends t (ends.length + 1) r0 = .ok r1

theorem reach_of_sorted (ops : List (List Op)) (h : (ops.flatten.map (·.offset)).Pairwise (· < ·)) (rid : Nat)
    (hr : rid < (endOffsets ops).length) (t : Int) (ht : t ∈ ops.flatten.map (·.offset)) :
    Reach (endOffsets ops) rid t := by
  have hne : ops ≠ [] := by
    intro e; rw [e] at ht; cases ht
  have hlast := endOffsetsAux_getLast ops 0 hne
  obtain ⟨o, ho, rfl⟩ := List.mem_map.1 ht
  cases hfl : ops.flatten.getLast? with
  | none =>
    rw [List.getLast?_eq_none_iff] at hfl
    rw [hfl] at ho; cases ho
  | some lo =>
    simp only [lastOffsetOr, hfl] at hlast
    have hle : o.offset ≤ lo.offset := by
      apply le_getLast_of_sorted _ h o.offset lo.offset ht
      rw [List.getLast?_map, hfl]; rfl
    obtain ⟨r0, h1, h2⟩ := lookDown_ok (endOffsets ops) o.offset rid (by omega)
    obtain ⟨r1, h3⟩ := lookUp_ok (endOffsets ops) o.offset lo.offset hlast hle ((endOffsets ops).length + 1) r0 (by omega) (by omega)
    exact ⟨r0, r1, h1, h3⟩

theorem le_maxId (l : List Nat) (a : Nat) (h : a ∈ l) : a ≤ maxId l := by
  induction l with
  | nil => cases h
  | cons b l ih =>
    unfold maxId
    rcases List.mem_cons.1 h with h1 | h1
    · subst h1; exact Nat.le_max_left _ _
    · exact Nat.le_trans (ih h1) (Nat.le_max_right _ _)

theorem lt_nextLabelId (ls : Labels) (k : Int) (v : Nat) (h : Dict.get? ls k = some v) : v < nextLabelId ls := by
  have hm := Dict.mem_of_get? ls k v h
  unfold nextLabelId
  cases ls with
  | nil => cases hm
  | cons p ps =>
    simp only [List.isEmpty_cons, Bool.false_eq_true, if_false]
    have : v ∈ (p :: ps).map (·.2) := List.mem_map.2 ⟨(k, v), hm, rfl⟩
    have := le_maxId _ v this
    omega

def idOfL (ls : Labels) (t : Int) : Nat := (Dict.get? ls t).getD 0

/-- the jump target of an op (table index, integer parameter) -/
def targetOf (o : Op) : Option Int :=
  match jumpIdx o.name with
  | none => none
  | some idx =>
    match o.params[idx]? with
    | some (.int t) => some t
    | _ => none

/-- what `process_op_for_jump` returns for `o`, written with the final label table -/
def ropOf (ls : Labels) (o : Op) : ROp :=
  match jumpIdx o.name with
  | none => .plain o
  | some idx =>
    match o.params[idx]? with
    | some (.int t) => .jump ⟨o.offset, o.name, o.params.eraseIdx idx⟩ (idOfL ls t)
    | _ => .plain o

theorem ropOf_offset (ls : Labels) (o : Op) : (ropOf ls o).offset = o.offset := by
  unfold ropOf
  split
  · rfl
  · split <;> rfl

/-- all jump targets of the ops are keys of the label table -/
def TBound (ls : Labels) (os : List Op) : Prop := ∀ o ∈ os, ∀ t, targetOf o = some t → (Dict.get? ls t).isSome = true

theorem ropOf_ext {ls ls' : Labels} (h : Ext ls ls') (o : Op)
    (hb : ∀ t, targetOf o = some t → (Dict.get? ls t).isSome = true) : ropOf ls' o = ropOf ls o := by
  unfold ropOf
  unfold targetOf at hb
  split
  · rfl
  · rename_i idx hj
    rw [hj] at hb
    simp only at hb
    split
    · rename_i t hp
      rw [hp] at hb
      have := hb t rfl
      cases hc : Dict.get? ls t with
      | none => rw [hc] at this; cases this
      | some id => simp [idOfL, hc, h t id hc]
    · rfl

theorem map_ropOf_ext {ls ls' : Labels} (h : Ext ls ls') (os : List Op) (hb : TBound ls os) :
    os.map (ropOf ls') = os.map (ropOf ls) := by
  apply List.map_congr_left
  intro o ho
  exact ropOf_ext h o (hb o ho)

theorem TBound.ext {ls ls' : Labels} (h : Ext ls ls') {os : List Op} (hb : TBound ls os) : TBound ls' os := by
  intro o ho t ht
  have := hb o ho t ht
  cases hc : Dict.get? ls t with
  | none => rw [hc] at this; cases this
  | some id => simp [h t id hc]

theorem processOp_spec (ends : List Int) (rid : Nat) (offs : List Int) (ls : Labels) (o : Op)
    (hj : jumpOK offs o = true) (hreach : ∀ t ∈ offs, Reach ends rid t) (hinj : InjD ls) :
    ∃ ls', processOp ends rid ls o = .ok (ls', ropOf ls' o) ∧ Ext ls ls' ∧ InjD ls' ∧ TBound ls' [o] := by
  unfold jumpOK at hj
  unfold processOp ropOf
  cases hji : jumpIdx o.name with
  | none =>
    refine ⟨ls, rfl, Ext.refl _, hinj, ?_⟩
    intro o' ho' t ht
    simp at ho'; subst ho'
    simp [targetOf, hji] at ht
  | some idx =>
    rw [hji] at hj
    simp only [Bool.and_eq_true, beq_iff_eq] at hj
    obtain ⟨hlen, hp⟩ := hj
    have hlt : ¬ o.params.length < idx := by omega
    simp only [hlt, if_false]
    cases hpi : o.params[idx]? with
    | none => rw [hpi] at hp; cases hp
    | some p =>
      rw [hpi] at hp
      cases p with
      | int t =>
        simp only at hp
        have htm : t ∈ offs := by simpa using hp
        have htb : ∀ (ls' : Labels), (Dict.get? ls' t).isSome = true → TBound ls' [o] := by
          intro ls' h o' ho' t' ht'
          simp at ho'; subst ho'
          simp [targetOf, hji, hpi] at ht'
          subst ht'; exact h
        simp only
        cases hg : Dict.get? ls t with
        | some id =>
          refine ⟨ls, ?_, Ext.refl _, hinj, htb ls (by simp [hg])⟩
          simp [idOfL, hg]
        | none =>
          obtain ⟨r0, r1, h1, h2⟩ := hreach t htm
          simp only [h1, h2]
          refine ⟨Dict.set ls t (nextLabelId ls), ?_, Ext.set_new _ _ _ hg, ?_, htb _ (by simp [Dict.get?_set_self])⟩
          · simp [idOfL, Dict.get?_set_self]
          · intro k1 k2 v hk1 hk2
            rw [get?_set] at hk1 hk2
            by_cases e1 : t = k1 <;> by_cases e2 : t = k2
            · rw [← e1, ← e2]
            · rw [if_pos e1] at hk1; rw [if_neg e2] at hk2
              cases hk1
              have := lt_nextLabelId ls k2 _ hk2
              omega
            · rw [if_neg e1] at hk1; rw [if_pos e2] at hk2
              cases hk2
              have := lt_nextLabelId ls k1 _ hk1
              omega
            · rw [if_neg e1] at hk1; rw [if_neg e2] at hk2
              exact hinj k1 k2 v hk1 hk2
      | fixed _ => cases hp
      | const _ => cases hp
      | constString _ => cases hp
      | langString _ => cases hp
      | posMark _ _ _ _ _ => cases hp

theorem TBound.cons {ls : Labels} {o : Op} {os : List Op} (h1 : TBound ls [o]) (h2 : TBound ls os) : TBound ls (o :: os) := by
  intro o' ho'
  rcases List.mem_cons.1 ho' with h | h
  · subst h; exact h1 o' (by simp)
  · exact h2 o' h

theorem processRoutine_spec (ends : List Int) (rid : Nat) (offs : List Int) (hreach : ∀ t ∈ offs, Reach ends rid t)
    (os : List Op) : ∀ (ls : Labels), (∀ o ∈ os, jumpOK offs o = true) → InjD ls →
    ∃ ls', processRoutine ends rid ls os = .ok (ls', os.map (ropOf ls')) ∧ Ext ls ls' ∧ InjD ls' ∧ TBound ls' os := by
  induction os with
  | nil => intro ls _ hinj; exact ⟨ls, rfl, Ext.refl _, hinj, by intro o ho; cases ho⟩
  | cons o os ih =>
    intro ls hj hinj
    obtain ⟨ls1, h1, e1, i1, b1⟩ := processOp_spec ends rid offs ls o (hj o List.mem_cons_self) hreach hinj
    obtain ⟨ls2, h2, e2, i2, b2⟩ := ih ls1 (fun o' ho' => hj o' (List.mem_cons_of_mem _ ho')) i1
    refine ⟨ls2, ?_, e1.trans e2, i2, (b1.ext e2).cons b2⟩
    simp only [processRoutine, h1, h2, List.map_cons]
    rw [ropOf_ext e2 o (b1 o (by simp))]

theorem TBound.append {ls : Labels} {l1 l2 : List Op} (h1 : TBound ls l1) (h2 : TBound ls l2) : TBound ls (l1 ++ l2) := by
  intro o ho
  rcases List.mem_append.1 ho with h | h
  · exact h1 o h
  · exact h2 o h

theorem processAll_spec (ends : List Int) (offs : List Int)
    (rs : List (List Op)) : ∀ (rid : Nat) (ls : Labels), rid + rs.length ≤ ends.length →
    (∀ r, r < ends.length → ∀ t ∈ offs, Reach ends r t) →
    (∀ o ∈ rs.flatten, jumpOK offs o = true) → InjD ls →
    ∃ ls', processAll ends rid ls rs = .ok (ls', rs.map (List.map (ropOf ls'))) ∧ Ext ls ls' ∧ InjD ls' ∧ TBound ls' rs.flatten := by
  induction rs with
  | nil => intro rid ls _ _ _ hinj; exact ⟨ls, rfl, Ext.refl _, hinj, by intro o ho; cases ho⟩
  | cons r rs ih =>
    intro rid ls hlen hreach hj hinj
    simp only [List.length_cons] at hlen
    obtain ⟨ls1, h1, e1, i1, b1⟩ := processRoutine_spec ends rid offs (hreach rid (by omega)) r ls
      (fun o ho => hj o (by simp [ho])) hinj
    obtain ⟨ls2, h2, e2, i2, b2⟩ := ih (rid + 1) ls1 (by omega) hreach (fun o ho => hj o (by
      simp only [List.flatten_cons, List.mem_append]; exact .inr ho)) i1
    refine ⟨ls2, ?_, e1.trans e2, i2, ?_⟩
    · simp only [processAll, h1, h2, List.map_cons]
      rw [map_ropOf_ext e2 r b1]
    · rw [List.flatten_cons]
      exact (b1.ext e2).append b2

/-! ## §4 the by-name compiler on decompiled statements -/

theorem showNat_inj (a b : Nat) (h : showNat a = showNat b) : a = b := by
  have ha := readNat_showNat a
  rw [h, readNat_showNat] at ha
  cases ha; rfl

theorem labelName_inj (a b : Nat) (h : labelName a = labelName b) : a = b := by
  unfold labelName at h
  have := congrArg String.toList h
  simp only [String.toList_ofList] at this
  exact showNat_inj a b (List.append_cancel_left this)

theorem foldl_argStepN_params (ps : List Param) : ∀ (acc : List Param),
    (ps.map SArg.param).foldl argStepN (acc, none) = (acc ++ ps, none) := by
  induction ps with
  | nil => intro acc; simp
  | cons p ps ih =>
    intro acc
    simp only [List.map_cons, List.foldl_cons, argStepN, ih, List.append_assoc, List.singleton_append]

theorem runArgsN_params (ps : List Param) : runArgsN (ps.map SArg.param) = (ps, none) := by
  unfold runArgsN
  rw [foldl_argStepN_params]; simp

theorem runArgsN_params_jump (ps : List Param) (nm : String) :
    runArgsN (ps.map SArg.param ++ [.jump nm]) = (ps, some nm) := by
  unfold runArgsN
  rw [List.foldl_append, foldl_argStepN_params]
  simp [argStepN]

/-- a jump marker that is followed by another argument is dropped -/
theorem runArgsN_param_last (args : List SArg) (p : Param) : (runArgsN (args ++ [.param p])).2 = none := by
  unfold runArgsN
  rw [List.foldl_append]
  simp [argStepN]

def itemOfR (k : Nat) : ROp → NItem
  | .plain o => .op ⟨k, o.name, o.params⟩
  | .jump root id => .jump ⟨k, root.name, root.params⟩ (labelName id)

theorem stmtStepN_opStmt (a : NState) (r : ROp) :
    stmtStepN a (opStmt r) = (⟨setAllN a.offs a.pending.reverse a.total, [], a.total + 1⟩, [itemOfR a.total r]) := by
  cases r with
  | plain o => simp [opStmt, stmtStepN, runArgsN_params, mkItemN, itemOfR]
  | jump root id => simp [opStmt, stmtStepN, runArgsN_params_jump, mkItemN, itemOfR]

/-- the label printed before `o` (if its offset is a jump target) -/
def labelOf (ls : Labels) (o : Op) : Option String := (Dict.get? ls o.offset).map labelName

def labelStmt : Option String → List SStmt
  | some nm => [.label nm]
  | none => []

def labelItem : Option String → List NItem
  | some nm => [.label nm]
  | none => []

def srcStmts (ls : Labels) (o : Op) : List SStmt := labelStmt (labelOf ls o) ++ [opStmt (ropOf ls o)]

def srcItems (ls : Labels) (k : Nat) (o : Op) : List NItem := labelItem (labelOf ls o) ++ [itemOfR k (ropOf ls o)]

def updOffs (ls : Labels) (d : Dict String Int) (k : Nat) (o : Op) : Dict String Int :=
  match labelOf ls o with
  | some nm => Dict.set d nm k
  | none => d

def updAll (ls : Labels) : Dict String Int → Nat → List Op → Dict String Int
  | d, _, [] => d
  | d, k, o :: os => updAll ls (updOffs ls d k o) (k + 1) os

def itemsFrom (ls : Labels) : Nat → List Op → List NItem
  | _, [] => []
  | k, o :: os => srcItems ls k o ++ itemsFrom ls (k + 1) os

theorem stmtsOf_eq (ls : Labels) (os : List Op) : stmtsOf ls (os.map (ropOf ls)) = os.flatMap (srcStmts ls) := by
  induction os with
  | nil => rfl
  | cons o os ih =>
    simp only [List.map_cons, List.flatMap_cons, stmtsOf, ropOf_offset, ih, srcStmts, labelOf]
    cases Dict.get? ls o.offset <;> simp [labelStmt]

theorem runStmtsN_src (ls : Labels) (d : Dict String Int) (k : Nat) (o : Op) (rest : List SStmt) :
    runStmtsN ⟨d, [], k⟩ (srcStmts ls o ++ rest) =
      ((runStmtsN ⟨updOffs ls d k o, [], k + 1⟩ rest).1, srcItems ls k o ++ (runStmtsN ⟨updOffs ls d k o, [], k + 1⟩ rest).2) := by
  unfold srcStmts srcItems updOffs
  have hl : ∀ (a : NState) (nm : String), stmtStepN a (.label nm) = (⟨a.offs, a.pending ++ [nm], a.total⟩, [.label nm]) :=
    fun _ _ => rfl
  cases labelOf ls o with
  | none =>
    simp only [labelStmt, labelItem, List.nil_append, List.cons_append, runStmtsN, stmtStepN_opStmt, setAllN,
      List.reverse_nil, List.foldl_nil]
  | some nm =>
    simp only [labelStmt, labelItem, List.nil_append, List.cons_append, runStmtsN, hl, stmtStepN_opStmt, setAllN,
      List.reverse_cons, List.reverse_nil, List.foldl_cons, List.foldl_nil]

theorem runStmtsN_srcs (ls : Labels) (os : List Op) : ∀ (d : Dict String Int) (k : Nat),
    runStmtsN ⟨d, [], k⟩ (os.flatMap (srcStmts ls)) = (⟨updAll ls d k os, [], k + os.length⟩, itemsFrom ls k os) := by
  induction os with
  | nil => intro d k; rfl
  | cons o os ih =>
    intro d k
    rw [List.flatMap_cons, runStmtsN_src, ih]
    simp only [updAll, itemsFrom, List.length_cons]
    have : k + 1 + os.length = k + (os.length + 1) := by omega
    rw [this]

/-- the labels of the first `k` ops of the file resolve to the positions of these ops -/
def Res (ls : Labels) (offs : List Int) (d : Dict String Int) (k : Nat) : Prop :=
  ∀ j t id, j < k → offs[j]? = some t → Dict.get? ls t = some id → Dict.get? d (labelName id) = some (j : Int)

theorem Res.step {ls : Labels} {offs : List Int} {d : Dict String Int} {k : Nat} {o : Op}
    (hn : offs.Nodup) (hinj : InjD ls) (h : Res ls offs d k) (ho : offs[k]? = some o.offset) :
    Res ls offs (updOffs ls d k o) (k + 1) := by
  intro j t id hj hjt hid
  unfold updOffs labelOf
  by_cases hjk : j = k
  · subst hjk
    rw [ho] at hjt; cases hjt
    simp [hid, Dict.get?_set_self]
  · have hlt : j < k := by omega
    have hold := h j t id hlt hjt hid
    cases hg : Dict.get? ls o.offset with
    | none => simpa using hold
    | some id' =>
      simp only [Option.map_some]
      have hne : labelName id' ≠ labelName id := by
        intro e
        have e' := labelName_inj _ _ e
        subst e'
        have := hinj _ _ _ hg hid
        subst this
        have hjl : j < offs.length := by
          have := List.getElem?_eq_some_iff.1 hjt
          exact this.1
        have := (List.getElem?_inj hjl hn).1 (hjt.trans ho.symm)
        exact hjk this
      rw [Dict.get?_set_other _ _ _ _ hne]
      exact hold

theorem Res.steps {ls : Labels} {offs : List Int} (hn : offs.Nodup) (hinj : InjD ls) (os : List Op) :
    ∀ (d : Dict String Int) (k : Nat) (tail : List Int), Res ls offs d k → offs.drop k = os.map (·.offset) ++ tail →
    Res ls offs (updAll ls d k os) (k + os.length) := by
  induction os with
  | nil => intro d k tail h _; simpa [updAll] using h
  | cons o os ih =>
    intro d k tail h hd
    have ho : offs[k]? = some o.offset := by
      have := congrArg (fun l => l[0]?) hd
      simpa using this
    have hd' : offs.drop (k + 1) = os.map (·.offset) ++ tail := by
      have := congrArg (fun l => l.drop 1) hd
      simpa [List.drop_drop, Nat.add_comm] using this
    have := ih (updOffs ls d k o) (k + 1) tail (h.step hn hinj ho) hd'
    simp only [updAll, List.length_cons]
    have e : k + (os.length + 1) = k + 1 + os.length := by omega
    rw [e]; exact this

/-! ## §5 assembly -/

def updAllR (ls : Labels) : Dict String Int → Nat → List (List Op) → Dict String Int
  | d, _, [] => d
  | d, k, r :: rs => updAllR ls (updAll ls d k r) (k + r.length) rs

def itemsR (ls : Labels) : Nat → List (List Op) → List (List NItem)
  | _, [] => []
  | k, r :: rs => itemsFrom ls k r :: itemsR ls (k + r.length) rs

theorem Res.stepsR {ls : Labels} {offs : List Int} (hn : offs.Nodup) (hinj : InjD ls) (rs : List (List Op)) :
    ∀ (d : Dict String Int) (k : Nat) (tail : List Int), Res ls offs d k →
    offs.drop k = rs.flatten.map (·.offset) ++ tail →
    Res ls offs (updAllR ls d k rs) (k + rs.flatten.length) := by
  induction rs with
  | nil => intro d k tail h _; simpa [updAllR] using h
  | cons r rs ih =>
    intro d k tail h hd
    rw [List.flatten_cons, List.map_append, List.append_assoc] at hd
    have h1 := Res.steps hn hinj r d k _ h hd
    have hd' : offs.drop (k + r.length) = rs.flatten.map (·.offset) ++ tail := by
      have := congrArg (fun l => l.drop r.length) hd
      simp only [List.drop_drop] at this
      rw [this]
      exact List.drop_left' (by simp)
    have := ih _ _ tail h1 hd'
    simp only [updAllR, List.flatten_cons, List.length_append]
    have e : k + (r.length + rs.flatten.length) = k + r.length + rs.flatten.length := by omega
    rw [e]; exact this

theorem pySet_append_end {α : Type} (l : List α) (d v : α) : pySet (l ++ [d]) (l.length : Int) v = .ok (l ++ [v]) := by
  unfold pySet
  have h1 : ¬ ((l.length : Int) < 0) := by omega
  simp only [h1, if_false, List.length_append, List.length_cons, List.length_nil]
  have h2 : ¬ (False ∨ (l.length : Int) ≥ ((l.length + (0 + 1) : Nat) : Int)) := by
    simp only [false_or]; omega
  rw [if_neg h2]
  simp

/-- the decompiled file has id = position: the id check of `_enlarge_routine_info` passes and exactly one slot is added -/
theorem enlarge_next {ι : Type} (r : RState ι) (n : Nat) (h1 : r.infos.length = n) :
    enlarge { r with active := (n : Int) } = .ok ⟨r.infos ++ [none], r.ops ++ [[]], r.coros ++ [none], n⟩ := by
  unfold enlarge
  have h0 : ¬ ((n : Int) < 0 ∨ (n : Int) > (r.infos.length : Int)) := by omega
  have hc : ((r.infos.length : Int) - 1 < (n : Int)) := by omega
  simp only [h0, hc, if_true, if_false]
  have : ((n : Int) - (r.infos.length : Int) + 1).toNat = 1 := by omega
  simp [this]

theorem assign_next {ι : Type} (infos : List (Option RoutineInfo)) (ops : List (List ι)) (coros : List (Option String))
    (n : Nat) (h1 : infos.length = n) (h2 : ops.length = n) (info : RoutineInfo) (items : List ι) :
    assign ⟨infos ++ [none], ops ++ [[]], coros, n⟩ info items = .ok ⟨infos ++ [some info], ops ++ [items], coros, n⟩ := by
  unfold assign
  subst h1
  simp only [pySet_append_end]
  rw [← h2, pySet_append_end]

theorem exitDef_decompiled {ι : Type} (corosAll : List (Option String)) (r : RState ι) (rid : Nat) (info : RoutineInfo)
    (c : Option String) (items : List ι)
    (h1 : r.infos.length = rid) (h2 : r.ops.length = rid) (h3 : r.coros.length = rid) (h4 : r.active = (rid : Int) - 1)
    (hok : infoOK info c = true) (hc : corosAll[rid]? = some c) :
    ∃ h, header corosAll rid info = .ok h ∧
      exitDef r h items = .ok ⟨r.infos ++ [some info], r.ops ++ [items], r.coros ++ [canonCoro info c], rid⟩ := by
  obtain ⟨kind, lt, ln⟩ := info
  cases kind with
  | generic =>
    simp only [infoOK, Bool.and_eq_true, beq_iff_eq] at hok
    obtain ⟨e1, e2⟩ := hok
    subst e1 e2
    refine ⟨.simple rid, rfl, ?_⟩
    simp only [exitDef, enlarge_next r rid h1, assign_next _ _ _ rid h1 h2, canonCoro]
    simp
  | coroutine =>
    simp only [infoOK, Bool.and_eq_true, beq_iff_eq] at hok
    obtain ⟨⟨e1, e2⟩, e3⟩ := hok
    subst e1 e2
    cases c with
    | none => cases e3
    | some n =>
      refine ⟨.coro n, by simp [header, hc], ?_⟩
      have ha : r.active + 1 = (rid : Int) := by omega
      simp only [exitDef, ha, enlarge_next r rid h1]
      rw [← h3, pySet_append_end]
      simp only
      rw [h3, assign_next _ _ _ rid h1 h2]
      simp [canonCoro]
  | actor =>
    refine ⟨.forTarget rid "actor" (linkedToRepr ⟨.actor, lt, ln⟩), rfl, ?_⟩
    have hk : kindOfWord "actor" = some .actor := by decide
    simp only [exitDef, hk, enlarge_next r rid h1, assign_next _ _ _ rid h1 h2, canonCoro]
    have : infoOfTarget .actor (linkedToRepr ⟨.actor, lt, ln⟩) = ⟨.actor, lt, ln⟩ := by
      cases ln with
      | none => rfl
      | some s =>
        simp only [infoOK, Bool.and_eq_true, beq_iff_eq, bne_iff_ne, ne_eq] at hok
        obtain ⟨e1, e2⟩ := hok
        subst e1
        simp [linkedToRepr, e2, infoOfTarget]
    rw [this]; simp
  | object =>
    refine ⟨.forTarget rid "object" (linkedToRepr ⟨.object, lt, ln⟩), rfl, ?_⟩
    have hk : kindOfWord "object" = some .object := by decide
    simp only [exitDef, hk, enlarge_next r rid h1, assign_next _ _ _ rid h1 h2, canonCoro]
    have : infoOfTarget .object (linkedToRepr ⟨.object, lt, ln⟩) = ⟨.object, lt, ln⟩ := by
      cases ln with
      | none => rfl
      | some s =>
        simp only [infoOK, Bool.and_eq_true, beq_iff_eq, bne_iff_ne, ne_eq] at hok
        obtain ⟨e1, e2⟩ := hok
        subst e1
        simp [linkedToRepr, e2, infoOfTarget]
    rw [this]; simp
  | performer =>
    refine ⟨.forTarget rid "performer" (linkedToRepr ⟨.performer, lt, ln⟩), rfl, ?_⟩
    have hk : kindOfWord "performer" = some .performer := by decide
    simp only [exitDef, hk, enlarge_next r rid h1, assign_next _ _ _ rid h1 h2, canonCoro]
    have : infoOfTarget .performer (linkedToRepr ⟨.performer, lt, ln⟩) = ⟨.performer, lt, ln⟩ := by
      cases ln with
      | none => rfl
      | some s =>
        simp only [infoOK, Bool.and_eq_true, beq_iff_eq, bne_iff_ne, ne_eq] at hok
        obtain ⟨e1, e2⟩ := hok
        subst e1
        simp [linkedToRepr, e2, infoOfTarget]
    rw [this]; simp
  | invalid => simp [infoOK] at hok

theorem goN_decompiled (ls : Labels) (corosAll : List (Option String)) (rs : List (List Op)) :
    ∀ (is : List RoutineInfo) (cs : List (Option String)) (rid k : Nat) (d : Dict String Int) (rN : RState NItem),
    is.length = rs.length → cs.length = rs.length → corosAll.drop rid = cs →
    (∀ p ∈ is.zip cs, infoOK p.1 p.2 = true) →
    rN.infos.length = rid → rN.ops.length = rid → rN.coros.length = rid → rN.active = (rid : Int) - 1 →
    ∃ ast, routinesOf ls corosAll rid is (rs.map (List.map (ropOf ls))) = .ok ast ∧
      goG runStmtsN ⟨d, [], k⟩ rN ast = .ok (⟨updAllR ls d k rs, [], k + rs.flatten.length⟩,
        ⟨rN.infos ++ is.map some, rN.ops ++ itemsR ls k rs, rN.coros ++ List.zipWith canonCoro is cs,
         (rid : Int) + rs.length - 1⟩) := by
  induction rs with
  | nil =>
    intro is cs rid k d rN h1 h2 _ _ _ _ _ h8
    have : is = [] := List.eq_nil_of_length_eq_zero h1
    subst this
    have : cs = [] := List.eq_nil_of_length_eq_zero h2
    subst this
    refine ⟨[], rfl, ?_⟩
    obtain ⟨a, b, c, e⟩ := rN
    simp only at h8
    simp [goG, updAllR, itemsR, h8]
  | cons r rs ih =>
    intro is cs rid k d rN h1 h2 h3 h4 h5 h6 h7 h8
    cases is with
    | nil => simp at h1
    | cons i is' =>
    cases cs with
    | nil => simp at h2
    | cons c cs' =>
    have hc : corosAll[rid]? = some c := by
      have := congrArg (fun l => l[0]?) h3
      simpa using this
    have h3' : corosAll.drop (rid + 1) = cs' := by
      have := congrArg (fun l => l.drop 1) h3
      simpa [List.drop_drop, Nat.add_comm] using this
    obtain ⟨h, hh, hx⟩ := exitDef_decompiled corosAll rN rid i c (itemsFrom ls k r) h5 h6 h7 h8
      (h4 (i, c) (by simp)) hc
    obtain ⟨ast', ha1, ha2⟩ := ih is' cs' (rid + 1) (k + r.length) (updAll ls d k r)
      ⟨rN.infos ++ [some i], rN.ops ++ [itemsFrom ls k r], rN.coros ++ [canonCoro i c], rid⟩
      (by simpa using h1) (by simpa using h2) h3'
      (fun p hp => h4 p (by simp only [List.zip_cons_cons]; exact List.mem_cons_of_mem _ hp))
      (by simp [h5]) (by simp [h6]) (by simp [h7]) (by simp)
    refine ⟨⟨h, if (r.map (ropOf ls)).isEmpty then none else some (stmtsOf ls (r.map (ropOf ls)))⟩ :: ast', ?_, ?_⟩
    · simp only [List.map_cons, routinesOf, hh, ha1]
    · have hbody : (if (r.map (ropOf ls)).isEmpty then none else some (stmtsOf ls (r.map (ropOf ls)))).getD [] =
          r.flatMap (srcStmts ls) := by
        rw [← stmtsOf_eq]
        cases r with
        | nil => rfl
        | cons o os => rfl
      simp only [goG, hbody, runStmtsN_srcs, hx, ha2]
      simp only [updAllR, itemsR, List.flatten_cons, List.length_append, List.map_cons, List.zipWith_cons_cons,
        List.length_cons, List.append_assoc, List.singleton_append, Except.ok.injEq, Prod.mk.injEq, NState.mk.injEq,
        RState.mk.injEq, true_and, and_true]
      refine ⟨by omega, ?_⟩
      push_cast
      omega

/-- every jump target of the file resolves to its position -/
def ResAll (ls : Labels) (offs : List Int) (d : Dict String Int) : Prop :=
  ∀ t id, t ∈ offs → Dict.get? ls t = some id → Dict.get? d (labelName id) = some ((offs.idxOf t : Nat) : Int)

theorem ResAll.of_res {ls : Labels} {offs : List Int} {d : Dict String Int} (h : Res ls offs d offs.length) :
    ResAll ls offs d := by
  intro t id ht hid
  have hlt : offs.idxOf t < offs.length := List.idxOf_lt_length_of_mem ht
  refine h (offs.idxOf t) t id hlt ?_ hid
  rw [List.getElem?_eq_getElem hlt, List.getElem_idxOf hlt]

theorem removeItemsN_labelItem (d : Dict String Int) (x : Option String) (rest : List NItem) :
    removeItemsN d (labelItem x ++ rest) = removeItemsN d rest := by
  cases x <;> simp [labelItem, removeItemsN]

theorem removeItemsN_itemsFrom (ls : Labels) (offs : List Int) (d : Dict String Int) (hres : ResAll ls offs d)
    (os : List Op) : ∀ (k : Nat), (∀ o ∈ os, jumpOK offs o = true) → TBound ls os →
    removeItemsN d (itemsFrom ls k os) = .ok (renumFrom offs k os) := by
  induction os with
  | nil => intro k _ _; rfl
  | cons o os ih =>
    intro k hj hb
    have ih' := ih (k + 1) (fun o' ho' => hj o' (List.mem_cons_of_mem _ ho')) (fun o' ho' => hb o' (List.mem_cons_of_mem _ ho'))
    have hjo := hj o List.mem_cons_self
    have hbo := hb o List.mem_cons_self
    simp only [itemsFrom, srcItems, List.append_assoc, removeItemsN_labelItem, renumFrom, List.singleton_append]
    unfold jumpOK at hjo
    unfold targetOf at hbo
    unfold ropOf renumOp
    cases hji : jumpIdx o.name with
    | none => simp only [itemOfR, removeItemsN, ih']
    | some idx =>
      rw [hji] at hjo hbo
      simp only [Bool.and_eq_true, beq_iff_eq] at hjo hbo ⊢
      cases hpi : o.params[idx]? with
      | none => rw [hpi] at hjo; simp at hjo
      | some p =>
        rw [hpi] at hjo hbo
        cases p with
        | int t =>
          simp only at hjo hbo ⊢
          have htm : t ∈ offs := by simpa using hjo.2
          have hg := hbo t rfl
          cases hgt : Dict.get? ls t with
          | none => rw [hgt] at hg; cases hg
          | some id =>
            have := hres t id htm hgt
            simp only [itemOfR, removeItemsN, idOfL, hgt, Option.getD_some, this, ih']
        | fixed _ => simp at hjo
        | const _ => simp at hjo
        | constString _ => simp at hjo
        | langString _ => simp at hjo
        | posMark _ _ _ _ _ => simp at hjo

theorem mapE_itemsR (ls : Labels) (offs : List Int) (d : Dict String Int) (hres : ResAll ls offs d)
    (rs : List (List Op)) : ∀ (k : Nat), (∀ o ∈ rs.flatten, jumpOK offs o = true) → TBound ls rs.flatten →
    mapE (removeItemsN d) (itemsR ls k rs) = .ok (renumRoutines offs k rs) := by
  induction rs with
  | nil => intro k _ _; rfl
  | cons r rs ih =>
    intro k hj hb
    have h1 := removeItemsN_itemsFrom ls offs d hres r k (fun o ho => hj o (by simp [ho]))
      (fun o ho => hb o (by simp [ho]))
    have h2 := ih (k + r.length) (fun o ho => hj o (by simp only [List.flatten_cons, List.mem_append]; exact .inr ho))
      (fun o ho => hb o (by simp only [List.flatten_cons, List.mem_append]; exact .inr ho))
    simp only [itemsR, mapE, h1, h2, renumRoutines]

theorem allSome_map_some {α : Type} (l : List α) : allSome (l.map some) = some l := by
  induction l with
  | nil => rfl
  | cons a l ih => simp [allSome, ih]

theorem Res.zero (ls : Labels) (offs : List Int) (d : Dict String Int) : Res ls offs d 0 := by
  intro j t id hj; omega

/-- compile ∘ decompile on a well-formed routine set gives the renumbered routine set -/
theorem roundtrip_canon (x : RoutineSet) (h : WF' x) :
    ∃ ast, decompile x = .ok ast ∧ compile ast = .ok (canon x) := by
  obtain ⟨hl1, hl2, hsorted, hjump, hinfo⟩ := h
  have hnodup : x.offsets.Nodup := by
    refine List.Pairwise.imp ?_ hsorted
    intro a b hab; omega
  have hends : (endOffsets x.ops).length = x.ops.length := endOffsetsAux_length _ _
  obtain ⟨ls, hp, _, hinj, hbound⟩ := processAll_spec (endOffsets x.ops) x.offsets x.ops 0 [] (by omega)
    (fun r hr t ht => reach_of_sorted x.ops hsorted r hr t ht) hjump
    (by intro k1 k2 v h1; simp [Dict.get?] at h1)
  obtain ⟨ast, ha1, ha2⟩ := goN_decompiled ls x.coros x.ops x.infos x.coros 0 0 [] RState.init hl1 hl2 rfl hinfo
    rfl rfl rfl rfl
  refine ⟨ast, ?_, ?_⟩
  · simp only [decompile, hp, ha1]
  · have hres : ResAll ls x.offsets (updAllR ls [] 0 x.ops) := by
      apply ResAll.of_res
      have hlen : x.offsets.length = 0 + x.ops.flatten.length := by
        simp only [RoutineSet.offsets, RoutineSet.flat, List.length_map, Nat.zero_add]
      rw [hlen]
      exact Res.stepsR hnodup hinj x.ops [] 0 [] (Res.zero _ _ _) (by simp [RoutineSet.offsets, RoutineSet.flat])
    have hm := mapE_itemsR ls x.offsets _ hres x.ops 0 hjump hbound
    unfold compile
    rw [compileRaw_eq_N]
    unfold compileRawN
    simp only [NState.init, ha2]
    simp only [RState.init, List.nil_append, hm, CompileOut.toSet, allSome_map_some, canon]

end ESV.SsbScript
