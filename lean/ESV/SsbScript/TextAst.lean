import ESV.SsbScript.TextInv
/-
Lemmas for the text model of the SsbScript decompiler, part 3: the emitted text is the prefix followed by the printed
statement AST of the AST-level model (`ESV.SsbScript.decompile`, the model of C07), and both models fail on the same
inputs with the same exception class.
-/
namespace ESV.SsbScript.Text
open ESV ESV.Writer ESV.SsbScript ESV.C09

/-- a routine body: every statement on its own line, indented by one level -/
def printStmts (ss : List SStmt) : Str := ss.flatMap fun s => '\n' :: (spaces 4 ++ stmtStr 1 s)

def printBody : Option (List SStmt) → Str
  | none => '\n' :: (spaces 4 ++ "alias previous;".toList)
  | some ss => printStmts ss

/-- `⏎header {` body `⏎}⏎` -/
def printRoutine (r : SRoutine) : Str :=
  '\n' :: (headerStr r.header ++ " {".toList) ++ printBody r.body ++ ['\n', '}', '\n']

def printAst (rs : List SRoutine) : Str := rs.flatMap printRoutine

theorem writeStmnt_out_nl (w : W) (s : Str) :
    (writeStmnt w s true).out = w.out ++ ('\n' :: (spaces (w.indent * ESV.Spec.spacesPerIndent) ++ s)) := by
  simp [writeStmnt, writeLine]

theorem readOp_out (t : TW) (hi : t.w.indent = 1) (r : ROp) :
    (readOp t r).w.out = t.w.out ++ ('\n' :: (spaces 4 ++ stmtStr 1 (opStmt r))) ∧ (readOp t r).w.indent = 1 := by
  have h4 : ESV.Spec.spacesPerIndent = 4 := rfl
  constructor
  · simp only [readOp, TW.stmnt, TW.entry, TW.addMarks]
    rw [writeStmnt_out_nl]
    simp [addEntry, hi, h4]
  · simp [readOp, TW.stmnt, TW.entry, TW.addMarks, writeStmnt_indent, addEntry, hi]

theorem writeOps_out (ls : Labels) :
    ∀ (rs : List ROp) (t : TW), t.w.indent = 1 →
      (writeOps ls t rs).w.out = t.w.out ++ printStmts (stmtsOf ls rs) ∧ (writeOps ls t rs).w.indent = 1
  | [], t, hi => by simp [writeOps, stmtsOf, printStmts, hi]
  | r :: rs, t, hi => by
    have h4 : ESV.Spec.spacesPerIndent = 4 := rfl
    unfold writeOps stmtsOf
    split
    · rename_i id hg
      have hi1 : (t.stmnt (stmtStr t.w.indent (.label (labelName id))) true).w.indent = 1 := by
        simp [TW.stmnt, writeStmnt_indent, hi]
      have ho1 : (t.stmnt (stmtStr t.w.indent (.label (labelName id))) true).w.out =
          t.w.out ++ ('\n' :: (spaces 4 ++ stmtStr 1 (.label (labelName id)))) := by
        simp only [TW.stmnt]; rw [writeStmnt_out_nl]; simp [hi, h4]
      obtain ⟨ho2, hi2⟩ := readOp_out _ hi1 r
      obtain ⟨ho3, hi3⟩ := writeOps_out ls rs _ hi2
      refine ⟨?_, hi3⟩
      rw [ho3, ho2, ho1]
      simp [printStmts, hg]
    · rename_i hg
      obtain ⟨ho2, hi2⟩ := readOp_out t hi r
      obtain ⟨ho3, hi3⟩ := writeOps_out ls rs _ hi2
      refine ⟨?_, hi3⟩
      rw [ho3, ho2]
      simp [printStmts, hg]

theorem writeRoutine_out (ls : Labels) (t : TW) (hi : t.w.indent = 0) (h : SHeader) (r : List ROp) :
    (writeRoutine ls t h r).w.out = t.w.out ++ printRoutine ⟨h, if r.isEmpty then none else some (stmtsOf ls r)⟩ ∧
    (writeRoutine ls t h r).w.indent = 0 := by
  have h4 : ESV.Spec.spacesPerIndent = 4 := rfl
  simp only [writeRoutine]
  have ho1 : (t.stmnt (headerStr h) true).w.out = t.w.out ++ ('\n' :: headerStr h) := by
    simp only [TW.stmnt]; rw [writeStmnt_out_nl]; simp [hi, spaces]
  have hi1 : (t.stmnt (headerStr h) true).w.indent = 0 := by simp [TW.stmnt, writeStmnt_indent, hi]
  generalize t.stmnt (headerStr h) true = t1 at ho1 hi1 ⊢
  have ho2 : ((t1.setIndent (t1.w.indent + 1)).stmnt " {".toList false).w.out = t1.w.out ++ " {".toList := by
    simp [TW.stmnt, TW.setIndent, setIndentW, writeStmnt]
  have hi2 : ((t1.setIndent (t1.w.indent + 1)).stmnt " {".toList false).w.indent = 1 := by
    simp [TW.stmnt, TW.setIndent, setIndentW, writeStmnt_indent, hi1]
  generalize (t1.setIndent (t1.w.indent + 1)).stmnt " {".toList false = t2 at ho2 hi2 ⊢
  cases r with
  | nil =>
    simp only [List.isEmpty_nil, if_true, writeOps]
    have ho3 : (t2.stmnt "alias previous;".toList true).w.out = t2.w.out ++ ('\n' :: (spaces 4 ++ "alias previous;".toList)) := by
      simp only [TW.stmnt]; rw [writeStmnt_out_nl]; simp [hi2, h4]
    have hi3 : (t2.stmnt "alias previous;".toList true).w.indent = 1 := by simp [TW.stmnt, writeStmnt_indent, hi2]
    generalize t2.stmnt "alias previous;".toList true = t3 at ho3 hi3 ⊢
    constructor
    · simp only [TW.newline, TW.stmnt, TW.setIndent, writeLine]
      rw [writeStmnt_out_nl]
      simp [setIndentW, hi3, ho3, ho2, ho1, printRoutine, printBody, spaces, writeStmnt_indent]
    · simp [TW.newline, TW.stmnt, TW.setIndent, writeLine, setIndentW, writeStmnt_indent, hi3]
  | cons o os =>
    simp only [List.isEmpty_cons, Bool.false_eq_true, if_false]
    obtain ⟨ho4, hi4⟩ := writeOps_out ls (o :: os) t2 hi2
    generalize writeOps ls t2 (o :: os) = t4 at ho4 hi4 ⊢
    constructor
    · simp only [TW.newline, TW.stmnt, TW.setIndent, writeLine]
      rw [writeStmnt_out_nl]
      simp [setIndentW, hi4, ho4, ho2, ho1, printRoutine, printBody, spaces, writeStmnt_indent]
    · simp [TW.newline, TW.stmnt, TW.setIndent, writeLine, setIndentW, writeStmnt_indent, hi4]

/-- the routine loop against `routinesOf` of the AST-level model: same exception, or the printed routines appended -/
theorem writeRoutines_out (ls : Labels) (coros : List (Option String)) :
    ∀ (is : List RoutineInfo) (rs : List (List ROp)) (rid : Nat) (t : TW), t.w.indent = 0 →
      match routinesOf ls coros rid is rs with
      | .error e => writeRoutines ls coros rid is rs t = .error e
      | .ok ast => ∃ t', writeRoutines ls coros rid is rs t = .ok t' ∧ t'.w.out = t.w.out ++ printAst ast
  | [], rs, rid, t, _ => by simp [routinesOf, writeRoutines, printAst]
  | _ :: _, [], rid, t, _ => by simp [routinesOf, writeRoutines, printAst]
  | i :: is, r :: rs, rid, t, hi => by
    simp only [routinesOf, writeRoutines]
    cases hh : header coros rid i with
    | error e => simp
    | ok h =>
      simp only
      obtain ⟨ho1, hi1⟩ := writeRoutine_out ls t hi h r
      have ih := writeRoutines_out ls coros is rs (rid + 1) (writeRoutine ls t h r) hi1
      cases hr : routinesOf ls coros (rid + 1) is rs with
      | error e => rw [hr] at ih; simpa using ih
      | ok rest =>
        rw [hr] at ih
        obtain ⟨t', h1, h2⟩ := ih
        refine ⟨t', h1, ?_⟩
        rw [h2, ho1]
        simp [printAst]

theorem start_out (pre : Str) : (start pre).w.out = pre ∧ (start pre).w.indent = 0 := by
  simp [start, writeStmnt, Writer.init]

/-- the text model against the AST-level model -/
theorem decompileText_vs_decompile (pre : Str) (x : RoutineSet) :
    match decompile x with
    | .error e => decompileText pre x = .error e
    | .ok ast => ∃ entries marks, decompileText pre x = .ok (pre ++ printAst ast, entries, marks) := by
  unfold decompile decompileText
  cases hp : processAll (endOffsets x.ops) 0 [] x.ops with
  | error e => simp
  | ok p =>
    obtain ⟨ls, rr⟩ := p
    simp only
    have h := writeRoutines_out ls x.coros x.infos rr 0 (start pre) (start_out pre).2
    cases hr : routinesOf ls x.coros 0 x.infos rr with
    | error e => rw [hr] at h; simp [h]
    | ok ast =>
      rw [hr] at h
      obtain ⟨t', h1, h2⟩ := h
      simp only [h1]
      exact ⟨t'.w.map, t'.marks, by rw [h2, (start_out pre).1]⟩

end ESV.SsbScript.Text
