import ESV.SsbScript.Model
import ESV.Lit.Model
import ESV.Writer.Model
/-
Character-level model of the SsbScript decompiler: the emitted text and the source map
(explorerscript/ssb_script/ssb_converting/ssb_decompiler.py, class SsbScriptSsbDecompiler:
convert(prefix), _write_routine_header, _read_op, _single_param_to_string, write_stmnt, _write_line;
util.Blk; SourceMapBuilder.add_opcode / add_position_mark / build).

The text is DEFINED as a fold of the writer calls of ESV/Writer/Model.lean (`writeStmnt`, `writeLine`, state `W`), so
that the protocol theorems of ESV/Props/C09.lean (`Inv`, `writer_entry_pos`) apply to it.  The label pass is the one
of ESV/SsbScript/Model.lean (`processAll`, `header`, `opStmt`, `labelName`); the parameter printers are the ones of
ESV/Lit/Model.lean (tied to Python's `str(param)` by ./check C04).

One call differs from the writer protocol of the ExplorerScript decompiler: `_read_op` calls
`SourceMapBuilder.add_opcode(op.offset, self._line_number, indent * 4)` directly, without the `if op_offset < 0: return`
of `ExplorerScriptSsbDecompiler.source_map_add_opcode`; `addEntry` below is that unfiltered call (it is `Writer.addOpcode`
for every offset ≥ 0: `addEntry_eq_addOpcode` in TextLemmas.lean).

The op entries are returned in RECORDING order (the calls of `add_opcode`); `SourceMapBuilder._mappings` is a dict, so
`build()` holds `mappingsOf entries` (a later entry for the same offset replaces the value, the position of the first stays).
-/
namespace ESV.SsbScript.Text
open ESV ESV.Writer ESV.SsbScript

abbrev Str := List Char

/-! ### statement texts -/

/-- `_single_param_to_string(param)`: `param.indent = self.indent` (where the class has the attribute), `str(param)` -/
def paramStr (indent : Nat) : Param → Str
  | .int i => showInt i
  | .fixed v => v.toList
  | .const n => n.toList
  | .constString s => Lit.constStr s.toList indent
  | .langString items => Lit.langStr (items.map fun kv => (kv.1.toList, kv.2.toList)) indent
  | .posMark n xo yo xr yr => Lit.posMarkStr ⟨n.toList, xo, yo, xr, yr⟩

/-- one element of the `, `-joined parameter string: a parameter, or the jump marker `@label_N` -/
def argStr (indent : Nat) : SArg → Str
  | .param p => paramStr indent p
  | .jump l => '@' :: l.toList

/-- `@label_N;` and `Name(params);` (the statement AST of Model.lean, printed) -/
def stmtStr (indent : Nat) : SStmt → Str
  | .label n => '@' :: n.toList ++ [';']
  | .op name args => name.toList ++ '(' :: Lit.joinWith [',', ' '] (args.map (argStr indent)) ++ [')', ';']

def targetStr : STarget → Str
  | .int i => showInt i
  | .name s => s.toList

/-- the f-strings of `_write_routine_header` -/
def headerStr : SHeader → Str
  | .simple id => "def ".toList ++ showInt id
  | .coro n => "coro ".toList ++ n.toList
  | .forTarget id word t => "def ".toList ++ showInt id ++ " for ".toList ++ word.toList ++ ' ' :: targetStr t

/-! ### writer state: the protocol state `W` plus the position marks of the builder -/

/-- `SourceMapPositionMark` -/
structure Mark where
  line : Nat
  col : Nat
  endLine : Nat
  endCol : Nat
  name : Str
  xOff : Int
  yOff : Int
  xRel : Int
  yRel : Int
deriving DecidableEq, Repr

structure TW where
  w : W
  marks : List Mark
deriving Repr

/-- `convert`: `_output = prefix; indent = 0; _line_number = prefix.count("\n") + 1; SourceMapBuilder()` -/
def start (pre : Str) : TW := ⟨writeStmnt Writer.init pre false, []⟩

def TW.stmnt (t : TW) (s : Str) (nl : Bool) : TW := ⟨writeStmnt t.w s nl, t.marks⟩
def TW.newline (t : TW) : TW := ⟨writeLine t.w, t.marks⟩
def setIndentW (w : W) (n : Nat) : W := { w with indent := n }
def TW.setIndent (t : TW) (n : Nat) : TW := ⟨setIndentW t.w n, t.marks⟩

/-- `self._source_map_builder.add_opcode(off, self._line_number, self.indent * NUMBER_OF_SPACES_PER_INDENT)` -/
def addEntry (w : W) (off : Int) : W :=
  { w with map := w.map ++ [(off, w.line, w.indent * ESV.Spec.spacesPerIndent)] }

def TW.entry (t : TW) (off : Int) : TW := ⟨addEntry t.w off, t.marks⟩

/-- the `SourceMapPositionMark(...)` built in `_read_op` for a position marker parameter -/
def markOf (w : W) : Param → List Mark
  | .posMark n xo yo xr yr =>
    let cn := w.indent * ESV.Spec.spacesPerIndent
    [⟨w.line, cn, w.line, cn + (paramStr w.indent (.posMark n xo yo xr yr)).length, n.toList, xo, yo, xr, yr⟩]
  | _ => []

/-- `for param in orig_params: if isinstance(param, SsbOpParamPositionMarker): add_position_mark(...)` -/
def TW.addMarks (t : TW) (ps : List Param) : TW := ⟨t.w, t.marks ++ ps.flatMap (markOf t.w)⟩

/-! ### `_read_op` and the statement loop -/

/-- `real_op` -/
def ROp.root : ROp → Op
  | .plain o => o
  | .jump o _ => o

/-- `_read_op(op)`: the parameter string is built with `indent = self.indent`, then the position marks, the source map
entry (before the statement is written) and `write_stmnt(f"{name}({params});")` -/
def readOp (t : TW) (r : ROp) : TW :=
  ((t.addMarks (ROp.root r).params).entry r.offset).stmnt (stmtStr t.w.indent (opStmt r)) true

/-- `_iter_routine` + the body loop: `@label_N;` before every op whose offset has a label -/
def writeOps (ls : Labels) : TW → List ROp → TW
  | t, [] => t
  | t, r :: rs =>
    match Dict.get? ls r.offset with
    | some id => writeOps ls (readOp (t.stmnt (stmtStr t.w.indent (.label (labelName id))) true) r) rs
    | none => writeOps ls (readOp t r) rs

/-- one round of the routine loop: header, `with Blk(self)` (indent + 1, ` {` on the header line … indent - 1, `}` on a
new line), `alias previous;` for a routine without ops, the trailing `_write_line()` -/
def writeRoutine (ls : Labels) (t : TW) (h : SHeader) (r : List ROp) : TW :=
  let t1 := t.stmnt (headerStr h) true
  let t2 := (t1.setIndent (t1.w.indent + 1)).stmnt " {".toList false
  let t3 := if r.isEmpty then t2.stmnt "alias previous;".toList true else t2
  let t4 := writeOps ls t3 r
  let t5 := (t4.setIndent (t4.w.indent - 1)).stmnt "}".toList true
  t5.newline

/-- `for r_id, (r_info, r_ops) in enumerate(zip(self._routine_infos, routine_ops))`; `_write_routine_header` raises
ValueError for a coroutine without a name and for an unknown routine type -/
def writeRoutines (ls : Labels) (coros : List (Option String)) :
    Nat → List RoutineInfo → List (List ROp) → TW → Except Err TW
  | _, [], _, t => .ok t
  | _, _ :: _, [], t => .ok t
  | rid, i :: is, r :: rs, t =>
    match header coros rid i with
    | .error e => .error e
    | .ok h => writeRoutines ls coros (rid + 1) is rs (writeRoutine ls t h r)

/-- `SsbScriptSsbDecompiler(infos, ops, coros).convert(prefix=prefix)`: the text, the `add_opcode` calls in recording
order (offset, line, column) and the position marks -/
def decompileText (pre : Str) (x : RoutineSet) : Except Err (Str × List (Int × Nat × Nat) × List Mark) :=
  match processAll (endOffsets x.ops) 0 [] x.ops with
  | .error e => .error e
  | .ok (ls, rr) =>
    match writeRoutines ls x.coros 0 x.infos rr (start pre) with
    | .error e => .error e
    | .ok t => .ok (t.w.out, t.w.map, t.marks)

/-- `SourceMapBuilder._mappings` after the recorded calls: `self._mappings[op_offset] = SourceMapping(line, column)` -/
def mappingsOf (entries : List (Int × Nat × Nat)) : Dict Int (Nat × Nat) :=
  entries.foldl (fun d e => Dict.set d e.1 e.2) []

end ESV.SsbScript.Text
